#!/usr/bin/env python3
"""C03: the evaluation result is independent of the evaluation path.
(1) dispatch soundness of get_evaluator (E1, CBMC contract)   (2) every specialised core yields the
SAME TERM as the generic core (E3-term)   (3) call operator / evaluator twins (E3 call logs)
(4) SIMD multibasis cores and gradient lanes (E3-term)."""
import sys, os, time, itertools, multiprocessing as mp
sys.path.insert(0, os.path.dirname(os.path.dirname(os.path.abspath(__file__))))
from tools import vlib, units, gotoexec as G, e3lib as E, e3cores as EC
import c01, c02

PROGS = c01.PROGS

def variant_case(args):
    Float, vname, kw, orders, naxes, centers = args
    t0 = time.time()
    tag = "%s %s%s orders=%s naxes=%s centers=%s" % (Float, vname, {k: v for k, v in kw.items()}, list(orders), list(naxes), list(centers))
    try:
        dom = G.TermDom()
        gp, gparams, gname = PROGS["core_" + Float]
        r0, strides = EC.run_core(gp, gparams, gname, dom, orders, naxes, centers)
        vp, vparams, vn = PROGS["variant_%s_%s_%s" % (Float, vname, sorted(kw.items()))]
        r1, _ = EC.run_core(vp, vparams, vn, dom, orders, naxes, centers)
        good = r0.sym == r1.sym
        return [(tag + " == generic core (term identity)", good, "" if good else "generic %s variant %s" % (dom.show(r0.sym, 4)[:200], dom.show(r1.sym, 4)[:200]), time.time() - t0)]
    except Exception as ex:
        return [(tag + " execution [%s]" % str(ex)[:60], False, "%s: %s" % (type(ex).__name__, ex), time.time() - t0)]

def operator_case(args):
    """operator() == searchcenters, then ndsplineeval(x, centers, 0) (resp. the evaluator's with its mask); 0 when lookup fails"""
    Float, which, inrange = args
    prog, params = PROGS["twin_" + Float]; t0 = time.time()
    tag = "%s %s call operator, lookup %s" % (Float, which, "succeeds" if inrange else "fails")
    try:
        dom = G.TermDom(); it = G.Interp(prog, dom); it.prog_params = params
        it.set_global("ndim", 2)
        log = []
        def h_sc(it_, a):
            log.append(("searchcenters", a)); a[1].obj.cells[a[1].off] = 7; a[1].obj.cells[a[1].off + 1] = 9; return inrange
        def h_ev(it_, a): log.append(("ndsplineeval", a)); return it_.fsym("value", 1)
        it.hooks["searchcenters"] = h_sc; it.hooks["ndsplineeval"] = h_ev; it.hooks["ev_ndsplineeval"] = h_ev
        xo = it.array("x", [it.fsym("x0", 1), it.fsym("x1", 2)])
        if which == "member": r = it.call("call_operator", [G.Ptr(xo, 0)]); mask = 0
        else: mask = 2; r = it.call("ev_call_operator", [G.Ptr(xo, 0), mask])
        bad = []
        if not log or log[0][0] != "searchcenters" or log[0][1][0].obj is not xo: bad.append("lookup not called on x first")
        if inrange:
            if len(log) != 2 or log[1][0] != "ndsplineeval": bad.append("evaluation not called exactly once after lookup")
            else:
                a = log[1][1]
                if not (a[0].obj is xo and a[1].obj is log[0][1][1].obj and a[1].obj.cells[:2] == [7, 9] and a[2] == mask): bad.append("evaluation called with other arguments than (x, the looked-up centers, derivative mask)")
            if not (isinstance(r, G.FV) and r.sym == dom.symbol("value")): bad.append("result is not the evaluated value")
        else:
            if len(log) != 1: bad.append("evaluation called although lookup failed")
            if not (isinstance(r, G.FV) and r.num == 0): bad.append("result is not zero when lookup fails")
        return [(tag, not bad, "; ".join(bad), time.time() - t0)]
    except Exception as ex:
        return [(tag + " execution [%s]" % str(ex)[:60], False, "%s: %s" % (type(ex).__name__, ex), time.time() - t0)]

def replayer(v):
    from tools import native
    exe = native.build_driver("replay_paths", ["src/core/bspline.cpp"], sanitize=False)
    rc, out = native.run_driver(exe, "", "paths", timeout=600)
    return dict(replayed=rc != 0, input="order patterns of the property's quantifier: ndim 1..9 x {all k, mixed}, {2,2,2,3,2,2}, {2,2,2,5,2,2}; 24 points each incl. knots and ends",
                driver="tools/replay/replay_paths.cpp (bit comparison of member / evaluator<float> / evaluator<double> / operator() / gradient value lane)", exit_code=rc, observed=out[:3000])

def variants(thorough):
    DMAX = 5 if not thorough else 8
    vs = []
    for D in range(1, DMAX + 1):
        vs.append(("ndsplineeval_coreD", dict(D=D), [tuple((d * 2 + 1) % 4 for d in range(D)), tuple([2] * D), tuple([0] * D) if D <= 4 else tuple([1] * D)]))
        for O in (2, 3):
            vs.append(("ndsplineeval_coreD_FixedOrder", dict(D=D, O=O), [tuple([O] * D)]))
    vs.append(("ndsplineeval_core_KnownOrder", dict(orders=(2, 2, 2, 3, 2, 2)), [(2, 2, 2, 3, 2, 2)]))
    vs.append(("ndsplineeval_core_KnownOrder", dict(orders=(2, 2, 2, 5, 2, 2)), [(2, 2, 2, 5, 2, 2)]))
    return vs

def main():
    thorough = vlib.TIER == "thorough"
    rep = vlib.Report("C03")
    units.check_nchunks_templates()
    tasks = []
    for Float in ("float", "double"):
        cp, cparams, ce = EC.core_program("ndsplineeval_core", Float); PROGS["core_" + Float] = (cp, cparams, ce.name)
        tp, tparams, ds = c02.build_twin_program(Float); PROGS["twin_" + Float] = (tp, tparams)
        if Float == "float": rep.functions += [ce.info()] + [d.info() for d in ds]
        for vname, kw, orderlists in variants(thorough):
            tagk = "_".join("%s%s" % (k, "".join(map(str, v)) if isinstance(v, tuple) else v) for k, v in sorted(kw.items()))
            vp, vparams, ve = EC.core_program(vname, Float, tag="_" + tagk, cname=vname + "_" + tagk, **kw)
            PROGS["variant_%s_%s_%s" % (Float, vname, sorted(kw.items()))] = (vp, vparams, ve.name)
            if Float == "float": rep.functions.append(ve.info())
            for orders in orderlists:
                shapes = EC.shapes_for(orders)
                if len(orders) >= 6 and not thorough: shapes = shapes[1:2] + shapes[3:4]
                if len(orders) >= 7: shapes = shapes[3:4]
                for naxes, centers in shapes: tasks.append((Float, vname, kw, orders, tuple(naxes), tuple(centers)))
    otasks = [(F, w, r) for F in ("float", "double") for w in ("member", "evaluator") for r in (True, False)]
    t0 = time.time()
    with mp.Pool(min(vlib.NCORES, 16)) as pool:
        rv = pool.map(variant_case, tasks, chunksize=1); tv = time.time() - t0; t1 = time.time()
        ro = pool.map(operator_case, otasks, chunksize=1); to = time.time() - t1
    for name, results, backend, wall in (("C03-variant-vs-generic", rv, "E3-term (free-term identity over the GOTO program)", tv),
                                         ("C03-call-operator", ro, "E3 (call log of the extracted operator(), callees hooked)", to)):
        flat = [o for r in results for o in r]
        rep.add_group(backend, len(flat), sum(1 for o in flat if o[1]), wall, bounded="integer shape enumerated (instantiation, orders, axes, centers); all floating-point inputs opaque symbols", name=name)
        for o in flat:
            if not o[1]: rep.add_violation(name, o[0].replace(" ", "_"), o[0] + ": " + o[2], trace=o[2])
        rep.samples += [o[0] for o in flat[:2]]
    # (1) dispatch soundness by CBMC, (4) SIMD: added by the modules below when available
    try:
        import c03_dispatch
        js = c03_dispatch.jobs(thorough)
        vlib.run_jobs(js, nproc=4); rep.add_jobs(js)
        rep.functions.append(c03_dispatch.INFO); rep.functions.append(c03_dispatch.INFO2)
    except ImportError:
        rep.assume("dispatch soundness of get_evaluator: NOT checked in this run")
    try:
        import c03_simd
        c03_simd.add(rep, thorough)
    except ImportError:
        rep.assume("SIMD multibasis cores / gradient lanes: NOT checked in this run")
    rep.extra["instantiations"] = len(variants(thorough))
    rep.assume("term identity is sufficient (not necessary) for bit identity: identical operation trees on identical inputs give identical IEEE results",
               "template instantiation by textual substitution (R2: D, O macros; R9: nchunks/chunk computed by the extractor, the constexpr templates' text is checked)",
               "the C wrappers in src/cinter/splinetable.cpp and evaluator_type::searchcenters are one-line delegations (C++): assumed",
               "member functions vs evaluator twins: both are checked against the same routine/argument map in C02b; here operator() of both")
    rep.trust("tools/gotoexec.py", "goto-cc front end", "tools/extract.py rules", "cbmc 6.11.0 (dispatch contract)")
    rep.finish(replayer)

if __name__ == "__main__":
    main()
