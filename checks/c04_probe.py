import sys, os
sys.path.insert(0, os.path.dirname(os.path.dirname(os.path.abspath(__file__))))
from tools import vlib, units
from specs import searchcenters as S, table as T
N = int(sys.argv[1]); ND = int(sys.argv[2]); nan_ok = sys.argv[3] == "nan"
f = units.member_function(units.EVAL_H, "searchcenters", "bool")
ct, nreal, labels = S.contract(N, ND, nan_ok)
tu = T.PRELUDE + ct + f.text(S.loop_contracts(N, ND, nan_ok)) + S.harness()
j = vlib.Job("sc", tu, "h_searchcenters", enforce="searchcenters", expect_fail=S.canary_patterns(nreal, labels), must_have=["loop_invariant_step", "decreases"], timeout=int(os.environ.get("TO","600")), split=int(os.environ.get("SPLIT","16")))
os.environ["VERIF_KEEP"] = "1"
j.run()
print(j.status, j.reason, j.wall, j.n_obligations(), j.n_discharged())
print(j.failed()[:10]); print(j.canaries_ok(), j.missing())
print(vlib.workdir())
for (n,d,s) in j.results:
    if "loop_invariant" in n or "postcondition" in n or "decreases" in n: print(n, s, d[:60])
if j.failed(): print(j.trace_for(j.failed()[0][0])[-3000:])
