#!/usr/bin/env python3
"""C09 (PARTIAL - necessary conditions only): the penalty rows built by divided_diffs (glam.c) are exactly the operator
that maps B-spline coefficients to the coefficients of the penaltyOrder-th derivative:
    d^p/dx^p  sum_i c_i B_{i,k}(x)  ==  sum_j ( sum_m out_j[m] c_{j+m} ) B_{j+p,k-p}(x)        (identity in Q(x, knots, c))
checked by executing the extracted divided_diffs from CBMC's GOTO program over the fraction field, and calc_penalty's
triplet fill places row r in columns r..r+p.  Everything else in C09 (GLAM products, sparse Cholesky, accuracy of the
minimiser) depends on cholmod numerics and is NOT decided."""
import sys, os, time, multiprocessing as mp
sys.path.insert(0, os.path.dirname(os.path.dirname(os.path.abspath(__file__))))
from fractions import Fraction as Fr
from tools import vlib, units, gotoexec as G, e3lib as E
GLAM = "src/fitter/glam.c"
PROG = None

def build():
    dd = units.free_function(GLAM, "divided_diffs"); cp = units.free_function(GLAM, "calc_penalty")
    pre = ("#include <stdint.h>\n#include <stddef.h>\n"
           "typedef struct cholmod_triplet_struct { size_t nrow, ncol, nzmax, nnz; void *i, *j, *x, *z; int stype, itype, xtype, dtype; } cholmod_triplet;\n"
           "typedef struct cholmod_sparse_struct { size_t nrow, ncol; int stype; } cholmod_sparse; typedef long cholmod_common;\n#define CHOLMOD_REAL 1\n"
           "cholmod_triplet* cholmod_l_allocate_triplet(size_t, size_t, size_t, int, int, cholmod_common*);\n"
           "cholmod_sparse* cholmod_l_triplet_to_sparse(cholmod_triplet*, size_t, cholmod_common*); int cholmod_l_free_triplet(cholmod_triplet**, cholmod_common*);\n"
           "int cholmod_l_free_sparse(cholmod_sparse**, cholmod_common*); cholmod_sparse* cholmod_tril(int, cholmod_common*);\n"
           "cholmod_sparse* cholmod_l_ssmult(cholmod_sparse*, cholmod_sparse*, int, int, int, cholmod_common*); cholmod_sparse* cholmod_l_transpose(cholmod_sparse*, int, cholmod_common*);\n"
           "cholmod_sparse* cholmod_l_speye(size_t, size_t, int, cholmod_common*); cholmod_sparse* kronecker_product(cholmod_sparse*, cholmod_sparse*, cholmod_common*);\n")
    prog = G.Program.compile(pre + dd.text(None) + cp.text(None), vlib.workdir(), "c09")
    return prog, {f.name: E.param_names(f.header, f.name) for f in (dd, cp)}, [dd, cp]

def operator_case(args):
    k, p, n = args; t0 = time.time()
    tag = "order=%d penalty order=%d nknots=%d" % (k, p, n)
    try:
        prog, params = PROG
        nspl = n - k - 1
        names = ["x"] + ["t%d" % m for m in range(n)] + ["c%d" % i for i in range(nspl)]
        dom = G.FieldDom(names); xs = dom.symbol("x"); ts = [dom.symbol("t%d" % m) for m in range(n)]; cs = [dom.symbol("c%d" % i) for i in range(nspl)]
        tw = E.knot_witness(n, frozenset())
        it = G.Interp(prog, dom); it.prog_params = params
        ko = it.array("knots", [it.fsym("t%d" % m, tw[m]) for m in range(n)])
        rows = []
        for j in range(nspl - p):
            oo = it.array("out", [None] * (p + 1))
            it.call("divided_diffs", [k, p, j, G.Ptr(ko, 0), G.Ptr(oo, 0)])
            rows.append([c.sym for c in oo.cells])
        bad = []
        # every cell of the fully supported range
        for s in range(k, nspl):
            B = E.cox_de_boor(dom, ts, tw, s, xs, k)
            S = dom.K(0)
            for i in range(nspl): S = S + cs[i] * B[i]
            for _ in range(p): S = S.diff(xs)
            Bl = E.cox_de_boor(dom, ts, tw, s, xs, k - p)          # B_{i,k-p}, i = 0..n-(k-p)-2
            R = dom.K(0)
            for j in range(nspl - p):
                dj = dom.K(0)
                for m in range(p + 1): dj = dj + rows[j][m] * cs[j + m]
                R = R + dj * Bl[j + p]
            if S != R: bad.append("cell [t%d,t%d]" % (s, s + 1))
        return [(tag + " divided_diffs rows == coefficients of the p-th derivative (field identity on every fully supported cell)", not bad, ", ".join(bad), time.time() - t0)]
    except Exception as ex:
        return [(tag + " execution [%s]" % str(ex)[:80], False, "%s: %s" % (type(ex).__name__, ex), time.time() - t0)]

def triplet_case(args):
    k, p, nspl, mono = args; t0 = time.time()
    tag = "calc_penalty order=%d penalty order=%d nsplines=%d mono=%d" % (k, p, nspl, mono)
    try:
        prog, params = PROG
        import c14_exact
        dom = c14_exact.RatDom(); it = G.Interp(prog, dom); it.prog_params = params
        n = nspl + k + 1
        ko = it.array("knots", [G.FV(Fr(m * m + m, 2), Fr(m * m + m, 2)) for m in range(n)])
        trips = []; calls = []
        def h_alloc(it_, a):
            nrow, ncol, nzmax = a[0], a[1], a[2]
            o = it_.new_obj("trip", 1); o.cells[0] = dict(nrow=nrow, ncol=ncol, nzmax=nzmax, nnz=0, i=G.Ptr(it_.new_obj("ti", nzmax), 0), j=G.Ptr(it_.new_obj("tj", nzmax), 0), x=G.Ptr(it_.new_obj("tx", nzmax), 0))
            trips.append(o); return G.Ptr(o, 0)
        mk = lambda name: (lambda it_, a: (calls.append((name, a)), G.Ptr(it_.array(name, [len(calls)]), 0))[1])
        it.hooks.update(cholmod_l_allocate_triplet=h_alloc, cholmod_l_triplet_to_sparse=mk("to_sparse"), cholmod_l_free_triplet=lambda it_, a: 1, cholmod_l_free_sparse=lambda it_, a: 1,
                        cholmod_tril=mk("tril"), cholmod_l_ssmult=mk("ssmult"), cholmod_l_transpose=mk("transpose"), cholmod_l_speye=mk("speye"), kronecker_product=mk("kron"))
        # the hooks return pointers to 1-cell objects; calc_penalty writes tmp2->stype -> give them a dict cell
        def mk2(name):
            def h(it_, a):
                calls.append((name, a)); o = it_.new_obj(name, 1); o.cells[0] = {"id": len(calls)}; return G.Ptr(o, 0)
            return h
        for nm, hk in (("cholmod_l_triplet_to_sparse", "to_sparse"), ("cholmod_tril", "tril"), ("cholmod_l_ssmult", "ssmult"), ("cholmod_l_transpose", "transpose"), ("cholmod_l_speye", "speye"), ("kronecker_product", "kron")):
            it.hooks[nm] = mk2(hk)
        ns = it.array("nsplines", [nspl]); c = it.array("c", [0])
        it.call("calc_penalty", [G.Ptr(ns, 0), G.Ptr(ko, 0), 1, 0, k, p, mono, G.Ptr(c, 0)])
        bad = []
        t = trips[0].cells[0]
        if (t["nrow"], t["ncol"]) != (nspl - p, nspl): bad.append("finite-difference matrix is %dx%d, expected %dx%d" % (t["nrow"], t["ncol"], nspl - p, nspl))
        ent = [(t["i"].obj.cells[q], t["j"].obj.cells[q]) for q in range(t["nnz"])]
        want = [(r, r + m) for r in range(nspl - p) for m in range(p + 1)]
        if ent != want: bad.append("row r is not placed in columns r..r+p")
        names = [c_[0] for c_ in calls]
        ident = lambda p: p.obj.cells[0]["id"] if (p is not None and p.obj is not None and isinstance(p.obj.cells[0], dict)) else None
        rid = lambda k: k + 1                                    # id handed out by the k-th call
        final = rid(names.index("to_sparse"))
        if mono:
            if "tril" not in names or calls[names.index("tril")][1][0] != nspl: bad.append("monotonic dimension: T-spline matrix of size nsplines not requested")
            else:
                iss = names.index("ssmult"); a = calls[iss][1]
                if not (ident(a[0]) == final and ident(a[1]) == rid(names.index("tril"))): bad.append("monotonic dimension: penalty factor is not (finite differences) x (lower-triangular ones)")
                final = rid(iss)
        elif "tril" in names: bad.append("T-spline conversion applied to a non-monotonic dimension")
        # D'D must be formed from the FINAL difference matrix on both sides: transpose(X) * X
        if "transpose" not in names: bad.append("no transpose")
        else:
            it_ = names.index("transpose")
            if ident(calls[it_][1][0]) != final: bad.append("the transposed factor is not the (converted) difference matrix: the penalty is not X'X")
            prods = [k for k, nm in enumerate(names) if nm == "ssmult" and k > it_]
            if not prods or not (ident(calls[prods[0]][1][0]) == rid(it_) and ident(calls[prods[0]][1][1]) == final): bad.append("the penalty is not transpose(X) * X of the (converted) difference matrix")
        return [(tag + " triplet layout / T-spline conversion", not bad, "; ".join(bad), time.time() - t0)]
    except Exception as ex:
        return [(tag + " execution [%s]" % str(ex)[:80], False, "%s: %s" % (type(ex).__name__, ex), time.time() - t0)]

def design_case(args):
    """bsplinebasis (splineutil.c): entry (row, col) of the design matrix is B_{col,order}(x[row])"""
    k, n = args; t0 = time.time(); tag = "bsplinebasis order=%d nknots=%d" % (k, n)
    try:
        import c17, c14_exact as X14
        prog, params = DESIGN
        it = G.Interp(prog, X14.RatDom()); it.prog_params = params; c17.install(it)
        F = lambda q: G.FV(Fr(q), Fr(q))
        t = [Fr(0)]
        for m in range(1, n): t.append(t[-1] + Fr(1 + (m * m) % 3, 2))
        xs = [t[0] + (t[-1] - t[0]) * f for f in (Fr(1, 7), Fr(5, 9), Fr(2, 5), Fr(9, 10))] + [t[k + 1], t[1], t[n - 2]]     # interior points and abscissae exactly on knots
        captured = {}
        orig = it.hooks["cholmod_l_dense_to_sparse"]
        def cap(it_, a):
            d = a[0].obj.cells[0]; captured["m"] = (d["nrow"], d["ncol"], [c.num for c in d["x"].obj.cells]); return orig(it_, a)
        it.hooks["cholmod_l_dense_to_sparse"] = cap
        c = it.array("c", [None]); it.hooks["cholmod_l_start"](it, [G.Ptr(c, 0)])
        it.call("bsplinebasis", [G.Ptr(it.array("knots", [F(v) for v in t]), 0), n, G.Ptr(it.array("x", [F(v) for v in xs]), 0), len(xs), k, G.Ptr(c, 0)])
        nrow, ncol, x = captured["m"]; bad = []
        if (nrow, ncol) != (len(xs), n - k - 1): bad.append("design matrix is %dx%d, expected %dx%d" % (nrow, ncol, len(xs), n - k - 1))
        else:
            for r in range(nrow):
                for cc in range(ncol):
                    want = X14.bspl(t, cc, k, xs[r])
                    if x[cc * nrow + r] != want: bad.append("entry (%d,%d) at x=%s is %s, B_{%d,%d}(x) = %s" % (r, cc, xs[r], x[cc * nrow + r], cc, k, want))
        return [(tag + " design matrix == basis functions at the abscissae (incl. abscissae exactly on knots)", not bad, "; ".join(bad[:3]), time.time() - t0)]
    except Exception as ex:
        return [(tag + " execution [%s]" % str(ex)[:80], False, "%s: %s" % (type(ex).__name__, ex), time.time() - t0)]

def kronecker_job(thorough):
    """memory-safety contract of kronecker_product (splineutil.c), loops closed by invariants"""
    W = "__CPROVER_object_whole"; NZ = 16 if not thorough else 24
    kp = units.free_function("src/fitter/splineutil.c", "kronecker_product")
    pre = r'''
    #include <stddef.h>
    #include <stdlib.h>
    typedef struct cholmod_triplet_struct { size_t nrow, ncol, nzmax, nnz; void *i, *j, *x, *z; int stype, itype, xtype, dtype; } cholmod_triplet;
    typedef struct cholmod_sparse_struct { size_t nrow, ncol; int stype; } cholmod_sparse; typedef struct cholmod_common_struct { int status; } cholmod_common;
    #define CHOLMOD_REAL 1
    #define VP_NZ %d
    cholmod_sparse vp_result; size_t nondet_size(void); int nondet_int(void);
    static cholmod_triplet* vp_triplet(size_t nrow, size_t ncol, size_t nzmax, size_t nnz, int stype) {
    	cholmod_triplet* t = malloc(sizeof(cholmod_triplet)); __CPROVER_assume(t != NULL);
    	t->nrow = nrow; t->ncol = ncol; t->nzmax = nzmax; t->nnz = nnz; t->stype = stype;
    	t->i = malloc(nzmax*sizeof(long)); t->j = malloc(nzmax*sizeof(long)); t->x = malloc(nzmax*sizeof(double)); __CPROVER_assume(t->i && t->j && t->x); return t; }
    /* assumed contracts of cholmod: sparse_to_triplet yields nnz <= nzmax entries in arrays of nzmax elements; allocate_triplet yields arrays of nzmax elements */
    cholmod_triplet* cholmod_l_sparse_to_triplet(cholmod_sparse* A, cholmod_common* c) { size_t nz = nondet_size(); __CPROVER_assume(nz <= VP_NZ); size_t r = nondet_size(), cc = nondet_size(); __CPROVER_assume(r <= 64 && cc <= 64); return vp_triplet(r, cc, nz, nz, nondet_int()); }
    cholmod_triplet* cholmod_l_allocate_triplet(size_t nrow, size_t ncol, size_t nzmax, int stype, int xtype, cholmod_common* c) { return vp_triplet(nrow, ncol, nzmax, 0, stype); }
    cholmod_sparse* cholmod_l_triplet_to_sparse(cholmod_triplet* T, size_t nzmax, cholmod_common* c) { __CPROVER_assert(T->nnz <= T->nzmax, "triplet not over-filled"); return &vp_result; }
    int cholmod_l_free_triplet(cholmod_triplet** T, cholmod_common* c) { *T = NULL; return 1; }
    ''' % NZ
    ct = ("cholmod_sparse* kronecker_product(cholmod_sparse* a, cholmod_sparse* b, cholmod_common* c)\n"
          "__CPROVER_assigns()\n__CPROVER_ensures(__CPROVER_return_value != NULL)\n;\n")
    loops = [("for", "__CPROVER_assigns(i, j, %s(tf->x), %s(tf->i), %s(tf->j))\n__CPROVER_loop_invariant(i >= 0 && (size_t)i <= ta->nnz && ta->nnz <= VP_NZ && tb->nnz <= VP_NZ && tf->nzmax == ta->nnz*tb->nnz && ta->nzmax == ta->nnz && tb->nzmax == tb->nnz)\n__CPROVER_decreases(ta->nnz - (size_t)i)" % (W, W, W)),
             ("for", "__CPROVER_assigns(j, %s(tf->x), %s(tf->i), %s(tf->j))\n__CPROVER_loop_invariant(j >= 0 && (size_t)j <= tb->nnz && (size_t)i < ta->nnz && ta->nnz <= VP_NZ && tb->nnz <= VP_NZ && tf->nzmax == ta->nnz*tb->nnz)\n__CPROVER_decreases(tb->nnz - (size_t)j)" % (W, W, W))]
    tu = pre + ct + kp.text(loops) + "void h_kp(void){ cholmod_sparse a, b; cholmod_common c; kronecker_product(&a, &b, &c); __CPROVER_assert(0, \"canary: reachable after call\"); }\n"
    return kp, vlib.Job("C09-kronecker_product", tu, "h_kp", enforce="kronecker_product", expect_fail=[r"^h_kp\.assertion\.1$"], must_have=["loop_invariant_step", r"cholmod_l_triplet_to_sparse\.assertion"],
                        timeout=1500, split=8, cbmc_flags=["--no-malloc-may-fail"], backend="cbmc-sat-contracts",
                        note="every index i*nnz_b+j stays inside the nnz_a*nnz_b triplet; loops closed by invariants; nnz <= %d per factor; cholmod triplet primitives as nondeterministic stubs" % NZ)

def flatten_job(ND, R=64, RMAX=None, content=False):
    """contract of flatten_ndarray_to_sparse (glam.c): memory safety for every index array, no signed overflow in the flattened index, no division by zero, one triplet entry per row with the value copied; the division/remainder relation of the flattened index is decided by the exact execution (C09-glamfit-exact), not here (64-bit division circuits do not finish on any installed back end)"""
    W = "__CPROVER_object_whole"
    RMAX = RMAX or (1024 if ND <= 3 else 128)
    fl = units.free_function("src/fitter/glam.c", "flatten_ndarray_to_sparse")
    pre = r'''
#include <stddef.h>
#include <stdlib.h>
#include <assert.h>
struct ndsparse { size_t rows; size_t ndim; double* x; unsigned int** i; unsigned int* ranges; };
typedef struct cholmod_triplet_struct { size_t nrow, ncol, nzmax, nnz; void *i, *j, *x, *z; int stype, itype, xtype, dtype; } cholmod_triplet;
typedef struct cholmod_sparse_struct { size_t nrow, ncol; int stype; } cholmod_sparse; typedef struct cholmod_common_struct { int status; } cholmod_common;
#define CHOLMOD_REAL 1
#define VP_R %d
cholmod_sparse vp_result; cholmod_triplet vp_trip; size_t vp_g; /* ghost row index */
/* assumed contracts of cholmod: allocate_triplet yields arrays of nzmax elements; triplet_to_sparse needs nnz <= nzmax */
cholmod_triplet* cholmod_l_allocate_triplet(size_t nrow, size_t ncol, size_t nzmax, int stype, int xtype, cholmod_common* c) {
	vp_trip.nrow = nrow; vp_trip.ncol = ncol; vp_trip.nzmax = nzmax; vp_trip.nnz = 0;
	vp_trip.i = malloc(nzmax*sizeof(long)); vp_trip.j = malloc(nzmax*sizeof(long)); vp_trip.x = malloc(nzmax*sizeof(double)); __CPROVER_assume(vp_trip.i && vp_trip.j && vp_trip.x); __CPROVER_assert(nzmax <= VP_R, "triplet within the modelled size"); return &vp_trip; }
cholmod_sparse* cholmod_l_triplet_to_sparse(cholmod_triplet* T, size_t nzmax, cholmod_common* c) { __CPROVER_assert(T->nnz <= T->nzmax, "triplet not over-filled"); return &vp_result; }
int cholmod_l_free_triplet(cholmod_triplet** T, cholmod_common* c) { *T = NULL; return 1; }
''' % R
    req = ["__CPROVER_requires(__CPROVER_is_fresh(array, sizeof(*array)))", "__CPROVER_requires(array->ndim == %d && array->rows <= VP_R)" % ND,
           "__CPROVER_requires(__CPROVER_is_fresh(array->x, VP_R*sizeof(double)))", "__CPROVER_requires(__CPROVER_is_fresh(array->ranges, %d*sizeof(unsigned int)))" % ND,
           "__CPROVER_requires(__CPROVER_is_fresh(array->i, %d*sizeof(unsigned int*)))" % ND]
    req += ["__CPROVER_requires(__CPROVER_is_fresh(array->i[%d], VP_R*sizeof(unsigned int)))" % j for j in range(ND)]
    req += ["__CPROVER_requires(array->ranges[%d] <= %d)" % (j, RMAX) for j in range(ND)]
    req += ["__CPROVER_requires(ncol >= 1)"]
    B = RMAX ** (ND - 1)
    flat = " + ".join("(long)array->i[%d][vp_g]*%s" % (j, "*".join(["1L"] + ["(long)array->ranges[%d]" % m for m in range(j + 1, ND)])) for j in range(ND))
    rel = "(((long*)vp_trip.i)[vp_g] * (long)ncol + ((long*)vp_trip.j)[vp_g] == %s && ((long*)vp_trip.j)[vp_g] < (long)ncol && ((double*)vp_trip.x)[vp_g] == array->x[vp_g])" % flat if content else "(((unsigned long*)vp_trip.x)[vp_g] == ((unsigned long*)array->x)[vp_g])"
    if not content: flat = "0"
    modeq = "1" if not content else " && ".join("moduli[%d] == %s" % (k, "*".join(["1L"] + ["(long)array->ranges[%d]" % m for m in range(k + 1, ND)])) for k in range(ND))
    ct = "static cholmod_sparse* flatten_ndarray_to_sparse(struct ndsparse *array, size_t nrow, size_t ncol, cholmod_common* c)\n" + "\n".join(req) + "\n__CPROVER_assigns(%s(&vp_trip))\n__CPROVER_ensures(__CPROVER_return_value != NULL && vp_trip.nnz == array->rows && vp_trip.nrow == nrow && vp_trip.ncol == ncol)\n__CPROVER_ensures(vp_g < array->rows ==> %s)\n__CPROVER_ensures(__CPROVER_return_value == NULL)  /* canary */\n;\n" % (W, rel)
    modb = " && ".join("(i < %d ==> (moduli[%d] >= 0 && moduli[%d] <= %d))" % (k, k, k, RMAX ** (ND - 1 - k)) for k in range(ND - 1)) or "1"
    allb = " && ".join("(moduli[%d] >= 0 && moduli[%d] <= %d)" % (k, k, RMAX ** (ND - 1 - k)) for k in range(ND))
    partial = "1" if not content else " && ".join("(j == %d ==> k == %s)" % (n, " + ".join(["0L"] + ["(long)array->i[%d][i]*moduli[%d]" % (m, m) for m in range(n)])) for n in range(ND + 1))
    loops = [("for", "__CPROVER_assigns(i, %s(moduli))\n__CPROVER_loop_invariant(i >= -1 && i <= %d && moduli[%d] == 1 && %s)\n__CPROVER_decreases(i + 1)" % (W, ND - 2, ND - 1, modb)),
             ("for", "__CPROVER_assigns(i, j, k, %s(vp_trip.i), %s(vp_trip.j), %s(vp_trip.x))\n__CPROVER_loop_invariant(i >= 0 && (size_t)i <= array->rows && array->rows <= VP_R && array->ndim == %d && trip == &vp_trip && ncol >= 1 && %s && %s && (vp_g < (size_t)i ==> %s))\n__CPROVER_decreases(array->rows - (size_t)i)" % (W, W, W, ND, allb, modeq, rel)),
             ("for", "__CPROVER_assigns(j, k)\n__CPROVER_loop_invariant(j >= 0 && j <= %d && k >= 0 && k <= j * 4294967296L * %d && (size_t)i < array->rows && %s && %s && %s)\n__CPROVER_decreases(%d - j)" % (ND, B, allb, modeq, partial, ND))]
    tu = pre + ct + fl.text(loops) + "void h_fl(void){ struct ndsparse* a; size_t nr, nc; cholmod_common c; flatten_ndarray_to_sparse(a, nr, nc, &c); }\n"
    return fl, vlib.Job("C09-flatten_ndarray_to_sparse-ndim%d" % ND, tu, "h_fl", enforce="flatten_ndarray_to_sparse", expect_fail=[r"flatten_ndarray_to_sparse\.postcondition\.3$"],
                        must_have=["loop_invariant_step", r"cholmod_l_triplet_to_sparse\.assertion"], timeout=900, split=8, cbmc_flags=["--no-malloc-may-fail"], backend="cbmc-sat-contracts",
                        note="memory safety, no signed overflow, no division by zero (ncol >= 1) for every index array; rows <= %d symbolic, ranges <= %d, ndim = %d; loops closed by invariants" % (R, RMAX, ND))

DESIGN = None
def main():
    global PROG, DESIGN
    thorough = vlib.TIER == "thorough"
    rep = vlib.Report("C09")
    prog, params, fns = build(); PROG = (prog, params)
    for f in fns: rep.functions.append(f.info())
    cs = [units.free_function("src/fitter/splineutil.c", nme) for nme in ("bspline", "bsplinebasis")]
    dprog = G.Program.compile(units.GRIDEVAL_PRELUDE + "".join(c.text(None) for c in cs), vlib.workdir(), "c09_design")
    DESIGN = (dprog, {f.name: E.param_names(f.header, f.name) for f in cs})
    for f in cs: rep.functions.append(f.info())
    # order 4 with symbolic knots does not finish (multivariate gcds in the fraction field run for more than an hour): the
    # thorough tier adds longer knot vectors for orders 0..3 instead
    KMAX = 3
    t1 = [(k, p, 2 * k + 4) for k in range(0, KMAX + 1) for p in range(0, k + 1)]
    if thorough: t1 += [(k, p, 2 * k + 6) for k in range(0, KMAX + 1) for p in range(0, k + 1)]
    t2 = [(k, p, nspl, mono) for (k, p, nspl) in ((2, 2, 6), (3, 1, 7), (1, 0, 4), (2, 1, 5)) for mono in (0, 1)]
    t0 = time.time()
    with mp.Pool(min(vlib.NCORES, 16)) as pool:
        r1 = pool.map(operator_case, t1, chunksize=1); ta = time.time() - t0; tb0 = time.time()
        r2 = pool.map(triplet_case, t2, chunksize=1); tb = time.time() - tb0; tc0 = time.time()
        r3 = pool.map(design_case, [(k, 2 * k + 4) for k in range(0, KMAX + 1)], chunksize=1); tc = time.time() - tc0
    for name, results, backend, wall in (("C09-penalty-operator", r1, "E3-field (fraction-field identity over the GOTO program)", ta), ("C09-penalty-layout", r2, "E3 exact execution of the GOTO program, cholmod hooked", tb),
                                         ("C09-design-matrix", r3, "E3-rational (exact execution of bsplinebasis/bspline from the GOTO program, independent Cox-de Boor oracle)", tc)):
        flat = [o for r in results for o in r]
        rep.add_group(backend, len(flat), sum(1 for o in flat if o[1]), wall, bounded="orders 0..%d, penalty orders 0..order, knots symbolic" % KMAX, name=name)
        for o in flat:
            if not o[1]: rep.add_violation(name, o[0].replace(" ", "_")[:160], o[0] + ": " + o[2], trace=o[2])
        rep.samples += [o[0] for o in flat[:2]]
    # the per-dimension penalty terms fit() requests (order, penalty order, smoothing, monotonic flag): valid cases of the C13 harness
    kpf, kpj = kronecker_job(thorough)
    fjs = [flatten_job(nd, R=128 if thorough else 64) for nd in (1, 2, 3, 4)]
    vlib.run_jobs([kpj] + [j for _, j in fjs], min(vlib.NCORES, 5)); rep.add_jobs([kpj] + [j for _, j in fjs]); rep.functions.append(kpf.info()); rep.functions.append(fjs[0][0].info())
    import c13_fit, penalty_matrix
    c13_fit.add(rep, thorough, only_valid=True, name="C09-fit-penalty-terms")
    penalty_matrix.add(rep, thorough, monotonic=False, name="C09-penalty-matrix")
    import glam_exact
    glam_exact.add(rep, thorough, monotonic=False, name="C09-glamfit-exact")
    rep.assume("PARTIAL: decided up to cholmod's factorisation / triangular solves (assumed exact) and rounding; cholesky_solve's own code IS executed on the system of every fit (G5, extracted with C11's machinery). The WHOLE glamfit_complex is executed exactly (C09-glamfit-exact): the system it hands to cholesky_solve is the weighted normal matrix plus the penalty and the weighted moment vector, and what it writes out is the solver's result - so with a solver that solves its system the output is the exact minimiser (checked explicitly, G4). NOT decided: that cholesky_solve / SuiteSparse solve the system to single-precision accuracy, and floating-point rounding anywhere",
               "decided as well: the ASSEMBLED penalty matrix (add_penalty_term over all dimensions, Kronecker extension included) equals sum_i lambda_i (I x D_i'D_i x I) exactly, D_i the textbook p_i-th derivative-coefficient operator: the quadratic form is the penalty the property names",
               "also decided: the design matrix bsplinebasis builds is the matrix of basis-function values at the abscissae (exact, incl. abscissae on knots), and fit() requests one penalty term per dimension with that dimension's order, penalty order and smoothing (executed from the extracted fit(), C fitter hooked)",
               "decided: the rows divided_diffs produces are exactly the map from B-spline coefficients to the coefficients of the penaltyOrder-th derivative (so the penalty is the sum of squares the property names), and calc_penalty lays them out as an (nsplines-p) x nsplines band matrix (with the T-spline conversion exactly in the monotonic dimension)",
               "machine arithmetic treated as mathematical; knots strictly increasing symbols")
    rep.trust("tools/gotoexec.py", "sympy.polys.fields", "goto-cc front end")
    rep.finish(None)

if __name__ == "__main__":
    main()
