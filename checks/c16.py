#!/usr/bin/env python3
"""C16 (in-memory half): the auxiliary key store behaves as an insertion-ordered string map.
get_aux_value, remove_key, write_key (aux.h, extracted: R7, R15-R18, R22-R24) and reservedFitsKeyword (fitsio.cpp) are
executed from CBMC's GOTO program over operation histories; after every operation the whole store (order, keys, values)
is compared with an ordered-map model, rejected operations must leave it untouched, and the allocator discipline
(every block released exactly once with its size, nothing unreachable left) is checked by the interpreter.
NOT covered: typed reads through iostreams, and survival of entries through a FITS round trip (cfitsio)."""
import sys, os, time, itertools, random, multiprocessing as mp
sys.path.insert(0, os.path.dirname(os.path.dirname(os.path.abspath(__file__))))
from tools import vlib, units, gotoexec as G, e3lib as E
import c14_exact as X14
PROG = None

def cstr(it, s): return G.Ptr(it.array("str", [ord(c) for c in s] + [0]), 0)
def rd(p):
    out = []; k = p.off
    while True:
        if k >= len(p.obj.cells): raise G.MemError("unterminated string")
        c = p.obj.cells[k]
        if c is None: raise G.ExecError("string with uninitialised byte")
        if c == 0: return "".join(out)
        out.append(chr(c)); k += 1

def install(it, log):
    X14.install_storage_hooks(it, log)
    news = []
    orig_new = it.hooks["vp_new"]
    def h_new(it_, a):
        p = orig_new(it_, a); news.append(p.obj); return p
    def h_delete(it_, a):
        p = a[0]
        if p.obj is None: return None
        if not p.obj.live or p.off != 0: raise G.MemError("delete[] of a freed pointer / not the start of an array")
        p.obj.live = False
    it.hooks["vp_new"] = h_new; it.hooks["vp_delete"] = h_delete; it._news = news
    def h_swap(it_, a):
        x = a[0].obj.cells[a[0].off]; a[0].obj.cells[a[0].off] = a[1].obj.cells[a[1].off]; a[1].obj.cells[a[1].off] = x
    it.hooks["vp_swap"] = h_swap
    it.hooks["vp_count_char"] = lambda it_, a: sum(1 for k in range(a[0].off, a[1].off) if a[0].obj.cells[k] == a[2])
    def chars(p, n=None):
        out = []; k = p.off
        while n is None or len(out) < n:
            if not p.obj.live: raise G.MemError("read of a freed string")
            if k >= len(p.obj.cells): raise G.MemError("string read past its storage")
            c = p.obj.cells[k]
            if c is None: raise G.ExecError("uninitialised byte in a string")
            out.append(c); k += 1
            if c == 0: break
        return out
    def cmp(a, b):
        for x, y in zip(a, b):
            if x != y: return -1 if x < y else 1
            if x == 0: return 0
        return 0
    it.hooks.update(strlen=lambda it_, a: len(chars(a[0])) - 1, strcmp=lambda it_, a: cmp(chars(a[0]), chars(a[1])),
                    strncmp=lambda it_, a: cmp(chars(a[0], a[2]) + [0], chars(a[1], a[2]) + [0]) if a[2] else 0,
                    vp_isupper=lambda it_, a: int(65 <= a[0] <= 90), vp_isdigit=lambda it_, a: int(48 <= a[0] <= 57), vp_islower=lambda it_, a: int(97 <= a[0] <= 122))

RESERVED = ("BITPIX", "SIMPLE", "TYPE", "ORDER", "NAXIS", "PERIOD", "EXTEND", "COMMENT")
def expected_write(key, value):
    """'accept' / 'reject' / None (either is allowed: the property does not say) - written from the property statement"""
    if any(key.startswith(r) for r in RESERVED): return "reject"
    if len(key) <= 8:
        if any(not (c.isupper() or c.isdigit() or c in "-_") for c in key): return "reject"       # malformed standard keyword
        if any(c in "-_" for c in key): return None
        # fixed-format string card: "KEYWORD = '" occupies columns 1-11, the closing quote must be at or before column 80;
        # a quote inside the value is written as two quotes and takes two columns
        return "reject" if len(value) + value.count("'") > 68 else "accept"
    if any(c == "=" or c.islower() for c in key): return "reject"                                  # malformed HIERARCH keyword
    # HIERARCH card as cfitsio lays it out: "HIERARCH " + key + "= '" + value + "'" must fit the 80 columns (continued strings are not used)
    room = 80 - (9 + len(key) + 3 + 1)
    eff = len(value) + value.count("'")
    if eff <= room: return "accept"
    # cfitsio squeezes "KEY = 'v'" to "KEY='v'" when the card would not fit otherwise: one or two more columns may or may not be
    # usable - not judged here; whether such a value survives is decided by the serialisation obligations
    # cfitsio squeezes "KEY = 'v'" to "KEY= 'v'" only (that step is in `room`); anything longer is truncated at column 80 by the installed library
    return "reject"

def run_history(hist):
    t0 = time.time(); tag = "history " + " ; ".join("%s(%s)" % (o[0], ",".join(repr(x)[:14] for x in o[1:])) for o in hist)
    try:
        prog, params = PROG
        it = G.Interp(prog, X14.RatDom()); it.prog_params = params; log = []; install(it, log)
        it.set_global("naux", 0); it.set_global("vp_thrown", 0)
        a0 = it.new_obj("aux0", 0); log.append(("allocate", a0, 0)); it.set_global("aux", G.Ptr(a0, 0))
        model = []; bad = []
        def state():
            n = it.globals["naux"].cells[0]; ap = it.globals["aux"].cells[0]; out = []
            for i in range(n):
                e = ap.obj.cells[ap.off + i]
                out.append([rd(e.obj.cells[e.off]), rd(e.obj.cells[e.off + 1])])
            return out
        for step, op in enumerate(hist):
            it.globals["vp_thrown"].cells[0] = 0
            if op[0] == "write":
                key, val = op[1], op[2]; exp = expected_write(key, val)
                it.call("write_key", [cstr(it, key), cstr(it, val), len(val)])
                thrown = it.globals["vp_thrown"].cells[0]
                if exp == "reject" and not thrown: bad.append("step %d: write(%r) of a reserved/malformed key or over-long value was accepted" % (step, key))
                if exp == "accept" and thrown: bad.append("step %d: write(%r,%r) rejected" % (step, key, val[:10]))
                if not thrown:
                    hit = [e for e in model if e[0] == key]
                    if hit: hit[0][1] = val
                    else: model.append([key, val])
            elif op[0] == "remove":
                r = it.call("remove_key", [cstr(it, op[1])]); had = any(e[0] == op[1] for e in model)
                if bool(r) != had: bad.append("step %d: remove(%r) returned %s" % (step, op[1], r))
                model[:] = [e for e in model if e[0] != op[1]]
            elif op[0] == "get":
                r = it.call("get_aux_value", [cstr(it, op[1])]); want = next((e[1] for e in model if e[0] == op[1]), None)
                got = None if (r.obj is None) else rd(r)
                if got != want: bad.append("step %d: lookup(%r) gives %r, expected %r" % (step, op[1], got, want))
            st = state()
            if st != model: bad.append("step %d (%s): store is %s, ordered-map model %s" % (step, op[0], st, model)); break
        # allocator discipline: live allocator blocks == aux array + per entry (pair, key, value)
        ap = it.globals["aux"].cells[0]; reach = {id(ap.obj)}
        for i in range(it.globals["naux"].cells[0]):
            e = ap.obj.cells[ap.off + i]; reach.add(id(e.obj)); reach.add(id(e.obj.cells[0].obj)); reach.add(id(e.obj.cells[1].obj))
        live = [o for (k, o, n) in log if k == "allocate" and o.live]
        if any(id(o) not in reach for o in live): bad.append("%d allocator blocks are live but unreachable from the store (leak)" % len([o for o in live if id(o) not in reach]))
        if len(set(id(o) for o in live)) != len(reach): bad.append("store references a released block")
        if any(o.live for o in it._news): bad.append("%d scratch new[] arrays were never deleted" % len([o for o in it._news if o.live]))
        return [(tag, not bad, "; ".join(bad[:3])[:500], time.time() - t0)]
    except Exception as ex:
        return [(tag + " execution [%s]" % str(ex)[:80], False, "%s: %s" % (type(ex).__name__, ex), time.time() - t0)]

LONG = "LONGER KEY NAME"
OPS = [("write", "A", "1"), ("write", "A", "two"), ("write", "B2", ""), ("write", LONG, "3.5e7"), ("write", "ORDER3", "x"), ("write", "lower", "x"), ("write", "A.B", "x"),
       ("write", LONG.lower(), "x"), ("write", "LONGER Key NAME", "x"), ("write", "SHORT lc", "y"), ("write", "KEY=LONGISH", "x"), ("write", "PERIOD0", "1"), ("write", "Ab", "x"), ("write", "ORDERSTATISTIC", "1"), ("write", "COMMENTARY", "c"), ("write", "AB", "ab"), ("write", "A", "1"), ("write", "B2", "q"), ("write", "A", "v" * 75), ("write", LONG, "w" * 70), ("write", "A", "e" * 68), ("write", "A", "f" * 69), ("write", LONG, "g" * (67 - len(LONG))), ("write", LONG, "h" * (68 - len(LONG))), ("write", "Z9", "it's 'quoted'"), ("write", "EIGHTCHR", "x" * 64), ("write", "AB.CDEFG", "x"), ("write", "NINECHARS", "x"), ("write", "Q68", "q" * 60 + "'" + "r" * 7), ("write", "Q67", "q" * 60 + "'" + "r" * 6), ("write", LONG, "h" * (66 - len(LONG)) + "'"), ("write", LONG, "h" * (65 - len(LONG)) + "'"),
       ("remove", "A"), ("remove", "B2"), ("remove", "NOPE"), ("remove", LONG), ("get", "A"), ("get", "B2"), ("get", "NOPE"), ("get", LONG)]

def run_roundtrip(hist):
    """the same history on a populated table of the unified unit (tools/tableprog.py), then write_fits, read_fits into a second
    object: the key store must come back in order with the same values (trailing blanks may be gained)"""
    import c20
    from tools import tableprog as T
    t0 = time.time(); tag = "round trip after " + " ; ".join("%s(%s)" % (o[0], ",".join(repr(x)[:14] for x in o[1:])) for o in hist)
    try:
        prog, params, consts = TPROG; disk = c20.make_disk()
        it, al = T.new_object(prog, params, consts, disk, X14.RatDom()); it2, al2 = T.new_object(prog, params, consts, disk, X14.RatDom())
        it.call("read_fits", [cstr(it, "A")])
        if it.globals["vp_thrown"].cells[0]: return [(tag, False, "the base table could not be read", time.time() - t0)]
        for op in hist:
            it.globals["vp_thrown"].cells[0] = 0
            if op[0] == "write": it.call("write_key", [cstr(it, op[1]), cstr(it, op[2]), len(op[2])])
            elif op[0] == "remove": it.call("remove_key", [cstr(it, op[1])])
        it.globals["vp_thrown"].cells[0] = 0
        st = c20.state(it, al)
        if st[0] != "table": return [(tag, False, "object invalid after the history: %s" % (st[1],), time.time() - t0)]
        it.call("write_fits", [cstr(it, "out")])
        if it.globals["vp_thrown"].cells[0]: return [(tag, False, "write_fits failed on a table whose keys were all accepted by write_key", time.time() - t0)]
        it2.call("read_fits", [cstr(it2, "out")])
        if it2.globals["vp_thrown"].cells[0]: return [(tag, False, "the written file is rejected by the reader", time.time() - t0)]
        st2 = c20.state(it2, al2); bad = []
        if st2[0] != "table": bad.append("re-read object invalid")
        else:
            a, b = st[1]["aux"], st2[1]["aux"]
            if [k for k, v in a] != [k for k, v in b]: bad.append("keys %s, written %s" % ([k for k, v in b][:6], [k for k, v in a][:6]))
            else:
                for (k, v), (k2, v2) in zip(a, b):
                    if not (v2.startswith(v) and v2[len(v):].strip(" ") == ""): bad.append("value of %r reads back as %r, stored %r" % (k, v2, v)); break
        return [(tag, not bad, "; ".join(bad)[:500], time.time() - t0)]
    except Exception as ex:
        return [(tag + " execution [%s]" % str(ex)[:80], False, "%s: %s" % (type(ex).__name__, ex), time.time() - t0)]

def reserved_job():
    """E1: functional contract of reservedFitsKeyword (fitsio.cpp, namespace stripped only) for EVERY string: true exactly for
    the keys that start with one of the eight reserved prefixes.  strncmp is CBMC's library model; its loops are bounded by the
    constant length arguments (unwinding 8 with unwinding assertions: complete)."""
    rk = units.free_function("src/core/fitsio.cpp", "reservedFitsKeyword")
    def starts(p): return "(" + " && ".join("key[%d] == '%s'" % (i, ch) for i, ch in enumerate(p)) + ")"
    spec = " || ".join(starts(p) for p in RESERVED)
    ct = ("#include <string.h>\n#include <stdbool.h>\n"
          "bool reservedFitsKeyword(const char* key)\n"
          "__CPROVER_requires(__CPROVER_is_fresh(key, 16))\n"
          "__CPROVER_requires(key[15] == 0)\n"
          "__CPROVER_assigns()\n"
          "__CPROVER_ensures(__CPROVER_return_value == (%s))\n"
          "__CPROVER_ensures(__CPROVER_return_value == false)   /* canary: must fail */\n;\n" % spec)
    tu = ct + rk.text(None) + "void h_rk(void){ const char* k; reservedFitsKeyword(k); }\n"
    return rk, vlib.Job("C16-reservedFitsKeyword", tu, "h_rk", enforce="reservedFitsKeyword", loop_contracts=False, cbmc_flags=["--unwind", "9"], expect_fail=[r"reservedFitsKeyword\.postcondition\.2$"],
                        must_have=[r"reservedFitsKeyword\.postcondition\.1"], timeout=600, backend="cbmc-sat-contracts",
                        note="every NUL-terminated key in a 16-byte object (the prefixes are at most 7 characters long: longer keys behave as their first 15 characters); strncmp = CBMC's model, loops bounded by its constant length argument")

TPROG = None
def api_instantiates():
    """the functions whose extracted text is executed must be the code a C++ user gets: instantiate each of them natively"""
    src = os.path.join(vlib.workdir(), "c16_api.cpp")
    with open(src, "w") as f:
        f.write('#include <photospline/splinetable.h>\n#include <string>\nint main(){ photospline::splinetable<> t; t.write_key("A", 1); t.write_key("B", std::string("s")); t.write_key("C", 2.5);\n'
                ' const char* v = t.get_aux_value("A"); int i = 0; std::string s; bool ok = v && t.read_key("A", i) && t.read_key("B", s) && i == 1 && s == "s";\n'
                ' ok = ok && t.remove_key("A") && !t.get_aux_value("A") && t.get_aux_value("B") && !t.remove_key("A"); return ok ? 0 : 1; }\n')
    exe = os.path.join(vlib.workdir(), "c16_api")
    rc, out, w = vlib.sh("g++ -std=c++11 -g -fsanitize=address,undefined -I%s/include %s %s/src/core/*.cpp -lcfitsio -o %s" % (vlib.REPO, src, vlib.REPO, exe), timeout=600)
    if rc != 0: return False, "does not compile: " + " | ".join(l for l in out.splitlines() if "error" in l)[:400], out
    rc, out, w = vlib.sh(exe, timeout=60)
    return rc == 0, "" if rc == 0 else "native smoke run failed (exit %d): %s" % (rc, out[:300]), out

def main():
    global PROG
    thorough = vlib.TIER == "thorough"
    rep = vlib.Report("C16", level="exploration")
    fs = units.aux_functions()
    prog = G.Program.compile(units.AUX_PRELUDE + "".join(f.text(None) for f in fs), vlib.workdir(), "aux")
    PROG = (prog, {f.name: E.param_names(f.header, f.name) for f in fs})
    for f in fs: rep.functions.append(f.info())
    hists = [tuple(h) for L in (1, 2) for h in itertools.product(OPS, repeat=L)]
    core = [OPS[0], OPS[1], OPS[2], OPS[3], OPS[4]] + [o for o in OPS if o in (("remove", "A"), ("remove", "B2"), ("get", "A"))]
    hists += [tuple(h) for h in itertools.product(core, repeat=3)]
    if thorough: hists += [tuple(h) for h in itertools.product(core, repeat=4)]
    rnd = random.Random(vlib.SEED)
    for _ in range(300 if not thorough else 3000): hists.append(tuple(rnd.choice(OPS) for _ in range(rnd.randint(5, 40 if thorough else 16))))
    t0 = time.time()
    with mp.Pool(min(vlib.NCORES, 16)) as pool:
        res = pool.map(run_history, hists, chunksize=16)
    flat = [o for r in res for o in r]
    rep.add_group("E3 exact execution of the GOTO program of the extracted key-store functions over operation histories (BOUNDED)", len(flat), sum(1 for o in flat if o[1]), time.time() - t0,
                  bounded="all histories of length <= 2 over %d operations, all of length 3%s over 8 core operations, %d random histories of length 5..%d (seed %d)" % (len(OPS), "/4" if thorough else "", 3000 if thorough else 300, 40 if thorough else 16, vlib.SEED), name="C16-histories")
    for o in flat:
        if not o[1]: rep.add_violation("C16-histories", o[0].replace(" ", "_")[:150], o[0][:300] + ": " + o[2], trace=o[2])
    rep.samples += [o[0][:200] for o in flat[5:8]]
    # serialisation half: what write_key accepted survives write_fits / read_fits
    global TPROG
    from tools import tableprog as T
    tp, tparams, tfns = T.build(vlib.workdir()); TPROG = (tp, tparams, units.cfitsio_constants())
    for n in ("write_fits", "write_fits_core", "read_fits", "read_fits_core_body"):
        if n in tfns: rep.functions.append(tfns[n].info())
    rhists = [h for h in hists if len(h) <= 2 and any(o[0] == "write" for o in h)] + [h for h in hists if len(h) > 3][: (1500 if thorough else 250)]
    t2 = time.time()
    with mp.Pool(min(vlib.NCORES, 16)) as pool: rres = pool.map(run_roundtrip, rhists, chunksize=8)
    rflat = [o for r in rres for o in r]
    rep.add_group("E3 execution of the same histories on a populated table followed by write_fits / read_fits through the cfitsio model (BOUNDED)", len(rflat), sum(1 for o in rflat if o[1]), time.time() - t2,
                  bounded="%d histories (every history of length <= 2 with a write, %d of the random ones)" % (len(rhists), 1500 if thorough else 250), name="C16-serialisation")
    rviol = [(h, o) for h, r in zip(rhists, rres) for o in r if not o[1]]
    if rviol:
        import c20, shlex
        exe, ddir = c20.build_native()
        for n_, (h, o) in enumerate(rviol):
            rp = None
            if exe and n_ < 25:
                toks = ["0:read:A"] + ["0:%s:%s" % ("key" if op[0] == "write" else "rmkey", ":".join(op[1:])) for op in h if op[0] in ("write", "remove") and ":" not in "".join(op[1:])] + ["0:write:c16out", "1:read:c16out", "1:cmpkeys:0"]
                rc, out, w = vlib.sh("ASAN_OPTIONS=detect_leaks=0 timeout -s KILL 120 %s %s %s 2>&1 | tail -30; exit ${PIPESTATUS[0]}" % (exe, ddir, " ".join(shlex.quote(t) for t in toks)), timeout=200)
                rp = dict(replayed=(rc == 1 and "key stores differ" in out), input="replay_history <model disk> " + " ".join(toks)[:1500], observed=("exit %d\n" % rc) + out[-2500:], command="tools/replay/replay_history.cpp (real library + installed cfitsio: write_key / write_fits / read_fits, key stores compared)")
            rep.add_violation("C16-serialisation", o[0].replace(" ", "_")[:150], o[0][:300] + ": " + o[2], trace=o[2], replay=rp)
    rkf, rkj = reserved_job(); vlib.run_jobs([rkj], 1); rep.add_jobs([rkj]); rep.functions.append(rkf.info())
    t1 = time.time(); ok, det, out = api_instantiates()
    rep.add_group("native C++ instantiation of the functions under contract (g++, ASan/UBSan smoke run)", 1, 1 if ok else 0, time.time() - t1, bounded="one program using write_key<int/double/string>, get_aux_value, read_key<int/string>, remove_key", name="C16-api-instantiates")
    if not ok: rep.add_violation("C16-api-instantiates", "write_key/get_aux_value/read_key/remove_key_instantiate_and_run", "the key-store API does not instantiate / run natively: " + det, trace=out[-3000:], replay=dict(replayed=True, input="c16_api.cpp (generated)", observed=out[-2500:]))
    rep.extra["evaluations"] = len(hists); rep.extra["distinct_nontrivial"] = len(set(h for h in hists if len(h) >= 2))
    rep.extra["rule"] = "one evaluation = one operation history executed from the extracted code and compared step by step with an ordered-map model; non-trivial = at least two operations; histories are distinct tuples"
    rep.assume("typed reads (read_key<T> through std::istringstream) are NOT covered; survival through a FITS round trip is checked against the cfitsio model (assumed contract, held to the installed cfitsio byte for byte by C06's conformance obligations)",
               "BOUNDED: enumerated / random operation histories over a small key and value alphabet (standard keys, HIERARCH key, reserved prefix, lower-case and punctuated keys, empty / quoted / over-long values)",
               "the text of the value (operator<< of the value type) is a parameter (R23); allocation failure is not injected by this check (R22: catch(...) handlers with clean-up code dropped; R22e keeps the try block of write_key's update path, exercised with injected failures by C20); libc/ctype/std::copy semantics supplied by the interpreter",
               "acceptance oracle written from the property statement: reserved prefixes, lower-case/punctuated standard keys, '='/lower-case in long keys and clearly over-long values must be rejected; plain short keys with short values must be accepted; borderline lengths and '-'/'_' in standard keys are not judged",
               "the extraction to C does not type-check as C++: a separate native obligation instantiates every function under contract with g++ (this is how the uncompilable remove_key of the pinned tree shows up)")
    rep.trust("tools/gotoexec.py", "goto-cc front end", "tools/extract.py rules")
    rep.finish(None)

if __name__ == "__main__":
    main()
