"""C13, C++ half: the WHOLE splinetable::fit (fit.h) extracted mechanically (tools/units.py fit_function, rules R7,
R14-R19) and executed from CBMC's GOTO program with the C fitter entry points hooked.  For a valid problem and for
every single-fault variant of its arguments: either fit() runs inside its objects, hands the C fitter arguments that
satisfy the fitter's preconditions and leaves a well-formed table, or it throws and leaves the table untouched."""
import sys, os, time, copy, itertools
from fractions import Fraction as Fr
from tools import vlib, units, gotoexec as G, e3lib as E, tableprog as T
import c14_exact as X14

PROG = None
def build():
    # fit() calls release() and (through its scope guard) relies on it when it fails: the unified unit that also holds the
    # extracted release() is used (tools/tableprog.py)
    prog, params, fns = T.build(vlib.workdir())
    return prog, params, fns["fit"]

def base_problem(nd):
    orders = [2, 1][:nd]; nks = [7, 5][:nd]
    knots = [[Fr(m) + Fr(d, 4) for m in range(nks[d])] for d in range(nd)]
    clen = [4, 3][:nd]
    coords = [[Fr(1) + Fr(m, 2) for m in range(clen[d])] for d in range(nd)]
    rows = 5
    idx = [[(r * (d + 1)) % clen[d] for r in range(rows)] for d in range(nd)]
    return dict(nd=nd, orders=orders, knots=knots, coords=coords, ranges=list(clen), idx=idx, rows=rows, weights=[Fr(1)] * rows,
                smoothing=[Fr(1, 10)], penalty=[2] if nd == 1 else [2, 1], monodim=None,
                sizes={})   # explicit size overrides (what the caller *claims*), default = true lengths

def variants(nd):
    """(label, problem, must_throw)"""
    out = []
    b = base_problem(nd); out.append(("valid problem", b, False))
    v = copy.deepcopy(b); v["monodim"] = nd - 1; out.append(("valid, monotonic in the last dimension", v, False))
    v = copy.deepcopy(b); v["penalty"] = [o + 1 for o in b["orders"]][:len(b["penalty"])]; out.append(("valid, penalty order above the spline order", v, False))
    v = copy.deepcopy(b); v["smoothing"] = [Fr(1, 10)] * nd; v["penalty"] = [2] * 1; out.append(("valid, per-dimension smoothing, single penalty order", v, False))
    def mut(label, f, must=True):
        v = copy.deepcopy(b); f(v); out.append((label, v, must))
    mut("one weight too few", lambda v: v["weights"].pop())
    mut("one weight too many", lambda v: v["weights"].append(Fr(1)))
    mut("one coordinate vector too many", lambda v: v["coords"].append([Fr(0), Fr(1)]))
    mut("one coordinate vector missing", lambda v: v["coords"].pop())
    mut("one spline order too many", lambda v: v["orders_arg"].append(1) if "orders_arg" in v else v.update(orders_arg=v["orders"] + [1]))
    mut("one spline order missing", lambda v: v.update(orders_arg=v["orders"][:-1]))
    mut("one knot vector too many", lambda v: v.update(knots_arg=v["knots"] + [[Fr(0), Fr(1), Fr(2), Fr(3)]]))
    mut("one knot vector missing", lambda v: v.update(knots_arg=v["knots"][:-1]))
    mut("no smoothing entry", lambda v: v.update(smoothing=[]))
    mut("smoothing entries neither 1 nor ndim", lambda v: v.update(smoothing=[Fr(1, 10)] * (nd + 1)))
    mut("no penalty order", lambda v: v.update(penalty=[]))
    mut("penalty orders neither 1 nor ndim", lambda v: v.update(penalty=[2] * (nd + 1)))
    mut("data index equal to its declared range", lambda v: v["idx"][nd - 1].__setitem__(2, v["ranges"][nd - 1]))
    mut("declared range beyond the length of the coordinate vector", lambda v: (v["ranges"].__setitem__(0, v["ranges"][0] + 2), v["idx"][0].__setitem__(1, v["ranges"][0] - 1)))
    mut("declared range beyond the length of the coordinate vector, every index used is small", lambda v: v["ranges"].__setitem__(0, v["ranges"][0] + 2))
    mut("unsorted knots", lambda v: v["knots"][0].__setitem__(3, v["knots"][0][1]))
    mut("too few knots for the order (nknots == 2*order+1)", lambda v: v["knots"].__setitem__(0, v["knots"][0][:2 * v["orders"][0] + 1]))
    mut("too few knots for the order (nknots == order+1)", lambda v: v["knots"].__setitem__(0, v["knots"][0][:v["orders"][0] + 1]))
    mut("monotonic dimension == ndim", lambda v: v.update(monodim=nd))
    mut("monotonic dimension far out of range", lambda v: v.update(monodim=7))
    return out

def fit_call(it, pb):
    F = lambda q: G.FV(Fr(q), Fr(q))
    orders_arg = pb.get("orders_arg", pb["orders"]); knots_arg = pb.get("knots_arg", pb["knots"]); ndd = pb["nd"]
    data_i = it.array("data_i", [G.Ptr(it.array("idx%d" % d, list(pb["idx"][d])), 0) for d in range(ndd)])
    ranges = it.array("ranges", list(pb["ranges"]))
    A = lambda name, vals: G.Ptr(it.array(name, vals), 0)
    coords = A("coords", [A("coord%d" % d, [F(v) for v in c]) for d, c in enumerate(pb["coords"])])
    knots = A("knotsarg", [A("knotvec%d" % d, [F(v) for v in k]) for d, k in enumerate(knots_arg)])
    ksz = A("knot_sizes", [len(k) for k in knots_arg])
    mono = (1 << 32) - 1 if pb["monodim"] is None else pb["monodim"]
    it.call("fit", [pb["rows"], ndd, G.Ptr(data_i, 0), G.Ptr(ranges, 0), A("weights", [F(v) for v in pb["weights"]]), len(pb["weights"]), coords, len(pb["coords"]), A("coord_sizes", [len(c) for c in pb["coords"]]),
                    A("orders", list(orders_arg)), len(orders_arg), knots, len(knots_arg), ksz, A("smoothing", [F(v) for v in pb["smoothing"]]), len(pb["smoothing"]),
                    A("penalty", list(pb["penalty"])), len(pb["penalty"]), mono, False])

def run_case(args):
    nd, label, pb, must_throw = args; t0 = time.time()
    tag = "fit() ndim=%d: %s" % (nd, label)
    try:
        prog, params = PROG
        it, al = T.new_object(prog, params, units.cfitsio_constants(), T.Disk(), X14.RatDom())
        F = lambda q: G.FV(Fr(q), Fr(q))
        it.hooks["vp_is_sorted"] = lambda it_, a: all(a[0].obj.cells[i].num <= a[0].obj.cells[i + 1].num for i in range(a[0].off, a[1].off - 1))
        def h_max(it_, a):
            if a[1].off <= a[0].off: raise G.MemError("max_element of an empty range dereferenced")
            return max(a[0].obj.cells[a[0].off:a[1].off])
        it.hooks["vp_max_element_u"] = h_max
        calls = []
        it.hooks["cholmod_l_start"] = lambda it_, a: 1
        it.hooks["cholmod_l_finish"] = lambda it_, a: 1
        it.hooks["cholmod_l_spzeros"] = lambda it_, a: (calls.append(("spzeros", a)), G.Ptr(it_.array("penalty", [0]), 0))[1]
        it.hooks["cholmod_l_free_sparse"] = lambda it_, a: 1
        def rd(p, n, what):
            if p.obj is None or not p.obj.live or p.off < 0 or p.off + n > len(p.obj.cells): raise G.MemError("C fitter precondition: %s must be readable for %d elements (object has %d from offset %d)" % (what, n, len(p.obj.cells) if p.obj else 0, p.off))
            return p.obj.cells[p.off:p.off + n]
        def h_pen(it_, a):
            nspl, kn, ndim_, dim, order_, porder, scale, mono, pen, c = a
            ns = rd(nspl, ndim_, "nsplines"); rd(kn, ns[dim] + order_ + 1, "knots of dimension %d" % dim)
            calls.append(("penalty", dim, order_, porder, scale.num, mono)); return pen
        it.hooks["add_penalty_term"] = h_pen
        def h_glam(it_, a):
            data, w, co, ndim_, nk, kn, na, outc, order_, pen, mono, verbose, c = a
            rd(w, pb["rows"], "weights"); cs = rd(co, ndim_, "coords"); nks = rd(nk, ndim_, "nknots"); ks = rd(kn, ndim_, "knots"); nas = rd(na, ndim_, "naxes"); os_ = rd(order_, ndim_, "order")
            for d in range(ndim_):
                rd(cs[d], pb["ranges"][d], "coordinate vector %d (bsplinebasis reads data->ranges[%d] = %d abscissae)" % (d, d, pb["ranges"][d]))
                rd(ks[d], nks[d], "knot vector %d" % d)
                if not (nks[d] >= os_[d] + 2 and nas[d] == nks[d] - os_[d] - 1): raise G.MemError("C fitter precondition: nknots >= order+2 and naxes == nknots-order-1 in dimension %d" % d)
            n = 1
            for d in range(ndim_): n *= nas[d]
            rd(outc, n, "output coefficients")
            calls.append(("glam", ndim_, mono)); return 0
        it.hooks["glamfit_complex"] = h_glam
        ndd = pb["nd"]; mono = (1 << 32) - 1 if pb["monodim"] is None else pb["monodim"]
        fit_call(it, pb)
        g = lambda n: it.globals[n].cells[0]
        thrown = g("vp_thrown"); bad = []
        if must_throw:
            if not thrown: bad.append("inconsistent arguments were accepted (no exception)")
            if g("ndim") != 0 or al.live: bad.append("the table was modified before the rejection")
            if calls: bad.append("the fitter was entered before the rejection")
        else:
            if thrown: bad.append("a consistent problem was rejected")
            else:
                if g("ndim") != ndd: bad.append("ndim")
                want_pen = [("penalty", d, pb["orders"][d], (pb["penalty"][d] if len(pb["penalty"]) > 1 else pb["penalty"][0]), (pb["smoothing"][d] if len(pb["smoothing"]) > 1 else pb["smoothing"][0]), d == pb["monodim"]) for d in range(ndd)]
                got_pen = [c for c in calls if c[0] == "penalty"]
                if [(c[0], c[1], c[2], c[3], c[4], bool(c[5])) for c in got_pen] != want_pen: bad.append("penalty terms requested %s, expected %s" % (got_pen, want_pen))
                gl = [c for c in calls if c[0] == "glam"]
                if len(gl) != 1 or gl[0][1] != ndd or gl[0][2] != mono: bad.append("glamfit_complex call %s" % gl)
                kp = g("knots").obj.cells
                for d in range(ndd):
                    o = pb["orders"][d]; nk = len(pb["knots"][d])
                    if kp[d].off != o or len(kp[d].obj.cells) != nk + 2 * o: bad.append("knot storage of dimension %d is not allocate(nknots+2*order)+order" % d)
                    if [c.num for c in kp[d].obj.cells[o:o + nk]] != pb["knots"][d]: bad.append("knots of dimension %d not copied" % d)
                na = [len(pb["knots"][d]) - pb["orders"][d] - 1 for d in range(ndd)]; st = [1] * ndd
                for d in range(ndd - 2, -1, -1): st[d] = st[d + 1] * na[d + 1]
                if list(g("naxes").obj.cells) != na or list(g("strides").obj.cells) != st or len(g("coefficients").obj.cells) != st[0] * na[0]: bad.append("naxes/strides/coefficient storage not well-formed")
        out = [(tag + (" -> rejected by exception, table untouched" if must_throw else " -> runs inside its objects, fitter preconditions met, well-formed table"), not bad, "; ".join(bad)[:500], time.time() - t0)]
        if must_throw:
            # the same rejected call on a POPULATED table: the table must come through unchanged
            import c20
            it2, al2 = T.new_object(prog, params, units.cfitsio_constants(), T.Disk(), X14.RatDom())
            c20.call_fit(it2, "ok1" if nd == 1 else "ok2"); before = c20.state(it2, al2); live_before = set(al2.live.keys())
            it2.hooks["add_penalty_term"] = h_pen; it2.hooks["glamfit_complex"] = h_glam; it2.hooks["vp_max_element_u"] = h_max; calls.clear()
            it2.globals["vp_thrown"].cells[0] = 0
            fit_call(it2, pb)
            bad2 = []
            if not it2.globals["vp_thrown"].cells[0]: bad2.append("inconsistent arguments were accepted (no exception)")
            after = c20.state(it2, al2)
            if after != before or set(al2.live.keys()) != live_before: bad2.append("the populated table was modified by the rejected call (ndim %s -> %s)" % (before[1]["order"] if before[0] == "table" else before[0], after[1]["order"] if after[0] == "table" else after[0]))
            out.append((tag + " -> rejected on a populated table, which stays unchanged", not bad2, "; ".join(bad2)[:500], time.time() - t0))
        return out
    except Exception as ex:
        return [(tag + " execution [%s]" % str(ex)[:90], False, "%s: %s" % (type(ex).__name__, ex), time.time() - t0)]

def add(rep, thorough, only_valid=False, name="C13-fit-arguments"):
    import multiprocessing as mp
    global PROG
    prog, params, e = build(); PROG = (prog, params)
    rep.functions.append(e.info())
    tasks = [(nd, label, pb, must) for nd in (1, 2) for (label, pb, must) in variants(nd) if not (only_valid and must)]
    t0 = time.time()
    with mp.Pool(min(vlib.NCORES, 16)) as pool:
        res = pool.map(run_case, tasks, chunksize=2)
    flat = [o for r in res for o in r]
    rep.add_group("E3 exact execution of the GOTO program of the extracted fit(), C fitter hooked with its preconditions (BOUNDED: enumerated argument combinations)",
                  len(flat), sum(1 for o in flat if o[1]), time.time() - t0, bounded="valid problems and every single-fault variant of the arguments, ndim 1 and 2", name=name)
    for o in flat:
        if not o[1]: rep.add_violation(name, o[0].replace(" ", "_")[:170], o[0] + ": " + o[2], trace=o[2])
    rep.samples += [o[0] for o in flat[:3]]
