#!/usr/bin/env python3
"""C15: permuting dimensions relabels axes without changing the function.
The WHOLE splinetable::permuteDimensions (permute.h) is extracted mechanically (tools/units.py permute_function:
R7, R15, R16, R18, R20) and executed from CBMC's GOTO program on tables with pairwise different axis lengths, orders
and extents, for EVERY permutation of 1..4 (5) dimensions and for every kind of malformed argument.  Coefficients are
opaque symbols, so "exactly the original values relocated" is an identity of symbols; the function value is unchanged
because value = sum over coefficients of coefficient x product of per-dimension bases (C01) and each coefficient keeps
its per-dimension indices."""
import sys, os, time, itertools, multiprocessing as mp
sys.path.insert(0, os.path.dirname(os.path.dirname(os.path.abspath(__file__))))
from fractions import Fraction as Fr
from tools import vlib, units, gotoexec as G, e3lib as E
import c14_exact as X14
PROG = None

def setup(it, nd, with_periods=True, variant="distinct"):
    orders = [d % 3 + (1 if d == 2 else 0) for d in range(nd)]; orders = [(d * 2 + 1) % 4 for d in range(nd)]
    naxes = [2 + d + (d % 2) for d in range(nd)]                     # pairwise different for nd <= 5: 2,4,4?? -> fix below
    naxes = [2, 3, 5, 4, 6][:nd] if variant != "equal" else [3] * nd
    nks = [naxes[d] + orders[d] + 1 for d in range(nd)]
    strides = [1] * nd
    for d in range(nd - 2, -1, -1): strides[d] = strides[d + 1] * naxes[d + 1]
    n = strides[0] * naxes[0]
    F = lambda q: G.FV(Fr(q), Fr(q))
    kobjs = [it.array("knots%d" % d, [F(100 * d + m) for m in range(nks[d] + 2 * orders[d])]) for d in range(nd)]
    ext = it.array("extstore", [F(1000 * d + e) for d in range(nd) for e in range(2)])
    st = dict(orders=orders, naxes=naxes, nks=nks, strides=strides, n=n, kobjs=kobjs, ext=ext)
    it.set_global("ndim", nd)
    st["order_o"] = it.array("order", list(orders)); it.set_global("order", G.Ptr(st["order_o"], 0))
    st["nk_o"] = it.array("nknots", list(nks)); it.set_global("nknots", G.Ptr(st["nk_o"], 0))
    st["na_o"] = it.array("naxes", list(naxes)); it.set_global("naxes", G.Ptr(st["na_o"], 0))
    st["st_o"] = it.array("strides", list(strides)); it.set_global("strides", G.Ptr(st["st_o"], 0))
    st["kn_o"] = it.array("knotptrs", [G.Ptr(kobjs[d], orders[d]) for d in range(nd)]); it.set_global("knots", G.Ptr(st["kn_o"], 0))
    st["ex_o"] = it.array("extents", [G.Ptr(ext, 2 * d) for d in range(nd)]) if variant != "noext" else None
    it.set_global("extents", G.Ptr(st["ex_o"], 0) if st["ex_o"] is not None else G.NULL)
    st["co_o"] = it.array("coefficients", [it.fsym("c%d" % i, i) for i in range(n)]); it.set_global("coefficients", G.Ptr(st["co_o"], 0))
    it.set_global("vp_thrown", 0)
    st["pe_o"] = it.array("periods", [F(7 + 10 * d) for d in range(nd)]) if with_periods else None
    it.set_global("periods", G.Ptr(st["pe_o"], 0) if with_periods else G.NULL)
    return st

def hooks(it):
    log = []
    X14.install_storage_hooks(it, log)
    def h_pp(it_, a):
        src, n, out = a
        vals = src.obj.cells[src.off:src.off + n]; acc = None; k = 0
        for v in list(reversed(vals))[:max(n - 1, 0)]:
            acc = v if acc is None else (acc * v) & ((1 << 64) - 1)
            if out.off + k >= len(out.obj.cells): raise G.MemError("partial_sum writes past the stride array")
            out.obj.cells[out.off + k] = acc; k += 1
    def h_rev(it_, a):
        f, l = a; seg = f.obj.cells[f.off:l.off]; f.obj.cells[f.off:l.off] = list(reversed(seg))
    def h_eq(it_, a):
        f, l, o = a; n = l.off - f.off
        return f.obj.cells[f.off:l.off] == o.obj.cells[o.off:o.off + n]
    it.hooks.update(vp_partial_product_reverse=h_pp, vp_reverse_u64=h_rev, vp_equal_u64=h_eq)
    return log

def snapshot(it, st):
    return (it.globals["ndim"].cells[0], list(st["order_o"].cells), list(st["nk_o"].cells), list(st["na_o"].cells), list(st["st_o"].cells),
            [(p.obj.name, p.off) for p in st["kn_o"].cells], [c.num for c in st["ext"].cells] if st["ex_o"] is not None else None, [c.sym for c in st["co_o"].cells],
            [c.num for c in st["pe_o"].cells] if st["pe_o"] else None)

def perm_case(args):
    nd, perm, wp = args[:3]; variant = args[3] if len(args) > 3 else "distinct"; t0 = time.time()
    tag = "ndim=%d permutation=%s%s%s" % (nd, list(perm), "" if wp else " (table without periods)", {"distinct": "", "equal": " (all axes with the same coefficient count)", "noext": " (table without extents, as built by the stacking constructor)"}[variant])
    try:
        prog, params = PROG
        dom = G.TermDom(); it = G.Interp(prog, dom); it.prog_params = params; hooks(it)
        st = setup(it, nd, wp, variant); before = snapshot(it, st)
        it.call("permuteDimensions", [G.Ptr(it.array("perm", list(perm)), 0), len(perm)])
        bad = []
        if it.globals["vp_thrown"].cells[0]: bad.append("a valid permutation was rejected")
        if wp and [c.num for c in st["pe_o"].cells] != [Fr(7 + 10 * j) for j in perm]: bad.append("periods not permuted: %s" % [str(c.num) for c in st["pe_o"].cells])
        o, nk, na = st["orders"], st["nks"], st["naxes"]
        if list(st["order_o"].cells) != [o[j] for j in perm]: bad.append("orders not permuted")
        if list(st["nk_o"].cells) != [nk[j] for j in perm]: bad.append("knot counts not permuted")
        if list(st["na_o"].cells) != [na[j] for j in perm]: bad.append("coefficient counts not permuted")
        nna = [na[j] for j in perm]; nst = [1] * nd
        for d in range(nd - 2, -1, -1): nst[d] = nst[d + 1] * nna[d + 1]
        if list(st["st_o"].cells) != nst: bad.append("strides %s, expected %s" % (st["st_o"].cells, nst))
        kp = st["kn_o"].cells
        for i, j in enumerate(perm):
            if not (kp[i].obj is st["kobjs"][j] and kp[i].off == o[j]): bad.append("knot vector of new dimension %d is not that of old dimension %d" % (i, j))
            if st["ex_o"] is not None:
                e = st["ex_o"].cells[i]
                if [e.obj.cells[e.off].num, e.obj.cells[e.off + 1].num] != [Fr(1000 * j), Fr(1000 * j + 1)]: bad.append("extents of new dimension %d are not those of old dimension %d" % (i, j))
        co = st["co_o"].cells
        if not bad:
            for idx in itertools.product(*[range(a) for a in na]):
                old = sum(i * s for i, s in zip(idx, st["strides"]))
                new = sum(idx[j] * nst[i] for i, j in enumerate(perm))
                if co[new].sym != dom.symbol("c%d" % old): bad.append("coefficient of old index %s is not at the permuted index" % (list(idx),)); break
        # inverse permutation restores the table
        if not bad:
            inv = [0] * nd
            for i, j in enumerate(perm): inv[j] = i
            it.call("permuteDimensions", [G.Ptr(it.array("inv", inv), 0), nd])
            if snapshot(it, st) != before: bad.append("applying the inverse permutation does not restore the table")
        return [(tag + ": attributes, strides and coefficients relocated; inverse restores", not bad, "; ".join(bad[:3]), time.time() - t0)]
    except Exception as ex:
        return [(tag + " execution [%s]" % str(ex)[:80], False, "%s: %s" % (type(ex).__name__, ex), time.time() - t0)]

def reject_case(args):
    nd, label, perm = args; t0 = time.time(); tag = "ndim=%d malformed argument (%s) %s" % (nd, label, list(perm))
    try:
        prog, params = PROG
        dom = G.TermDom(); it = G.Interp(prog, dom); it.prog_params = params; hooks(it)
        st = setup(it, nd); before = snapshot(it, st)
        it.call("permuteDimensions", [G.Ptr(it.array("perm", list(perm) if perm else [0]), 0), len(perm)])
        bad = []
        if not it.globals["vp_thrown"].cells[0]: bad.append("not rejected")
        if snapshot(it, st) != before: bad.append("table modified before the rejection")
        return [(tag + " -> rejected, table unchanged", not bad, "; ".join(bad), time.time() - t0)]
    except Exception as ex:
        return [(tag + " execution [%s]" % str(ex)[:80], False, "%s: %s" % (type(ex).__name__, ex), time.time() - t0)]

def replayer(v):
    from tools import native
    exe = native.build_driver("replay_permute", ["src/core/bspline.cpp"])
    rc, out = native.run_driver(exe, "", "permute", timeout=120)
    return dict(replayed=rc != 0, input="3-D table (orders 1,2,0; 5,8,4 knots; periods 360,720,1080), permutation {2,0,1}", driver="tools/replay/replay_permute.cpp (real permuteDimensions, ASan)", exit_code=rc, observed=out[:2000])

def main():
    global PROG
    thorough = vlib.TIER == "thorough"
    rep = vlib.Report("C15", level="exploration")
    e = units.permute_function()
    prog = G.Program.compile(units.PERMUTE_PRELUDE + e.text(None), vlib.workdir(), "permute")
    PROG = (prog, {"permuteDimensions": E.param_names(e.header, "permuteDimensions")})
    rep.functions.append(e.info())
    NMAX = 4 if not thorough else 5
    ptasks = [(nd, p, True) for nd in range(1, NMAX + 1) for p in itertools.permutations(range(nd))] + [(nd, p, False) for nd in (2, 3) for p in itertools.permutations(range(nd))] \
             + [(nd, p, True, "equal") for nd in (2, 3) for p in itertools.permutations(range(nd))] + [(nd, p, False, "noext") for nd in (2, 3) for p in itertools.permutations(range(nd))]
    rtasks = []
    for nd in (1, 2, 3):
        rtasks += [(nd, "too short", tuple(range(nd - 1))), (nd, "too long", tuple(range(nd + 1))), (nd, "index out of range", tuple(list(range(nd - 1)) + [nd])),
                   (nd, "huge index", tuple(list(range(nd - 1)) + [1 << 40]))]
        if nd >= 2: rtasks += [(nd, "duplicate", tuple([0] * nd)), (nd, "duplicate and missing", tuple(list(range(nd - 2)) + [nd - 1, nd - 1]))]
    t0 = time.time()
    with mp.Pool(min(vlib.NCORES, 16)) as pool:
        r1 = pool.map(perm_case, ptasks, chunksize=4); ta = time.time() - t0; tb0 = time.time()
        r2 = pool.map(reject_case, rtasks, chunksize=2); tb = time.time() - tb0
    for name, results, wall in (("C15-permutations", r1, ta), ("C15-malformed-arguments", r2, tb)):
        flat = [o for r in results for o in r]
        rep.add_group("E3 exact execution of the GOTO program of the extracted permuteDimensions() (BOUNDED: exhaustive over permutations of <= %d dimensions)" % NMAX, len(flat), sum(1 for o in flat if o[1]), wall,
                      bounded="every permutation of 1..%d dimensions on a table with pairwise different axis lengths/orders/extents; coefficients opaque symbols" % NMAX, name=name)
        for o in flat:
            if not o[1]: rep.add_violation(name, o[0].replace(" ", "_")[:160], o[0] + ": " + o[2], trace=o[2])
        rep.samples += [o[0] for o in flat[:2]]
    rep.extra["exhaustive"] = True
    rep.extra["evaluations"] = len(ptasks) + len(rtasks)
    rep.extra["distinct_nontrivial"] = len([1 for t_ in ptasks if list(t_[1]) != list(range(t_[0]))]) + len(rtasks)
    rep.extra["rule"] = "every permutation of 1..%d dimensions (with and without a periods array) and every kind of malformed index vector; non-trivial = not the identity permutation; all cases distinct" % NMAX
    rep.assume("BOUNDED: exhaustive over all permutations of 1..%d dimensions of one table shape per dimension count (pairwise different per-dimension attributes); not a proof for all ndim" % NMAX,
               "'evaluating at the permuted point gives the same value' follows from coefficient relocation + per-dimension attribute relocation + C01 (value = sum of coefficient x product of per-dimension bases); it is not re-evaluated numerically here",
               "library semantics supplied by the interpreter (hooks): new[]/unique_ptr storage, std::copy, std::reverse, std::partial_sum over reverse iterators with multiplies; periods are checked when the table has them (read_fits allocates them), and must stay absent otherwise",
               "extraction rules R7 (throw -> ghost flag + return), R15 (unique_ptr/new), R16 (std algorithms), R18 (container -> pointer,size), R20 (std::vector locals -> arrays)")
    rep.trust("tools/gotoexec.py", "goto-cc front end", "tools/extract.py rules")
    rep.finish(replayer)

if __name__ == "__main__":
    main()
