"""C05, chain link 4: the driver splinetable::ndsplineeval verified by CBMC against the CONTRACTS of its callees
(bsplvb_simple, bspline_deriv_nonzero, ndsplineeval_core, max-element helper): for every order vector, every bitmask and
every in-range center vector the local-basis store is large enough for every row the callees write and the callees'
preconditions (padding discipline, fully supported interval index) hold at the call sites."""
import sys, os
from tools import vlib, units
from specs import table as T
W = "__CPROVER_object_whole"

def tu_for(ND, Float, OMAX, NK):
    drv = units.driver("ndsplineeval")
    pre = T.PRELUDE + "#define Float %s\n" % Float
    # callee contracts in call-site form (memory written with r_ok / w_ok; each was verified on its own with is_fresh + padding)
    c = []
    c.append("static uint32_t vp_max_u32(const uint32_t* p, uint32_t n)\n__CPROVER_requires(n >= 1 && n <= %d && __CPROVER_r_ok(p, n*sizeof(uint32_t)))\n__CPROVER_assigns()\n" % ND +
             "".join("__CPROVER_ensures(n > %d ==> p[%d] <= __CPROVER_return_value)\n" % (i, i) for i in range(ND)) +
             "__CPROVER_ensures(%s)\n;\n" % " || ".join("(n > %d && __CPROVER_return_value == p[%d])" % (i, i) for i in range(ND)))
    c.append("void bsplvb_simple(const double* knots, const unsigned nknots, double x, int left, int degree, Float* biatx)\n"
             "__CPROVER_requires(degree >= 1 && nknots >= 2*(unsigned)(degree-1) + 2 && left >= degree-1 && (unsigned)left + (unsigned)(degree-1) + 2 <= nknots)\n"
             "__CPROVER_requires(__CPROVER_r_ok(knots - (degree-1), ((size_t)nknots + 2*(size_t)(degree-1))*sizeof(double)))\n"
             "__CPROVER_requires(__CPROVER_w_ok(biatx, (size_t)degree*sizeof(Float)))\n"
             "__CPROVER_assigns(__CPROVER_object_upto(biatx, (size_t)degree*sizeof(Float)))\n;\n")
    c.append("void bspline_deriv_nonzero(const double* knots, const unsigned nknots, const double x, int left, const int n, Float* biatx)\n"
             "__CPROVER_requires(n >= 0 && nknots >= 2*(unsigned)n + 2 && left >= n && (unsigned)left + (unsigned)n + 2 <= nknots)\n"
             "__CPROVER_requires(__CPROVER_r_ok(knots - n, ((size_t)nknots + 2*(size_t)n)*sizeof(double)))\n"
             "__CPROVER_requires(__CPROVER_w_ok(biatx, ((size_t)n + 1)*sizeof(Float)))\n"
             "__CPROVER_assigns(__CPROVER_object_upto(biatx, ((size_t)n + 1)*sizeof(Float)))\n;\n")
    c.append("double ndsplineeval_core(const int* centers, int maxdegree, Float* localbasis_buf, size_t localbasis_dim1)\n"
             "__CPROVER_requires(__CPROVER_r_ok(centers, ndim*sizeof(int)) && localbasis_dim1 == (size_t)maxdegree)\n"
             "__CPROVER_requires(__CPROVER_r_ok(localbasis_buf, (size_t)ndim*localbasis_dim1*sizeof(Float)))\n" +
             "".join("__CPROVER_requires(ndim > %d ==> (order[%d] + 1 <= (uint32_t)maxdegree && centers[%d] >= (int)order[%d] && (uint64_t)centers[%d] + order[%d] + 2 <= nknots[%d]))\n" % (d, d, d, d, d, d, d) for d in range(ND)) +
             "__CPROVER_assigns()\n;\n")
    req = ["ndim == %d" % ND,
           "__CPROVER_is_fresh(order, %d*sizeof(uint32_t))" % ND, "__CPROVER_is_fresh(nknots, %d*sizeof(uint64_t))" % ND, "__CPROVER_is_fresh(knots, %d*sizeof(double*))" % ND,
           "__CPROVER_is_fresh(x, %d*sizeof(double))" % ND, "__CPROVER_is_fresh(centers, %d*sizeof(int))" % ND]
    for d in range(ND):
        req.append("order[%d] <= %d && nknots[%d] <= %d && nknots[%d] >= 2*(uint64_t)order[%d] + 2" % (d, OMAX, d, NK, d, d))
        req.append("__CPROVER_is_fresh(vp_base%d, (%d + 2*%d)*sizeof(double))" % (d, NK, OMAX))
        req.append("__CPROVER_pointer_equals(knots[%d], vp_base%d + %d)" % (d, d, OMAX))
        req.append("centers[%d] >= (int)order[%d] && (uint64_t)centers[%d] + order[%d] + 2 <= nknots[%d]" % (d, d, d, d, d))
    ct = "double ndsplineeval(const double* x, const int* centers, int derivatives)\n" + "".join("__CPROVER_requires(%s)\n" % r for r in req) + \
         "__CPROVER_assigns()\n__CPROVER_ensures(1)\n__CPROVER_ensures(order[0] != %d) /* canary */\n__CPROVER_ensures(derivatives != 1) /* canary */\n;\n" % OMAX
    bases = "".join("double* vp_base%d;\n" % d for d in range(ND))
    loops = [("for", "__CPROVER_assigns(n, %s(localbasis_store))\n__CPROVER_loop_invariant(n <= ndim && localbasis_dim1 == maxdegree && localbasis_buf == localbasis_store)\n__CPROVER_decreases(ndim - n)" % W)]
    h = "void h_ndsplineeval(void){ const double* x; const int* c; int d; ndsplineeval(x, c, d); __CPROVER_assert(0, \"canary: reachable after call\"); }\n"
    return pre + bases + "".join(c) + ct + drv.text(loops) + h, drv

def jobs(thorough):
    js = []; drv = None
    for Float in ("float", "double"):
        for ND in ((1, 2, 3) if not thorough else (1, 2, 3, 4)):
            tu, drv = tu_for(ND, Float, 16, 64)
            js.append(vlib.Job("C05-driver-ndsplineeval-%s-ndim%d" % (Float, ND), tu, "h_ndsplineeval", enforce="ndsplineeval",
                               replace=["vp_max_u32", "bsplvb_simple", "bspline_deriv_nonzero", "ndsplineeval_core"],
                               expect_fail=[r"^h_ndsplineeval\.assertion\.1$", r"^ndsplineeval\.postcondition\.[23]$"],
                               must_have=[r"bsplvb_simple\.precondition", r"bspline_deriv_nonzero\.precondition", r"ndsplineeval_core\.precondition", "loop_invariant_step"],
                               timeout=1800, split=8, split_procs=8, backend="cbmc-sat-contracts",
                               note="driver checked against callee contracts (calls replaced): orders <= 16 and nknots <= 64 symbolic per dimension, any bitmask, any x; ndim == %d" % ND))
    return drv, js
