#!/usr/bin/env python3
"""C05: lookup and evaluation are memory-safe for every coordinate vector.
Chain: searchcenters (NaN allowed) -> 1-D basis routines -> N-D cores -> drivers."""
import sys, os
sys.path.insert(0, os.path.dirname(os.path.dirname(os.path.abspath(__file__))))
from tools import vlib, units, native
from specs import basis1d as B
import lookup

def basis_jobs(MAXN, MAXNK, floats):
    vb = units.free_function(units.BSPLINE_H, "bsplvb")
    bs = units.free_function(units.BSPLINE_H, "bsplvb_simple")
    nz = units.free_function(units.BSPLINE_H, "bspline_nonzero")
    dn = units.free_function(units.BSPLINE_H, "bspline_deriv_nonzero")
    rb = units.free_function(units.BSPLINE_CPP, "bspline")
    rd = units.free_function(units.BSPLINE_CPP, "bspline_deriv")
    fns = [vb, bs, nz, dn, rb, rd]
    note = "all loops closed by invariant+decreases (no unwinding); order<=%d, nknots<=%d; x any IEEE double; padding contents unconstrained" % (MAXN, MAXNK)
    jobs = []
    for FL in floats:
        cc = ["-DFloat=" + FL]
        common = dict(timeout=1800, split=16, split_procs=8, cc_flags=cc, backend="cbmc-sat-contracts", note=note,
                      must_have=["loop_invariant_step", "loop_decreases"])
        tu = B.PRELUDE + B.bsplvb_simple_contract(MAXN + 1, MAXNK) + bs.text(B.bsplvb_simple_loops()) + \
             B.harness("bsplvb_simple", ["const double* knots", "unsigned nknots", "double x", "int left", "int degree", "Float* biatx"])
        jobs.append(vlib.Job("C05-bsplvb_simple-%s" % FL, tu, "h_bsplvb_simple", enforce="bsplvb_simple",
                             expect_fail=[r"^h_bsplvb_simple\.assertion\.1$"], **common))
        tu = B.PRELUDE + B.bspline_nonzero_contract(MAXN, MAXNK) + vb.text(B.bsplvb_loops()) + nz.text(B.bspline_nonzero_loops()) + \
             B.harness("bspline_nonzero", ["const double* knots", "unsigned nknots", "double x", "int left", "int n", "Float* values", "Float* derivs"])
        jobs.append(vlib.Job("C05-bspline_nonzero-%s" % FL, tu, "h_bspline_nonzero", enforce="bspline_nonzero",
                             expect_fail=[r"^h_bspline_nonzero\.assertion\.1$"], **common))
        tu = B.PRELUDE + B.bspline_deriv_nonzero_contract(MAXN, MAXNK) + vb.text(B.bsplvb_loops()) + dn.text(B.bspline_deriv_nonzero_loops()) + \
             B.harness("bspline_deriv_nonzero", ["const double* knots", "unsigned nknots", "double x", "int left", "int n", "Float* biatx"])
        jobs.append(vlib.Job("C05-bspline_deriv_nonzero-%s" % FL, tu, "h_bspline_deriv_nonzero", enforce="bspline_deriv_nonzero",
                             expect_fail=[r"^h_bspline_deriv_nonzero\.assertion\.1$"], **common))
    rnote = "recursion closed by --enforce-contract-rec (recursive calls replaced by the contract): no unwinding, n<=%d" % MAXN
    tu = B.PRELUDE + B.recursive_contract("bspline", MAXN) + rb.text(None) + B.recursive_harness("bspline")
    jobs.append(vlib.Job("C05-bspline-rec", tu, "h_bspline", enforce_rec="bspline", loop_contracts=False,
                         expect_fail=[r"^h_bspline\.assertion\.1$"], timeout=600, backend="cbmc-sat-contracts", note=rnote,
                         must_have=[r"bspline\.precondition"]))
    tu = B.PRELUDE + B.recursive_contract("bspline", MAXN) + B.recursive_contract("bspline_deriv", MAXN) + rb.text(None) + rd.text(None) + B.recursive_harness("bspline_deriv")
    jobs.append(vlib.Job("C05-bspline_deriv-rec", tu, "h_bspline_deriv", enforce_rec="bspline_deriv", replace=["bspline"], loop_contracts=False,
                         expect_fail=[r"^h_bspline_deriv\.assertion\.1$"], timeout=600, backend="cbmc-sat-contracts", note=rnote,
                         must_have=[r"bspline_deriv\.precondition", r"bspline\.precondition"]))
    return fns, jobs

if __name__ == "__main__":
    thorough = vlib.TIER == "thorough"
    rep = vlib.Report("C05")
    # 1. lookup, NaN allowed
    f, ljobs = lookup.jobs(True, [(64, 1), (16, 2), (16, 3)] if not thorough else [(128, 1), (32, 2), (32, 3), (16, 4)], "C05")
    # 2. 1-D basis routines
    fns, bjobs = basis_jobs(1000 if not thorough else 65535, 4096 if not thorough else (1 << 24), ["float", "double"])
    alljobs = ljobs + bjobs
    vlib.run_jobs(alljobs, nproc=4)
    rep.add_jobs(alljobs)
    lookup.common_assumptions(rep, f, True)
    for fn in fns: rep.functions.append(fn.info())
    rep.assume("1-D routines: knots points `order` doubles into one object of nknots+2*order doubles (the allocation idiom of fitsio.h/fit.h/convolve.h); that every producer allocates this way is checked only syntactically (tools/padding_scan)",
               "bsplvb (no nknots parameter) is analysed inside its callers, its loops closed by their own invariants; it has no separate function contract",
               "bspline/bspline_deriv: memory precondition written with __CPROVER_r_ok so that the recursive call sites can be checked against the same contract",
               "template parameter Float instantiated textually (-DFloat=float / double)")
    rep.finish(lookup.replayer(True))
