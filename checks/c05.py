#!/usr/bin/env python3
"""C05: lookup and evaluation are memory-safe for every coordinate vector.
Chain: searchcenters (NaN allowed) -> 1-D basis routines -> N-D cores -> drivers."""
import sys, os
sys.path.insert(0, os.path.dirname(os.path.dirname(os.path.abspath(__file__))))
from tools import vlib, units, native
from specs import basis1d as B
import lookup

def basis_jobs(MAXN, MAXNK, floats):
    vb = units.free_function(units.BSPLINE_H, "bsplvb")
    bs = units.free_function(units.BSPLINE_H, "bsplvb_simple")
    nz = units.free_function(units.BSPLINE_H, "bspline_nonzero")
    dn = units.free_function(units.BSPLINE_H, "bspline_deriv_nonzero")
    rb = units.free_function(units.BSPLINE_CPP, "bspline")
    rd = units.free_function(units.BSPLINE_CPP, "bspline_deriv")
    fns = [vb, bs, nz, dn, rb, rd]
    note = "all loops closed by invariant+decreases (no unwinding); order<=%d, nknots<=%d; x any IEEE double; padding contents unconstrained" % (MAXN, MAXNK)
    jobs = []
    for FL in floats:
        cc = ["-DFloat=" + FL]
        common = dict(timeout=1800, split=16, split_procs=8, cc_flags=cc, backend="cbmc-sat-contracts", note=note,
                      must_have=["loop_invariant_step", "loop_decreases"])
        tu = B.PRELUDE + B.bsplvb_simple_contract(MAXN + 1, MAXNK) + bs.text(B.bsplvb_simple_loops()) + \
             B.harness("bsplvb_simple", ["const double* knots", "unsigned nknots", "double x", "int left", "int degree", "Float* biatx"])
        jobs.append(vlib.Job("C05-bsplvb_simple-%s" % FL, tu, "h_bsplvb_simple", enforce="bsplvb_simple",
                             expect_fail=[r"^h_bsplvb_simple\.assertion\.1$"], **common))
        tu = B.PRELUDE + B.bspline_nonzero_contract(MAXN, MAXNK) + vb.text(B.bsplvb_loops()) + nz.text(B.bspline_nonzero_loops()) + \
             B.harness("bspline_nonzero", ["const double* knots", "unsigned nknots", "double x", "int left", "int n", "Float* values", "Float* derivs"])
        jobs.append(vlib.Job("C05-bspline_nonzero-%s" % FL, tu, "h_bspline_nonzero", enforce="bspline_nonzero",
                             expect_fail=[r"^h_bspline_nonzero\.assertion\.1$"], **common))
        tu = B.PRELUDE + B.bspline_deriv_nonzero_contract(MAXN, MAXNK) + vb.text(B.bsplvb_loops()) + dn.text(B.bspline_deriv_nonzero_loops()) + \
             B.harness("bspline_deriv_nonzero", ["const double* knots", "unsigned nknots", "double x", "int left", "int n", "Float* biatx"])
        jobs.append(vlib.Job("C05-bspline_deriv_nonzero-%s" % FL, tu, "h_bspline_deriv_nonzero", enforce="bspline_deriv_nonzero",
                             expect_fail=[r"^h_bspline_deriv_nonzero\.assertion\.1$"], **common))
    rnote = "recursion closed by --enforce-contract-rec (recursive calls replaced by the contract): no unwinding, n<=%d" % MAXN
    tu = B.PRELUDE + B.recursive_contract("bspline", MAXN) + rb.text(None) + B.recursive_harness("bspline")
    jobs.append(vlib.Job("C05-bspline-rec", tu, "h_bspline", enforce_rec="bspline", loop_contracts=False,
                         expect_fail=[r"^h_bspline\.assertion\.1$"], timeout=600, backend="cbmc-sat-contracts", note=rnote,
                         must_have=[r"bspline\.precondition"]))
    tu = B.PRELUDE + B.recursive_contract("bspline", MAXN) + B.recursive_contract("bspline_deriv", MAXN) + rb.text(None) + rd.text(None) + B.recursive_harness("bspline_deriv")
    jobs.append(vlib.Job("C05-bspline_deriv-rec", tu, "h_bspline_deriv", enforce_rec="bspline_deriv", replace=["bspline"], loop_contracts=False,
                         expect_fail=[r"^h_bspline_deriv\.assertion\.1$"], timeout=600, backend="cbmc-sat-contracts", note=rnote,
                         must_have=[r"bspline_deriv\.precondition", r"bspline\.precondition"]))
    return fns, jobs

def _memsafe(job):
    """run an E3 case and keep only what C05 is about: no out-of-object access, no dead/uninitialised read,
    no failed assert while the extracted code runs on exactly-sized objects"""
    fn, args = job
    import c03, c03_simd
    f = dict(variant=c03.variant_case, vcase=c03_simd.vcase, grad=c03_simd.gradient_case)[fn]
    out = []
    for (name, ok, det, dt) in f(args):
        if "execution [" in name:
            out.append((name.replace("execution", "memory-safe execution"), False, det, dt))
        elif fn == "grad":
            out.append((name, ok, det, dt))
        else:
            out.append((name.split(" == ")[0] + " runs inside its objects", True, "", dt))
    return out

def nd_bounded(rep, thorough):
    """N-D block walkers and gradient drivers executed from the GOTO program on exactly-sized objects
    (coefficients = prod(naxes) floats, local basis rows = order+1) at the lowest and highest admissible
    centers: every access is bounds-checked by the interpreter.  BOUNDED (enumerated shapes)."""
    import multiprocessing as mp, time
    import c01, c02, c03, c03_simd
    from tools import e3cores as EC, e3lib as E
    PROGS = c01.PROGS; jobs = []
    for Float in ("float", "double"):
        cp, cparams, ce = EC.core_program("ndsplineeval_core", Float); PROGS["core_" + Float] = (cp, cparams, ce.name)
        gp, gparams, ge = c03_simd.vprog("ndsplineeval_multibasis_core", Float); PROGS["vcore_" + Float] = (gp, gparams, ge.name)
        pp, pparams, gs = c03_simd.build_grad_program(Float); PROGS["grad_" + Float] = (pp, pparams)
        if Float == "float": rep.functions += [ce.info(), ge.info()] + [g.info() for g in gs]
        for vname, kw, orderlists in c03.variants(thorough):
            tagk = "_".join("%s%s" % (k, "".join(map(str, v)) if isinstance(v, tuple) else v) for k, v in sorted(kw.items()))
            vp, vparams, ve = EC.core_program(vname, Float, tag="_" + tagk, cname=vname + "_" + tagk, **kw)
            PROGS["variant_%s_%s_%s" % (Float, vname, sorted(kw.items()))] = (vp, vparams, ve.name)
            mname = vname.replace("ndsplineeval_core", "ndsplineeval_multibasis_core")
            if not ("D" in kw and kw["D"] > 7):
                mp_, mparams, me = c03_simd.vprog(mname, Float, tag="_" + tagk, cname=mname + "_" + tagk, **kw)
                PROGS["vvariant_%s_%s_%s" % (Float, mname, sorted(kw.items()))] = (mp_, mparams, me.name)
            for orders in orderlists:
                for naxes, centers in EC.shapes_for(orders)[0:3]:
                    if len(orders) >= 6 and naxes != [o + 1 for o in orders] and not thorough and centers != [n - 1 for n in naxes]: continue
                    jobs.append(("variant", (Float, vname, kw, orders, tuple(naxes), tuple(centers))))
                    if not ("D" in kw and kw["D"] > 7) and len(orders) <= 7:
                        jobs.append(("vcase", (Float, mname, kw, orders, tuple(naxes), tuple(centers))))
        for which in ("member", "evaluator"):
            for orders in [(2,), (0, 3), (2, 1, 3), (2, 2, 2, 3, 2, 2), (1, 0, 1, 2, 1, 0, 1), (1,) * 8, (0,) * 9, (2,) * 10]:
                jobs.append(("grad", (Float, which, orders)))
    t0 = time.time()
    with mp.Pool(min(vlib.NCORES, 16)) as pool:
        res = pool.map(_memsafe, jobs, chunksize=1)
    flat = [o for r in res for o in r]
    rep.add_group("E3 bounds-checked execution of the GOTO program (BOUNDED: enumerated shapes)", len(flat), sum(1 for o in flat if o[1]), time.time() - t0,
                  bounded="enumerated (ndim, orders, axes lengths, extreme centers); every instantiated core, scalar and SIMD; gradient drivers ndim 1..10", name="C05-nd-walkers-and-gradient-drivers")
    for o in flat:
        if not o[1]: rep.add_violation("C05-nd-walkers-and-gradient-drivers", o[0].replace(" ", "_"), o[0] + ": " + o[2], trace=o[2])
    rep.samples += [o[0] for o in flat[:2]]

def replayer(v):
    """lookup obligations -> lookup replayer; N-D obligations -> the real library on a table of that shape, all entry points, ASan"""
    import re, struct
    m = re.search(r"orders=\[([\d,_ ]*)\]", v["obligation"])
    if "searchcenters" in v["job"] or not m:
        return lookup.replayer(True)(v)
    orders = [int(t) for t in re.findall(r"\d+", m.group(1))]
    hexd = lambda q: "%016x" % struct.unpack(">Q", struct.pack(">d", float(q)))[0]
    txt = "ndim %d\n" % len(orders)
    for o in orders:
        nk = 2 * o + 3
        txt += "dim %d %d %s\n" % (o, nk, " ".join(hexd(i) for i in range(nk)))
    outs = []
    exe = native.build_driver("replay_lookup", ["src/core/bspline.cpp"])
    for xs in ([o + 0.5 for o in orders], [2 * o + 2 for o in orders], [0.25 for o in orders]):
        inp = txt + "x %s\n" % " ".join(hexd(x) for x in xs)
        rc, out = native.run_driver(exe, inp, "nd")
        if rc != 0:
            return dict(replayed=True, input=inp, driver="tools/replay/replay_lookup.cpp (ASan+UBSan, every evaluation entry point)", exit_code=rc, observed=out[:3000])
        outs.append(out[-300:])
    return dict(replayed=False, note="native ASan run of every entry point on a table of this shape shows no violation", observed=outs)

if __name__ == "__main__":
    thorough = vlib.TIER == "thorough"
    rep = vlib.Report("C05")
    # 1. lookup, NaN allowed
    f, ljobs = lookup.jobs(True, [(64, 1), (16, 2), (16, 3)] if not thorough else [(128, 1), (32, 2), (32, 3), (16, 4)], "C05")
    # 2. 1-D basis routines
    fns, bjobs = basis_jobs(1000 if not thorough else 65535, 4096 if not thorough else (1 << 24), ["float", "double"])
    import c05_driver
    drv, djobs = c05_driver.jobs(thorough)
    alljobs = ljobs + bjobs + djobs
    vlib.run_jobs(alljobs, nproc=4)
    rep.add_jobs(alljobs)
    nd_bounded(rep, thorough)
    lookup.common_assumptions(rep, f, True)
    for fn in fns: rep.functions.append(fn.info())
    rep.functions.append(drv.info())
    rep.assume("1-D routines: knots points `order` doubles into one object of nknots+2*order doubles (the allocation idiom of fitsio.h/fit.h/convolve.h); that every producer allocates this way is checked only syntactically (tools/padding_scan)",
               "bsplvb (no nknots parameter) is analysed inside its callers, its loops closed by their own invariants; it has no separate function contract",
               "bspline/bspline_deriv: memory precondition written with __CPROVER_r_ok so that the recursive call sites can be checked against the same contract",
               "template parameter Float instantiated textually (-DFloat=float / double)",
               "driver ndsplineeval<Float>: verified by CBMC against the callee contracts in call-site form (r_ok/w_ok instead of is_fresh; same memory requirement) for symbolic orders <= 16, nknots <= 64, any bitmask, ndim 1..3(4) enumerated; the other drivers (ndsplineeval_deriv, gradient, evaluator twins) are covered by the bounded E3 runs only",
               "N-D block walkers (generic + every instantiated specialisation, scalar and SIMD) and gradient drivers: BOUNDED - executed from CBMC's GOTO program on exactly-sized objects for enumerated shapes with the interpreter's bounds checks; counted separately (obligations_bounded), never as proved",
               "gradient refusal: tables with ndim+1 > PHOTOSPLINE_MAXDIM are refused (ghost flag for the exception, R7) before anything is written, ndim 8, 9, 10 enumerated")
    rep.finish(replayer)
