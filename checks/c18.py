#!/usr/bin/env python3
"""C18 (partial): the C interface is a faithful wrapper - checked modularly against the contracts of the C++ operations.

Every wrapper of src/cinter/splinetable.cpp (all 30; the array_view marshalling of splinetable_glamfit / splinetable_grideval becomes
(pointer, length) pairs, R38) is extracted mechanically (R34: `real_table.op(args)` becomes
`vp_m_op(object, args)`; R22d: try{B}catch(std::exception&){H}catch(...){H'} becomes B with `if (thrown) {clear; H}` after every
statement that calls a C++ operation) and executed from CBMC's GOTO program.  The C++ operations are ASSUMED CONTRACTS
supplied by the check: each call either returns a scripted value or - when the operation's own text contains a throw
statement or an allocation (scanned in the headers on every run) - throws.  For every wrapper and every outcome of the
operation it calls:
  O1  no exception escapes the wrapper (the ghost flag is clear when it returns)
  O2  a throwing operation yields a non-zero status (NULL for pointer results)
  O3  a normal return is passed on exactly: value wrappers return the operation's value, status wrappers return 0 exactly when
      the operation succeeded (a bool result `false` counts as failure)
  O4  arguments reach the operation unchanged
  O5  handle life cycle: every object constructed through a handle is destroyed exactly once, a failed construction leaves the
      handle empty, free clears the handle and is idempotent
That the C++ operations themselves behave is the subject of C01-C20; leak-freedom INSIDE them is C20."""
import sys, os, time, itertools, re
sys.path.insert(0, os.path.dirname(os.path.dirname(os.path.abspath(__file__))))
from fractions import Fraction as Fr
from tools import vlib, units, gotoexec as G, e3lib as E
import c14_exact as X14
PROG = None
F = lambda q: G.FV(Fr(q), Fr(q))
# which C++ operation each wrapper stands for (from the documentation of the C header; this is the specification side)
CORRESPONDS = {"splinetable_init": "construct", "readsplinefitstable": "construct_from", "writesplinefitstable": "write_fits", "readsplinefitstable_mem": "read_fits_mem", "writesplinefitstable_mem": "write_fits_mem",
               "splinetable_get_key": "get_aux_value", "splinetable_read_key": "read_key", "splinetable_write_key": "write_key", "splinetable_ndim": "get_ndim", "splinetable_order": "get_order",
               "splinetable_nknots": "get_nknots", "splinetable_knots": "get_knots", "splinetable_knot": "get_knot", "splinetable_lower_extent": "lower_extent", "splinetable_upper_extent": "upper_extent",
               "splinetable_period": "get_period", "splinetable_ncoeffs": "get_ncoeffs", "splinetable_total_ncoeffs": "get_ncoeffs", "splinetable_stride": "get_stride", "splinetable_coefficients": "get_coefficients",
               "tablesearchcenters": "searchcenters", "ndsplineeval": "ndsplineeval", "ndsplineeval_gradient": "ndsplineeval_gradient", "ndsplineeval_deriv": "ndsplineeval_deriv",
               "splinetable_convolve": "convolve", "splinetable_permute": "permuteDimensions", "splinetable_glamfit": "fit", "splinetable_grideval": "grideval", "ndsparse_destroy": "destroy_ndsparse"}
BOOL_OPS = ("read_key",)          # operations whose bool result reports failure (write_key returns false for a successful overwrite: not a failure signal)

def build():
    fs, methods = units.cinter_functions()
    decl = ["#include <stdint.h>", "#include <stddef.h>", "#include <stdbool.h>", "struct splinetable{ void* data; };", "typedef enum { SPLINETABLE_INT, SPLINETABLE_DOUBLE } splinetable_dtype;",
            "struct splinetable_buffer { void* data; size_t size; };", "struct ndsparse { size_t rows; size_t ndim; double* x; unsigned int** i; unsigned int* ranges; };", "struct vp_view { const void* d; size_t s; };", "int vp_thrown;", "void vp_copy(const void* first, const void* last, void* out);"]
    rets = {}
    for m, ts in sorted(methods.items()):
        if len(ts) > 1: raise units.ExtractionError("operation %s is used with different result types %s" % (m, ts))
        rt = next(iter(ts)) if ts else ("void*" if m.startswith("construct") else "void" if m in ("fit", "destroy_ndsparse") else ("bool" if m in BOOL_OPS + ("read_fits_mem", "write_key") else "void"))
        rets[m] = rt
        decl.append("%s vp_m_%s(%s);" % (rt, m, "void" if m == "construct" else ("const char* path" if m == "construct_from" else ("struct ndsparse* nd" if m == "destroy_ndsparse" else "void* obj, ..."))))
    decl += ["%s;" % f.header for f in fs]
    text = "\n".join(decl) + "\n" + "".join(f.text(None) for f in fs)
    prog = G.Program.compile(text, vlib.workdir(), "cinter")
    params = {f.name: E.param_names(f.header, f.name) for f in fs}
    throws = {m: (True if m in ("construct", "construct_from") else (False if m in ("destroy", "destroy_ndsparse") else units.may_throw(m))) for m in methods}
    return prog, params, fs, rets, throws

def make_args(it, header, name, variant):
    """arguments of a wrapper call built from its parameter list"""
    plist = header[header.index("(") + 1:header.rindex(")")]; args = []; info = {}
    for p in [q.strip() for q in plist.split(",")]:
        pname = re.findall(r"(\w+)\s*$", p)[0]; ty = p[:p.rindex(pname)].strip()
        if "struct ndsparse**" in ty.replace(" ", "").replace("structndsparse", "struct ndsparse"):
            v = G.Ptr(it.array("result", [G.Ptr(it.new_obj("stale", 1), 0)]), 0); info["result"] = v
        elif "struct ndsparse" in ty:
            o = it.new_obj("ndsparse", 1); o.cells[0] = dict(rows=5, ndim=2, x=G.Ptr(it.array("dx", [F(1)] * 5), 0), i=G.NULL, ranges=G.Ptr(it.array("ranges", [4, 3]), 0)); v = G.Ptr(o, 0); info["data"] = o
        elif ty.replace(" ", "") in ("constdouble*const*",):
            v = G.Ptr(it.array(pname, [G.Ptr(it.array("%s%d" % (pname, k), [F(k)] * 6), 0) for k in range(4)]), 0)
        elif "struct splinetable_buffer" in ty:
            o = it.new_obj("buffer", 1); o.cells[0] = dict(data=(G.NULL if name.startswith("write") else G.Ptr(it.new_obj("bytes", 1), 0)), size=(0 if name.startswith("write") else 5760)); v = G.Ptr(o, 0); info["buffer"] = o
        elif "struct splinetable" in ty:
            o = it.new_obj("handle", 1); tok = G.Ptr(it.new_obj("object", 1), 0); o.cells[0] = dict(data=(G.NULL if name == "splinetable_init" else tok)); v = G.Ptr(o, 0); info["handle"] = o; info["token"] = tok
        elif ty.replace(" ", "") in ("constchar*",): v = G.Ptr(it.array(pname, [ord(c) for c in "KEY"] + [0]), 0)
        elif "splinetable_dtype" in ty: v = variant.get("dtype", 0)
        elif ty.replace(" ", "") in ("void*", "constvoid*"): v = G.Ptr(it.array(pname, [41 if variant.get("dtype", 0) == 0 else F(Fr(5, 2))]), 0)
        elif "*" in ty: v = G.Ptr(it.array(pname, [F(Fr(k + 1, 3)) for k in range(4)] if "double" in ty else [2, 3, 5, 7]), 0)      # pairwise different elements
        elif ty == "bool": v = True
        else: v = {"dim": 1, "knot": 3, "derivatives": 5, "n_knots": 3, "monodim": 1}.get(pname, 2)
        args.append(v); info.setdefault("values", []).append((pname, v))
    return args, info

def run_wrapper(args):
    name, variant = args; t0 = time.time(); out = []
    tag = "%s [%s]" % (name, ", ".join("%s=%s" % kv for kv in sorted(variant.items())) or "operation returns normally")
    def ob(what, ok, detail=""): out.append(("%s: %s" % (tag, what), ok, detail[:400], time.time() - t0))
    try:
        prog, params, fs, rets, throws = PROG
        f = next(x for x in fs if x.name == name)
        it = G.Interp(prog, X14.RatDom()); it.prog_params = params; it.set_global("vp_thrown", 0)
        calls = []; objects = {"constructed": 0, "destroyed": 0}
        SCRIPT = {"uint32_t": 3, "uint64_t": 11, "double": F(Fr(13, 4)), "int": 1, "const char*": G.Ptr(it.array("value", [ord("v"), 0]), 0), "const double*": G.Ptr(it.array("kn", [F(1)]), 0), "const float*": G.Ptr(it.array("co", [F(2)]), 0)}
        def mk(m):
            def h(it_, a):
                calls.append((m, list(a)))
                if m == "destroy_ndsparse": return None
                if m == "destroy":
                    if a[0].obj is not None: objects["destroyed"] += 1
                    return None
                boom = variant.get("throws") == m or (variant.get("throws") == "*" and throws[m])
                if boom and throws[m]: it_.globals["vp_thrown"].cells[0] = 1
                if m in ("construct", "construct_from"):
                    if boom: return G.NULL
                    objects["constructed"] += 1; return G.Ptr(it_.new_obj("object", 1), 0)
                if boom and throws[m]: return {"void": None, "bool": False}.get(rets[m], 0 if not rets[m].endswith("*") and rets[m] != "double" else (G.NULL if rets[m].endswith("*") else F(0)))
                if m == "write_fits_mem":
                    a[1].obj.cells[a[1].off] if False else None
                    H_wr(a[1], G.Ptr(it_.new_obj("membuf", 1), 0)); H_wr(a[2], 8640); return None
                if rets[m] == "bool": return not (variant.get("false") == m)
                if m == "get_ndim": return 3
                return scripted(m)
            return h
        def H_wr(p, v): p.obj.cells[p.off] = v
        PTRS = {}
        def scripted(m):
            """a value that identifies the operation which produced it"""
            k = sum(ord(c) for c in m) % 97 + 2; rt = rets[m]
            if rt == "double": return F(Fr(k, 4))
            if rt.endswith("*"): return PTRS.setdefault(m, G.Ptr(it.array("result_of_" + m, [0]), 0))
            if rt == "int": return 1
            return k
        for m in rets: it.hooks["vp_m_" + m] = mk(m)
        def h_copy(it_, a):
            f_, l_, o_ = a; n = l_.off - f_.off; o_.obj.cells[o_.off:o_.off + n] = f_.obj.cells[f_.off:l_.off]
        it.hooks["vp_copy"] = h_copy
        wargs, info = make_args(it, f.header, name, variant)
        ret = it.call(name, wargs)
        thrown_now = it.globals["vp_thrown"].cells[0]
        ob("O1 no exception escapes", not thrown_now, "the operation threw and the wrapper has no handler: the exception leaves an extern \"C\" function")
        ops = [c for c in calls if c[0] not in ("get_ndim",) or name == "splinetable_ndim"]
        main = [c for c in calls if c[0] not in ("destroy",)]
        threw = variant.get("throws") is not None and any((variant["throws"] in (c[0], "*")) and throws[c[0]] for c in calls)
        failed = threw or any(variant.get("false") == c[0] for c in calls)
        rt = f.ret
        if rt == "int" and name not in ("tablesearchcenters",):
            if failed: ob("O2 a failing operation yields a non-zero status", ret != 0, "returned %r although the operation %s" % (ret, "threw" if threw else "returned false"))
            else: ob("O3 a successful operation yields status 0", ret == 0, "returned %r" % (ret,))
        elif rt == "void":
            pass
        else:
            if threw: ob("O2 a throwing operation yields NULL / no value", (isinstance(ret, G.Ptr) and ret.obj is None) if rt.endswith("*") else True, "returned %r" % (ret,))
            elif main:
                want = scripted(main[-1][0]) if main[-1][0] != "get_ndim" else 3
                same = (ret.obj is want.obj and ret.off == want.off) if isinstance(want, G.Ptr) else ((ret.num == want.num) if isinstance(want, G.FV) else ret == want)
                ob("O3 the operation's value is passed on exactly", same, "returned %r, operation gave %r" % (ret, want))
        if name in CORRESPONDS:
            called = [c[0] for c in calls if c[0] != "destroy" and not (c[0] == "get_ndim" and name in ("splinetable_permute", "splinetable_grideval"))]
            ob("O4 the wrapper calls its corresponding C++ operation (%s) exactly once" % CORRESPONDS[name], called == [CORRESPONDS[name]] or (name == "readsplinefitstable_mem" and called == ["read_fits_mem"]), "operations called: %s" % called)
        # O4: arguments reach the operation unchanged (the object first, then the wrapper's own arguments in order, as far as the operation takes them)
        if main and main[-1][0] not in ("construct", "construct_from", "get_ndim", "destroy_ndsparse"):
            m, a = main[-1]; bad = []
            if not (isinstance(a[0], G.Ptr) and a[0].obj is info["token"].obj): bad.append("the operation is called on another object than the handle's")
            given = [v for (pn, v) in info["values"] if pn not in ("table", "type", "buffer")]
            if m in ("fit", "grideval"): given = []
            passed = a[1:]
            def eq(x, y): return (x.obj is y.obj and x.off == y.off) if isinstance(x, G.Ptr) and isinstance(y, G.Ptr) else (x == y if not isinstance(x, G.FV) else (isinstance(y, G.FV) and x.num == y.num))
            if m in ("read_key", "write_key"):
                if not eq(passed[0], given[0]): bad.append("key not passed on")
            elif m == "permuteDimensions":
                pv = passed[0]; src = given[0]
                if pv.obj.cells[pv.off:pv.off + 3] != src.obj.cells[src.off:src.off + 3] or passed[1] != 3: bad.append("permutation not copied element by element")
            elif m in ("read_fits_mem",):
                b = info["buffer"].cells[0]
                if not (eq(passed[0], b["data"]) and passed[1] == b["size"]): bad.append("buffer pointer / size not passed on")
            elif m == "write_fits_mem": pass
            elif m == "fit":
                g = dict(info["values"]); dd = info["data"].cells[0]; nd_ = dd["ndim"]
                def view(p, k=0): d_ = p.obj.cells[p.off + k]; return d_.get("d"), d_.get("s")
                def arr(p, k): return p.obj.cells[p.off + k]
                chk = [("data", eq(passed[0], g["data"])), ("weights view", eq(view(passed[1])[0], g["weights"]) and view(passed[1])[1] == dd["rows"]),
                       ("coordinate views", passed[3] == nd_ and all(eq(view(passed[2], k)[0], arr(g["coords"], k)) and view(passed[2], k)[1] == arr(dd["ranges"], k) for k in range(nd_))),
                       ("order view", eq(view(passed[4])[0], g["splineOrder"]) and view(passed[4])[1] == nd_),
                       ("knot views", passed[6] == nd_ and all(eq(view(passed[5], k)[0], arr(g["knots"], k)) and view(passed[5], k)[1] == arr(g["nknots"], k) for k in range(nd_))),
                       ("smoothing view", eq(view(passed[7])[0], g["smoothing"]) and view(passed[7])[1] == nd_), ("penalty-order view", eq(view(passed[8])[0], g["penaltyOrder"]) and view(passed[8])[1] == nd_),
                       ("monodim", passed[9] == g["monodim"]), ("verbose", bool(passed[10]) == bool(g["verbose"]))]
                bad += ["%s not passed on as (pointer, length)" % n for n, ok_ in chk if not ok_]
            elif m == "grideval":
                g = dict(info["values"])
                def view(p, k=0): d_ = p.obj.cells[p.off + k]; return d_.get("d"), d_.get("s")
                if passed[1] != 3 or not all(eq(view(passed[0], k)[0], g["coords"].obj.cells[k]) and view(passed[0], k)[1] == g["ncoords"].obj.cells[k] for k in range(3)): bad.append("grid coordinate views are not (coords[i], ncoords[i])")
            else:
                if len(passed) != len(given) or not all(eq(x, y) for x, y in zip(passed, given)): bad.append("arguments %r, wrapper received %r" % (passed, given))
            ob("O4 arguments reach the operation unchanged", not bad, "; ".join(bad))
        if name == "splinetable_grideval":
            cell = info["result"].obj.cells[0]
            if failed: ob("O2 a failing grid evaluation leaves *result NULL", isinstance(cell, G.Ptr) and cell.obj is None, "*result = %r" % (cell,))
            else: ob("O3 the result of the grid evaluation is handed to the caller", isinstance(cell, G.Ptr) and cell.obj is PTRS.get("grideval").obj, "*result = %r" % (cell,))
        if name == "writesplinefitstable_mem" and not failed:
            b = info["buffer"].cells[0]
            ob("O3 the buffer and its size are handed to the caller", isinstance(b["data"], G.Ptr) and b["data"].obj is not None and b["size"] == 8640, "buffer %r size %r" % (b["data"], b["size"]))
        if name == "splinetable_read_key" and not failed:
            pass
    except Exception as ex:
        import traceback
        ob("execution", False, "%s: %s | %s" % (type(ex).__name__, ex, traceback.format_exc()[-250:]))
    return out

def run_lifecycle(seq):
    """init / read / read_mem / free sequences on one handle with scripted construction outcomes"""
    t0 = time.time(); tag = "handle life cycle " + " ; ".join("%s%s" % (s[0], "(throws)" if s[1] else "") for s in seq); bad = []
    try:
        prog, params, fs, rets, throws = PROG
        it = G.Interp(prog, X14.RatDom()); it.prog_params = params; it.set_global("vp_thrown", 0)
        live = set(); destroyed = []; state = {"boom": False}
        def construct(it_, a):
            if state["boom"]: it_.globals["vp_thrown"].cells[0] = 1; return G.NULL
            o = it_.new_obj("object", 1); live.add(id(o)); return G.Ptr(o, 0)
        def destroy(it_, a):
            p = a[0]
            if p.obj is None: return None            # delete of a null pointer is a no-op
            if id(p.obj) not in live: bad.append("an object is destroyed twice (or was never constructed)")
            live.discard(id(p.obj)); destroyed.append(id(p.obj))
        def rfm(it_, a):
            if state["boom"]: it_.globals["vp_thrown"].cells[0] = 1; return False
            return True
        for m in rets: it.hooks["vp_m_" + m] = lambda it_, a: None
        it.hooks.update(vp_m_construct=construct, vp_m_construct_from=construct, vp_m_destroy=destroy, vp_m_read_fits_mem=rfm)
        h = it.new_obj("handle", 1); h.cells[0] = dict(data=G.NULL); hp = G.Ptr(h, 0)
        path = G.Ptr(it.array("path", [ord("p"), 0]), 0); buf = it.new_obj("buffer", 1); buf.cells[0] = dict(data=G.Ptr(it.new_obj("bytes", 1), 0), size=2880)
        for op, boom in seq:
            state["boom"] = boom; it.globals["vp_thrown"].cells[0] = 0
            if op == "init" and h.cells[0]["data"].obj is not None: return []        # splinetable_init is for a handle that holds nothing (it cannot look at uninitialised memory): outside its domain
            if op == "init": r = it.call("splinetable_init", [hp])
            elif op == "read": r = it.call("readsplinefitstable", [path, hp])
            elif op == "read_mem": r = it.call("readsplinefitstable_mem", [G.Ptr(buf, 0), hp])
            elif op == "free": r = it.call("splinetable_free", [hp]); r = 0
            if it.globals["vp_thrown"].cells[0]: bad.append("%s lets an exception escape" % op)
            if boom and op != "free" and r == 0: bad.append("%s reports success although the construction / read threw" % op)
            d = h.cells[0]["data"]
            if op == "free" and d.obj is not None: bad.append("free leaves the handle pointing at the destroyed object")
            if d.obj is not None and id(d.obj) not in live: bad.append("after %s the handle points at a destroyed object" % op)
        d = h.cells[0]["data"]
        stray = live - ({id(d.obj)} if d.obj is not None else set())
        if stray: bad.append("%d object(s) constructed through the handle are no longer reachable from it and were never destroyed (leak)" % len(stray))
        return [(tag, not bad, "; ".join(bad)[:400], time.time() - t0)]
    except Exception as ex:
        return [(tag + " execution", False, "%s: %s" % (type(ex).__name__, ex), time.time() - t0)]

_NATIVE = {}
def native_replay(obligation):
    """two scenarios can be shown on the real C interface: the gradient wrapper on an 8-dimensional table, a read of a missing key"""
    which = "gradient" if obligation.startswith("ndsplineeval_gradient") else ("readkey" if obligation.startswith("splinetable_read_key") and "false=read_key" in obligation else None)
    if which is None: return dict(replayed=False, note="no native scenario for this wrapper / outcome (the operation's failure cannot be forced from outside)")
    if "exe" not in _NATIVE:
        from specs import fitsmodel as M
        wd = vlib.workdir(); exe = os.path.join(wd, "replay_cinter"); R = vlib.REPO
        cmds = ["g++ -std=c++11 -g -O1 -c -I%s/include %s/src/cinter/splinetable.cpp -o %s/cinter.o" % (R, R, wd), "gcc -c -I%s/include %s/tools/replay/replay_cinter.c -o %s/rc.o" % (R, vlib.VERIF, wd),
                "g++ -std=c++11 -I%s/include %s/rc.o %s/cinter.o %s/src/core/*.cpp -lcfitsio -o %s" % (R, wd, wd, R, exe)]
        ok = True
        for c in cmds:
            rc, out, w = vlib.sh(c, timeout=600)
            if rc != 0: ok = False; _NATIVE["err"] = out[-400:]; break
        nd = 8; f8 = M.spline_file(orders=[1] * nd, knots=[[Fr(k) for k in range(4)] for d in range(nd)], coeffs=[Fr(i % 5, 2) for i in range(2 ** nd)], extents=[(Fr(1), Fr(2))] * nd, periods=None, aux=[])
        f1 = M.spline_file(orders=[2], knots=[[Fr(k) for k in range(8)]], coeffs=[Fr(i, 2) for i in range(5)], extents=[(Fr(2), Fr(5))], periods=None, aux=[("SOMEKEY", "1")])
        open(os.path.join(wd, "t8.fits"), "wb").write(f8.to_bytes()); open(os.path.join(wd, "t1.fits"), "wb").write(f1.to_bytes())
        _NATIVE["exe"] = exe if ok else None; _NATIVE["wd"] = wd
    if not _NATIVE["exe"]: return dict(replayed=False, error="native harness does not build: " + _NATIVE.get("err", ""))
    rc, out, w = vlib.sh("timeout -s KILL 60 %s %s %s/%s 2>&1" % (_NATIVE["exe"], which, _NATIVE["wd"], "t8.fits" if which == "gradient" else "t1.fits"), timeout=120)
    return dict(replayed=(rc not in (0, 2)), input="replay_cinter %s <table written by the model>" % which, observed=("exit %d\n" % rc) + out[-1500:], command="tools/replay/replay_cinter.c (plain C program linked against the real C interface)")

def main():
    global PROG
    import multiprocessing as mp
    rep = vlib.Report("C18", level="exploration")
    PROG = build(); prog, params, fs, rets, throws = PROG
    for f in fs: rep.functions.append(f.info())
    tasks = []
    for f in fs:
        if f.name in ("splinetable_free",): continue
        called = sorted(set(re.findall(r"vp_m_(\w+)\(", f.body)) - {"destroy"})
        variants = [dict()]
        for m in called:
            if throws.get(m): variants.append(dict(throws=m))
            if m in BOOL_OPS: variants.append(dict(false=m))
        if "splinetable_dtype" in f.header: variants = [dict(v, dtype=t) for v in variants for t in (0, 1)]
        tasks += [(f.name, v) for v in variants]
    seqs = [s for L in (1, 2, 3) for s in itertools.product([("init", False), ("init", True), ("read", False), ("read", True), ("read_mem", False), ("read_mem", True), ("free", False)], repeat=L)]
    t0 = time.time()
    with mp.Pool(min(vlib.NCORES, 12)) as pool:
        r1 = pool.map(run_wrapper, tasks, chunksize=4); ta = time.time() - t0; tb0 = time.time()
        r2 = pool.map(run_lifecycle, seqs, chunksize=16); tb = time.time() - tb0
    for nm, res, wall, bnd in (("C18-wrappers", r1, ta, "%d (wrapper, outcome of the operation it calls) pairs over %d wrappers" % (len(tasks), len(fs))), ("C18-handle-lifecycle", r2, tb, "all sequences of length <= 3 over init / read / read_mem (each succeeding or throwing) / free on one handle")):
        flat = [o for r in res for o in r]
        rep.add_group("E3 execution of the GOTO program of the extracted C wrappers against scripted contracts of the C++ operations (BOUNDED)", len(flat), sum(1 for o in flat if o[1]), wall, bounded=bnd, name=nm)
        for o in flat:
            if not o[1]: rep.add_violation(nm, o[0].replace(" ", "_")[:170], o[0][:300] + ": " + o[2], trace=o[2], replay=native_replay(o[0]))
        rep.samples += [o[0][:160] for o in flat[:2]]
    rep.extra["evaluations"] = len(tasks) + len(seqs); rep.extra["distinct_nontrivial"] = len([t for t in tasks if t[1]]) + len([s for s in seqs if len(s) > 1])
    rep.extra["rule"] = "one evaluation = one wrapper call with one scripted outcome of the C++ operation, or one handle life-cycle sequence; non-trivial = the operation fails, or the sequence has at least two calls"
    rep.extra["may_throw"] = {m: bool(v) for m, v in sorted(throws.items())}
    rep.assume("PARTIAL / MODULAR: the C++ operations are assumed contracts (return a value or - if their text contains a throw statement or an allocation - throw); what they compute and whether THEY leak is C01-C20, not decided here",
               "call sequences over several handles are not needed because a wrapper touches only its own handle (checked: the operation is called on the handle's object)",
               "which operations may throw is decided by a text scan of their definitions in the headers (throw, new, allocate<T>, std::vector/string/stringstream/unique_ptr/make_pair, malloc); an operation classified no-throw is never made to throw",
               "exceptions are a ghost flag (R7 / R22d): the `catch(std::exception&)` handler is the one modelled (every exception the operations throw derives from std::exception; its message to stderr is dropped), `catch(...)` is not")
    rep.trust("tools/gotoexec.py", "goto-cc front end", "tools/extract.py rules")
    rep.finish(None)

if __name__ == "__main__":
    main()
