"""C02(c) / C03(4) / C05(gradient refusal): SIMD multibasis cores and the gradient drivers.
(i) every lane of the generic multibasis core == the tensor-sum term built from that lane's basis values
(ii) every specialised multibasis core == generic multibasis core (term identity, all lanes)
(iii) gradient drivers: lane 0 <- value basis, lane 1+d <- derivative basis in dimension d only; accumulators
      zeroed; outputs copied; tables with ndim+1 > PHOTOSPLINE_MAXDIM refused before anything is written
(iv) value outputs of bspline_nonzero are term-identical to bsplvb_simple's (so lane 0 == plain value)"""
import sys, os, time, itertools, multiprocessing as mp
from fractions import Fraction
from tools import vlib, units, gotoexec as G, e3lib as E, e3cores as EC
from specs import table as T
import c01
PROGS = c01.PROGS
NL = 4   # lanes per vector

def vprog(name, Float, tag="", **kw):
    e = units.vector_core(name, **kw)
    text = T.PRELUDE + "#define Float %s\n" % Float + units.simd_prelude() + e.full_text
    prog = G.Program.compile(text, vlib.workdir(), "vcore_%s_%s%s" % (e.name, Float, tag), cc_flags=["-U__ELF__"])
    return prog, {e.name: E.param_names(e.header, e.name)}, e

def run_vcore(prog, params, fname, dom, orders, naxes, centers, nvecs):
    it = G.Interp(prog, dom); it.prog_params = params; it.hooks["__builtin_expect"] = lambda it, a: a[0]
    nd = len(orders); maxdeg = max(orders) + 1
    strides = EC.setup_table(it, orders, naxes)
    # localbasis[n][i] -> row of nvecs vectors; pointer tables as in the gradient driver
    store = it.array("lbstore", [None] * (nd * maxdeg * nvecs * NL))
    rowptr = it.array("rowptr", [None] * (nd * maxdeg)); top = it.array("lbptr", [None] * nd)
    for d in range(nd):
        for i in range(maxdeg):
            base = ((d * maxdeg) + i) * nvecs * NL
            for l in range(nvecs * NL):
                store.cells[base + l] = it.fsym("b%d_%d_L%d" % (d, i, l), 1) if i <= orders[d] else None
            rowptr.cells[d * maxdeg + i] = G.Ptr(store, base)
        top.cells[d] = G.Ptr(rowptr, d * maxdeg)
    acc = it.array("acc", [it.fconst(0)] * (nvecs * NL))
    co = it.array("centers", list(centers))
    it.call(fname, [G.Ptr(co, 0), G.Ptr(top, 0), G.Ptr(acc, 0)])
    return acc.cells, strides

def vcase(args):
    Float, vname, kw, orders, naxes, centers = args; t0 = time.time()
    tag = "%s %s%s orders=%s naxes=%s centers=%s" % (Float, vname, dict(kw), list(orders), list(naxes), list(centers))
    try:
        dom = G.TermDom(); nd = len(orders)
        gp, gparams, gname = PROGS["vcore_" + Float]
        nvecs_generic = 2
        r0, strides = run_vcore(gp, gparams, gname, dom, orders, naxes, centers, nvecs_generic)
        res = []
        if vname is None:
            bad = []
            for l in range(min(nd + 1, nvecs_generic * NL)):
                sp = EC.spec_term(dom, orders, centers, strides, lbname=lambda d, i, l=l: "b%d_%d_L%d" % (d, i, l))
                if r0[l].sym != sp: bad.append("lane %d" % l)
            return [(tag + " multibasis core lanes == tensor sum of that lane's basis (term identity)", not bad, ", ".join(bad), time.time() - t0)]
        vp, vparams, vn = PROGS["vvariant_%s_%s_%s" % (Float, vname, sorted(kw.items()))]
        vc = (nd + 1 + NL - 1) // NL
        r1, _ = run_vcore(vp, vparams, vn, dom, orders, naxes, centers, vc)
        bad = ["lane %d" % l for l in range(nd + 1) if r0[l].sym != r1[l].sym]
        return [(tag + " == generic multibasis core on lanes 0..ndim (term identity)", not bad, ", ".join(bad), time.time() - t0)]
    except Exception as ex:
        return [(tag + " execution [%s]" % str(ex)[:70], False, "%s: %s" % (type(ex).__name__, ex), time.time() - t0)]

def gradient_case(args):
    Float, which, orders = args; t0 = time.time(); nd = len(orders)
    tag = "%s %s ndsplineeval_gradient orders=%s" % (Float, which, list(orders))
    try:
        prog, params = PROGS["grad_" + Float]
        dom = G.TermDom(); it = G.Interp(prog, dom); it.prog_params = params; it.hooks["__builtin_expect"] = lambda it, a: a[0]
        nks = [2 * o + 3 for o in orders]; naxes = [nk - o - 1 for nk, o in zip(nks, orders)]
        EC.setup_table(it, orders, naxes)
        kobjs = [it.array("knots%d" % d, [it.fsym("t%d_%d" % (d, m), m) for m in range(-orders[d], nks[d] + orders[d])]) for d in range(nd)]
        it.set_global("knots", G.Ptr(it.array("knots", [G.Ptr(kobjs[d], orders[d]) for d in range(nd)]), 0))
        it.set_global("nknots", G.Ptr(it.array("nknots", nks), 0)); it.set_global("vp_thrown", 0)
        centers = [o for o in orders]; xs = [it.fsym("x%d" % d, centers[d] + Fraction(1, 2)) for d in range(nd)]
        xo = it.array("x", xs); co = it.array("centers", centers); ev = it.array("evaluates", [None] * (nd + 1))
        log = []; MAXDIM = 8
        def h_nz(it_, a):
            d = len([1 for l in log if l[0] == "NZ"]); log.append(("NZ", a))
            for j in range(a[4] + 1):
                a[5].obj.cells[a[5].off + j] = it_.fsym("v%d_%d" % (d, j), 1); a[6].obj.cells[a[6].off + j] = it_.fsym("g%d_%d" % (d, j), 1)
        def h_core(it_, a):
            log.append(("CORE", a, [list(c.obj.cells) for c in [a[2]]]))
            lbp, accp = a[1], a[2]; bad = []
            for l in range(nd + 1):
                if not (isinstance(accp.obj.cells[accp.off + l], G.FV) and accp.obj.cells[accp.off + l].num == 0): bad.append("accumulator lane %d not zeroed" % l)
            for d in range(nd):
                rows = lbp.obj.cells[lbp.off + d]
                for i in range(orders[d] + 1):
                    row = rows.obj.cells[rows.off + i]
                    for l in range(nd + 1):
                        got = row.obj.cells[row.off + l]
                        want = "g%d_%d" % (d, i) if l == d + 1 else "v%d_%d" % (d, i)
                        if not (isinstance(got, G.FV) and got.sym == dom.symbol(want)): bad.append("localbasis[%d][%d] lane %d is not %s" % (d, i, l, want))
            log.append(("LANES", bad))
            for l in range(nd + 1): accp.obj.cells[accp.off + l] = it_.fsym("r%d" % l, 1)
        it.hooks["bspline_nonzero"] = h_nz; it.hooks["ndsplineeval_multibasis_core"] = h_core; it.hooks["vp_call_vcore"] = h_core
        it.call("ev_ndsplineeval_gradient" if which == "evaluator" else "ndsplineeval_gradient", [G.Ptr(xo, 0), G.Ptr(co, 0), G.Ptr(ev, 0)])
        thrown = it.lookup("vp_thrown").cells[0]
        bad = []
        if nd + 1 > MAXDIM:
            if not thrown: bad.append("a table with ndim+1 > PHOTOSPLINE_MAXDIM was not refused")
            if log or any(c is not None for c in ev.cells): bad.append("something was computed or written before the refusal")
        else:
            if thrown: bad.append("refused although ndim+1 <= PHOTOSPLINE_MAXDIM")
            nz = [l for l in log if l[0] == "NZ"]
            if len(nz) != nd: bad.append("bspline_nonzero called %d times" % len(nz))
            for d, l in enumerate(nz):
                a = l[1]
                if not (a[0].obj is kobjs[d] and a[0].off == orders[d] and a[1] == nks[d] and a[2].sym == xs[d].sym and a[3] == centers[d] and a[4] == orders[d]): bad.append("dim %d: wrong arguments to bspline_nonzero" % d)
            lanes = [l for l in log if l[0] == "LANES"]
            if len(lanes) != 1: bad.append("multibasis core called %d times" % len(lanes))
            else: bad += lanes[0][1][:4]
            for l in range(nd + 1):
                if not (isinstance(ev.cells[l], G.FV) and ev.cells[l].sym == dom.symbol("r%d" % l)): bad.append("evaluates[%d] is not accumulator lane %d" % (l, l))
        return [(tag + " lane layout / refusal", not bad, "; ".join(bad)[:400], time.time() - t0)]
    except Exception as ex:
        return [(tag + " execution [%s]" % str(ex)[:70], False, "%s: %s" % (type(ex).__name__, ex), time.time() - t0)]

def nz_vs_simple(args):
    Float, k, n, cell = args; t0 = time.time()
    tag = "%s k=%d n=%d cell=%s%d" % (Float, k, n, cell[0], cell[1])
    try:
        prog, params = PROGS["1d_" + Float]
        sh = E.Shape(k, n); dom = G.TermDom()
        tb = E.Table1D(prog, params, dom, sh, sh.x_witness(cell)); it = tb.it
        ok, c = tb.lookup()
        bo = it.array("biatx", [None] * (k + 1)); vo = it.array("values", [None] * (k + 1)); do = it.array("derivs", [None] * (k + 1))
        it.call("bsplvb_simple", [tb.kptr, n, tb.x, c, k + 1, G.Ptr(bo, 0)])
        it.call("bspline_nonzero", [tb.kptr, n, tb.x, c, k, G.Ptr(vo, 0), G.Ptr(do, 0)])
        bad = ["j=%d" % j for j in range(k + 1) if bo.cells[j].sym != vo.cells[j].sym]
        res = [(tag + " bspline_nonzero.values term-identical to bsplvb_simple", not bad, ", ".join(bad), time.time() - t0)]
        if k >= 1:
            d1 = it.array("d1", [None] * (k + 1)); it.call("bspline_deriv_nonzero", [tb.kptr, n, tb.x, c, k, G.Ptr(d1, 0)])
            bad = ["j=%d" % j for j in range(k + 1) if d1.cells[j].sym != do.cells[j].sym]
            res.append((tag + " bspline_nonzero.derivs term-identical to bspline_deriv_nonzero", not bad, ", ".join(bad), time.time() - t0))
        return res
    except Exception as ex:
        return [(tag + " execution [%s]" % str(ex)[:70], False, "%s: %s" % (type(ex).__name__, ex), time.time() - t0)]

def build_grad_program(Float):
    g1 = units.gradient_driver(False); g2 = units.gradient_driver(True)
    protos = ("void bspline_nonzero(const double* knots, const unsigned nknots, const double x, int left, const int n, Float* values, Float* derivs);\n"
              "void ndsplineeval_multibasis_core(const int* centers, const VP_SIMD_T*** localbasis, VP_SIMD_T* result);\n"
              "void vp_call_vcore(const int* centers, const VP_SIMD_T*** localbasis, VP_SIMD_T* result);\n")
    text = T.PRELUDE + "#define Float %s\n" % Float + units.simd_prelude() + units.VP_HELPERS + protos + g1.text(None) + g2.text(None)
    prog = G.Program.compile(text, vlib.workdir(), "grad_" + Float, cc_flags=["-U__ELF__"])
    params = {g.name: E.param_names(g.header, g.name) for g in (g1, g2)}; params["vp_max_u32"] = ["vp_max_u32::p", "vp_max_u32::n"]
    return prog, params, [g1, g2]

def add(rep, thorough):
    import c03
    units.check_vector_count_helper()
    tasks = []; gtasks = []; ntasks = []
    for Float in ("float", "double"):
        gp, gparams, ge = vprog("ndsplineeval_multibasis_core", Float); PROGS["vcore_" + Float] = (gp, gparams, ge.name)
        pp, pparams, gs = build_grad_program(Float); PROGS["grad_" + Float] = (pp, pparams)
        if ("1d_" + Float) not in PROGS:
            p1, par1, _ = E.build_1d_program(Float); PROGS["1d_" + Float] = (p1, par1)
        if Float == "float": rep.functions += [ge.info()] + [g.info() for g in gs]
        for orders in [(2,), (0, 3), (1, 2, 3), (2, 2, 2, 3, 2, 2), (1, 0, 2, 1, 0, 1, 2)]:
            if len(orders) == 7 and not thorough: orders = (1, 0, 1, 1, 0, 1, 1)
            for naxes, centers in EC.shapes_for(orders)[1:3]: tasks.append((Float, None, {}, orders, tuple(naxes), tuple(centers)))
        for vname, kw, orderlists in c03.variants(thorough):
            if "D" in kw and kw["D"] > 7: continue            # gradients exist for ndim <= 7
            mname = vname.replace("ndsplineeval_core", "ndsplineeval_multibasis_core")
            tagk = "_".join("%s%s" % (k, "".join(map(str, v)) if isinstance(v, tuple) else v) for k, v in sorted(kw.items()))
            vp, vparams, ve = vprog(mname, Float, tag="_" + tagk, cname=mname + "_" + tagk, **kw)
            PROGS["vvariant_%s_%s_%s" % (Float, mname, sorted(kw.items()))] = (vp, vparams, ve.name)
            if Float == "float": rep.functions.append(ve.info())
            for orders in orderlists:
                shapes = EC.shapes_for(orders)
                shapes = shapes[1:2] + shapes[3:4] if len(orders) < 7 else shapes[3:4]
                for naxes, centers in shapes: tasks.append((Float, mname, kw, orders, tuple(naxes), tuple(centers)))
        for which in ("member", "evaluator"):
            for orders in [(2,), (0, 3), (2, 1, 3), (1, 1, 1, 1), (2, 2, 2, 3, 2, 2), (1, 0, 1, 2, 1, 0, 1), (1,) * 8, (0,) * 9]:
                gtasks.append((Float, which, orders))
        for k in range(0, 4 if not thorough else 5):
            for n in (2 * k + 2, 2 * k + 4):
                for cell in E.cells(n, k): ntasks.append((Float, k, n, cell))
    t0 = time.time()
    with mp.Pool(min(vlib.NCORES, 16)) as pool:
        rv = pool.map(vcase, tasks, chunksize=1); tv = time.time() - t0; t1 = time.time()
        rg = pool.map(gradient_case, gtasks, chunksize=1); tg = time.time() - t1; t2 = time.time()
        rn = pool.map(nz_vs_simple, ntasks, chunksize=2); tn = time.time() - t2
    for name, results, backend, wall in (("C03-simd-cores", rv, "E3-term (free-term identity over the GOTO program, per SIMD lane)", tv),
                                         ("C03-gradient-drivers", rg, "E3 (lane layout / refusal, executed from the GOTO program, callees hooked)", tg),
                                         ("C03-nonzero-vs-simple", rn, "E3-term (free-term identity over the GOTO program)", tn)):
        flat = [o for r in results for o in r]
        rep.add_group(backend, len(flat), sum(1 for o in flat if o[1]), wall, bounded="integer shape enumerated; all floating-point inputs opaque symbols", name=name)
        for o in flat:
            if not o[1]: rep.add_violation(name, o[0].replace(" ", "_"), o[0] + ": " + o[2], trace=o[2])
        rep.samples += [o[0] for o in flat[:2]]
    rep.assume("SIMD: GCC vector_size types as compiled by CBMC's front end; R8 simd_vector::init transcribed as 'a = b - (T){0}' and its text in simd.h checked; inline asm stack re-alignment dropped (-U__ELF__)",
               "TermDom applies exactly one law: x - (+0) == x (bit-exact in IEEE arithmetic), needed because simd init broadcasts through a subtraction of zero",
               "R7: 'throw std::runtime_error' modelled as setting a ghost flag and returning immediately")
