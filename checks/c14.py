#!/usr/bin/env python3
"""C14 (partial): convolution normalisation and memory safety of the blossom routines."""
import sys, os, re
sys.path.insert(0, os.path.dirname(os.path.dirname(os.path.abspath(__file__))))
from tools import vlib, units, extract as X
from specs import convolve as C

def jobs(thorough):
    fa = units.free_function(units.CONVOLVE_CPP, "factorial")
    dv = units.free_function(units.CONVOLVE_CPP, "divdiff")
    cb = units.free_function(units.CONVOLVE_CPP, "convoluted_blossom")
    # extra rule for convoluted_blossom: std::vector<double> v(n) -> VLA, .data() dropped
    r = X.Rules()
    cb.body = r.sub("R13_vector_to_vla", r"std::vector<double>\s+fun_x\(nx\),\s*fun_y\(ny\);", "double fun_x[nx], fun_y[ny];", cb.body, must_fire=True)
    cb.body = r.sub("R13_data", r"\.data\(\)", "", cb.body, must_fire=True)
    cb.rule_counts.update(r.counts)
    slice_src, slice_fn = C.norm_slice(units.src("include/photospline/detail/convolve.h"))
    js = []
    tu = C.PRELUDE + C.factorial_contract(True) + fa.text(None) + "void h_factorial(void){ unsigned n; factorial(n); __CPROVER_assert(0, \"canary: reachable after call\"); }\n"
    js.append(vlib.Job("C14-factorial", tu, "h_factorial", enforce="factorial", loop_contracts=False, unwind_fns=[("factorial", 14)],
                       expect_fail=[r"^h_factorial\.assertion\.1$", r"^factorial\.postcondition\.[23]$"], must_have=[r"factorial\.postcondition\.1", r"factorial.*unwind"],
                       timeout=600, backend="cbmc-sat-contracts+unwind(operand-bounded)", note="whole overflow-free domain n<=12; loop unwound 14 with unwinding assertion: complete on that domain"))
    tu = C.PRELUDE + C.factorial_contract(False) + C.norm_contract(6, 6) + slice_fn + "void h_norm(void){ const uint32_t* order; uint32_t dim; size_t n; vp_norm_slice(order, dim, n); __CPROVER_assert(0, \"canary: reachable after call\"); }\n"
    js.append(vlib.Job("C14-norm-slice", tu, "h_norm", enforce="vp_norm_slice", replace=["factorial"], loop_contracts=False,
                       expect_fail=[r"^h_norm\.assertion\.1$", r"^vp_norm_slice\.postcondition\.[23]$"], must_have=[r"factorial\.precondition", r"vp_norm_slice\.postcondition\.1"],
                       timeout=1200, backend="cbmc-sat-contracts", note="slice of splinetable::convolve (text from 'const uint32_t k = order[dim] + 1;' up to the allocation of the new coefficient array), factorial replaced by its contract; k<=6, q<=6"))
    NMAX = 8 if not thorough else 12
    tu = C.PRELUDE + C.divdiff_contract(NMAX) + dv.text(None) + r'''
void* malloc(size_t);
void h_divdiff(void){ size_t sx, sy, n; __CPROVER_assume(sx <= 64 && sy <= 64); double* x = malloc(sx*8); double* y = malloc(sy*8); divdiff(x, y, n); __CPROVER_assert(0, "canary: reachable after call"); }
'''
    js.append(vlib.Job("C14-divdiff", tu, "h_divdiff", enforce_rec="divdiff", loop_contracts=False, expect_fail=[r"^h_divdiff\.assertion\.1$"],
                       must_have=[r"divdiff\.precondition"], timeout=600, backend="cbmc-sat-contracts", note="recursion closed by --enforce-contract-rec; termination of the recursion not proved (no decreases for recursion in CBMC)"))
    tu = C.PRELUDE + C.divdiff_contract(NMAX) + C.blossom_contract(NMAX) + cb.text(C.blossom_loops()) + \
         "void h_blossom(void){ const double *x, *y, *bags; size_t nx, ny, nbags; double z; convoluted_blossom(x, nx, y, ny, z, bags, nbags); __CPROVER_assert(0, \"canary: reachable after call\"); }\n"
    js.append(vlib.Job("C14-convoluted_blossom", tu, "h_blossom", enforce="convoluted_blossom", replace=["divdiff"], expect_fail=[r"^h_blossom\.assertion\.1$"],
                       must_have=[r"divdiff\.precondition", "loop_invariant_step"], timeout=900, split=8, backend="cbmc-sat-contracts",
                       note="divdiff replaced by its contract; loops closed by invariants; nx,ny<=%d" % NMAX))
    return [fa, dv, cb], slice_src, js

def replay_convolve(v):
    """transfer matrix / normalisation: convolve all-ones tables of order 0..5 through the real library"""
    from tools import native
    exe = native.build_driver("replay_convolve", ["src/core/bspline.cpp", "src/core/convolve.cpp", "src/core/fitsio.cpp"], sanitize=False)
    outs = []; bad = False
    for o in range(6):
        rc, out, w = vlib.sh("%s %d" % (exe, o), timeout=120)
        outs.append(out.strip().splitlines()[0] if out.strip() else "rc=%d" % rc); bad = bad or rc != 0
    return dict(replayed=bad, input="1-D all-ones tables of order 0..5 convolved with the 3-knot kernel {-0.4, 0.1, 0.7}", driver="tools/replay/replay_convolve.cpp (real splinetable::convolve)", observed=outs)

def replayer(v):
    """factorial: run the real function natively over its whole small domain; everything else: real convolve()"""
    if "factorial" not in v["job"]: return replay_convolve(v)
    exe = os.path.join(vlib.workdir(), "replay_factorial")
    src = os.path.join(vlib.workdir(), "replay_factorial.cpp")
    with open(src, "w") as f:
        f.write('#include <cstdio>\nnamespace photospline{ unsigned int factorial(unsigned int); }\n'
                'int main(){ unsigned t[13]={%s}; int bad=0; for(unsigned n=0;n<=12;n++){ unsigned r=photospline::factorial(n); if(r!=t[n]){ std::printf("factorial(%%u) = %%u, expected %%u\\n",n,r,t[n]); bad=1; } } std::printf(bad?"REPLAY: VIOLATION CONFIRMED\\n":"REPLAY: no violation observed\\n"); return bad?3:0; }\n' % ", ".join(str(x) for x in C.FACT))
    rc, out, w = vlib.sh("g++ -O1 -I%s/include %s %s/src/core/convolve.cpp -o %s" % (vlib.REPO, src, vlib.REPO, exe), timeout=300)
    if rc != 0: return dict(replayed=False, error=out[-500:])
    rc, out, w = vlib.sh("timeout 120 " + exe, timeout=130)
    return dict(replayed=rc != 0, input="factorial(n) for n = 0..12 (n = 0 is used for an order-0 dimension: k-1 = 0)", exit_code=rc, observed=out[:1500],
                driver="generated replay_factorial.cpp linked against src/core/convolve.cpp")

if __name__ == "__main__":
    fns, slice_src, js = jobs(vlib.TIER == "thorough")
    vlib.run_jobs(js, nproc=4)
    rep = vlib.Report("C14"); rep.add_jobs(js)
    import c14_exact
    c14_exact.add(rep, vlib.TIER == "thorough")
    for f in fns: rep.functions.append(f.info())
    rep.functions.append(dict(function="splinetable::convolve [normalisation slice]", file="include/photospline/detail/convolve.h", sha_extracted=X.sha(slice_src), rules_fired={"slice": 1}))
    rep.assume("PARTIAL: decided are factorial on n<=12, the normalisation value, memory safety of divdiff/convoluted_blossom (contracts), and - by exact rational execution of the extracted code against an exact piecewise-polynomial oracle on enumerated shapes - that the transfer-matrix entries norm*convoluted_blossom reproduce the true convolution with the unit-area kernel",
               "the body of splinetable::convolve outside the slice (knot merge/sort, storage replacement, extents, transfer-matrix application) is C++ outside reach: assumed",
               "extraction R13: std::vector<double> v(n) -> VLA, .data() dropped (convoluted_blossom)",
               "machine arithmetic: the slice postcondition is bit-exact IEEE (one division of exactly representable integers)")
    rep.trust("cbmc 6.11.0 / goto-instrument --dfcc", "MiniSat")
    rep.finish(replayer)
