#!/usr/bin/env python3
"""C07: reading any input either fails cleanly (object empty, reusable, destructible, nothing leaked) or yields a
well-formed table.

read_fits_core (fitsio.h) and ~splinetable (splinetable.h) are extracted mechanically (rules R1,R4,R7,R16-R18,R20,R26)
and executed from CBMC's GOTO program against a model of cfitsio (specs/fitsmodel.py: assumed contract) over spline
files in the documented layout and files obtained from them by header-card edits, dropped / reordered / resized
extensions, bad knot data and foreign images.  Postcondition of the reader, taken from the property:
  success  => per dimension naxes == nknots - order - 1 >= order + 1, knots finite and non-decreasing, strides /
              coefficient / knot / extent arrays sized as the header says and fully initialised
              (exactly the precondition under which C04/C05 prove lookup and evaluation memory-safe)
  failure  => ndim == 0 (empty, so a later read is not refused), the destructor runs without a memory error and every
              block obtained from the allocator has been returned
The model's answers are compared with the installed cfitsio on every explored file (native probe), and every
violation is replayed by reading the same bytes with the real library under ASan/UBSan.
NOT covered: byte flips / truncation below the card level (cfitsio's own parsing), tables (non-image HDUs), allocation failure."""
import sys, os, time, json, itertools, random, multiprocessing as mp
sys.path.insert(0, os.path.dirname(os.path.dirname(os.path.abspath(__file__))))
from fractions import Fraction as Fr
from tools import vlib, units, gotoexec as G, e3lib as E, fitshooks as H
from specs import fitsmodel as M
PROG = None; CONSTS = None

# ------------------------------------------------------------------ files
def base_tables(thorough):
    out = []
    shapes = [((2,), (8,)), ((0,), (3,)), ((1, 2), (5, 7)), ((3, 0, 1), (9, 4, 6)), ((2, 2), (6, 9))]
    if thorough: shapes += [((1,), (4,)), ((3,), (8,)), ((2, 1), (7, 4)), ((0, 0), (2, 3)), ((1, 1, 1, 1), (4, 5, 4, 6)), ((2, 3, 1), (6, 9, 5)), ((5,), (13,))]
    for si, (orders, nks) in enumerate(shapes):
        nd = len(orders)
        knots = []
        for d in range(nd):
            t = [Fr(d - 2, 3)]
            for m in range(1, nks[d]): t.append(t[-1] + Fr(1 + ((m + d) * (m + 1)) % 3, 2))
            knots.append(t)
        naxes = [nks[d] - orders[d] - 1 for d in range(nd)]; n = 1
        for a in naxes: n *= a
        coeffs = [Fr(((i * 7 + 3) % 11) - 4, 4) for i in range(n)]
        ext = [(knots[d][orders[d]], knots[d][naxes[d]]) for d in range(nd)]
        aux = [("GEOMETRY", 2 + si), ("LONGER KEY NAME", "some text")][:si % 3]
        out.append(("shape%d orders=%s nknots=%s" % (si, list(orders), list(nks)), dict(orders=list(orders), knots=knots, coeffs=coeffs, extents=ext, periods=[0.0] * nd if si % 2 else None, aux=aux)))
    return out

def edits(desc):
    """(label, expectation, function Fits->Fits); expectation: 'valid' (must load and equal the table), 'any' (judged by the postcondition only)"""
    o = desc["orders"]; nd = len(o); nk = [len(k) for k in desc["knots"]]; naxes = [nk[d] - o[d] - 1 for d in range(nd)]
    E_ = []
    def ed(label, fn, expect="any"): E_.append((label, expect, fn))
    ed("unchanged", lambda f: f, "valid")
    def legacy(f):
        f.hdus[0].cards = [c for c in f.hdus[0].cards if not c.startswith("PERIOD")]; f.hdus = [h for h in f.hdus if not any(c.startswith("EXTNAME = 'EXTENTS") for c in h.cards)]; return f
    ed("legacy: no PERIOD keys, no EXTENTS extension", legacy, "valid")
    if len(set(o)) == 1:
        def single(f):
            h = f.hdus[0]; h.cards = [c for c in h.cards if not c.startswith("ORDER")] + [M.card("ORDER", o[0])]; return f
        ed("legacy: single ORDER key", single, "valid")
    for d in range(nd):
        for lab, val in (("0", 0), ("+1", o[d] + 1), ("+3", o[d] + 3), ("nknots", nk[d]), ("huge", 4000000000), ("-1", -1), ("2.5", ("raw", "%20s" % "2.5")), ("string", "2"), ("logical", True), ("blank", ("raw", ""))):
            if val == o[d]: continue
            ed("ORDER%d = %s" % (d, lab), (lambda d, val: lambda f: (M.replace_card(f.hdus[0], "ORDER%d" % d, M.card("ORDER%d" % d, val)), f)[1])(d, val))
        ed("ORDER%d deleted" % d, (lambda d: lambda f: (M.replace_card(f.hdus[0], "ORDER%d" % d, None), f)[1])(d))
        # knot extension edits
        def knot_hdu(f, d): return next(h for h in f.hdus if any(c.startswith("EXTNAME = 'KNOTS%d" % d) for c in h.cards))
        for lab, delta in (("-1", -1), ("+2", 2), ("-order-1", -o[d] - 1)):
            n2 = nk[d] + delta
            if n2 < 1 or delta == 0: continue
            def resize(f, d=d, n2=n2):
                h = knot_hdu(f, d); data = (h.data + [h.data[-1] + k + 1 for k in range(8)])[:n2]; M.set_axes(h, [n2], data); return f
            ed("KNOTS%d resized %s" % (d, lab), resize)
        ed("KNOTS%d dropped" % d, lambda f, d=d: (f.hdus.remove(knot_hdu(f, d)), f)[1])
        ed("KNOTS%d with zero axes" % d, lambda f, d=d: (M.set_axes(knot_hdu(f, d), [], []), f)[1])
        ed("KNOTS%d of length 0" % d, lambda f, d=d: (M.set_axes(knot_hdu(f, d), [0], []), f)[1])
        ed("KNOTS%d two-dimensional" % d, lambda f, d=d: (lambda h: (M.set_axes(h, [nk[d], 2], h.data + h.data), f)[1])(knot_hdu(f, d)))
        ed("KNOTS%d stored as float" % d, lambda f, d=d: (M.set_bitpix(knot_hdu(f, d), -32), f)[1], "valid")
        ed("KNOTS%d EXTNAME in lower case" % d, lambda f, d=d: (M.replace_card(knot_hdu(f, d), "EXTNAME", M.card("EXTNAME", "knots%d" % d)), f)[1], "valid")
        for lab, fn in (("unsorted", lambda t: t[:1] + [t[2], t[1]] + t[3:] if len(t) > 2 else t[::-1]), ("NaN", lambda t: t[:-1] + ["nan"]), ("inf", lambda t: t[:-1] + ["inf"]), ("-inf first", lambda t: ["-inf"] + t[1:]), ("all equal", lambda t: [t[0]] * len(t))):
            if nk[d] < 2: continue
            ed("KNOTS%d data %s" % (d, lab), lambda f, d=d, fn=fn: (lambda h: (setattr(h, "data", fn(h.data)), f)[1])(knot_hdu(f, d)), "valid" if lab == "all equal" else "any")
    # consistent but under-sized tables: every header agrees, yet a dimension has fewer than order+1 coefficients
    for d in range(nd):
        for lab, n2 in (("naxes = order", 2 * o[d] + 1), ("naxes = 1", o[d] + 2), ("naxes = order-1", 2 * o[d])):
            if n2 >= 2 * o[d] + 2 or n2 < o[d] + 2 or n2 > nk[d]: continue
            def shrink(f, d=d, n2=n2):
                kn = [list(k) for k in desc["knots"]]; kn[d] = kn[d][:n2]; na = [len(kn[e]) - o[e] - 1 for e in range(nd)]; n = 1
                for a in na: n *= a
                return M.spline_file(orders=list(o), knots=kn, coeffs=[Fr(i % 5, 2) for i in range(n)], extents=None, periods=None, aux=())
            ed("dimension %d consistently shrunk to %s" % (d, lab), shrink)
    # coefficient image edits
    if nd >= 2 and naxes[0] != naxes[-1]:
        ed("coefficient axes swapped", lambda f: (M.set_axes(f.hdus[0], list(reversed(f.hdus[0].axes))), f)[1])
    if nd >= 2:
        ed("coefficient image reshaped", lambda f: (lambda h: (M.set_axes(h, [h.npix()] + [1] * (nd - 1)), f)[1])(f.hdus[0]))
    ed("coefficient image one axis longer", lambda f: (lambda h: (M.set_axes(h, [h.axes[0] + 1] + h.axes[1:], h.data + [Fr(0)] * (h.npix() // h.axes[0])), f)[1])(f.hdus[0]))
    if naxes[-1] > 1: ed("coefficient image one axis shorter", lambda f: (lambda h: (M.set_axes(h, [h.axes[0] - 1] + h.axes[1:], h.data[:(h.npix() // h.axes[0]) * (h.axes[0] - 1)]), f)[1])(f.hdus[0]))
    ed("coefficient image with an empty axis", lambda f: (M.set_axes(f.hdus[0], [0] + f.hdus[0].axes[1:], []), f)[1])
    ed("coefficient image with an extra axis", lambda f: (M.set_axes(f.hdus[0], f.hdus[0].axes + [1]), f)[1])
    if nd >= 2: ed("coefficient image with one axis less", lambda f: (lambda h: (M.set_axes(h, [h.axes[0] * h.axes[1]] + h.axes[2:]), f)[1])(f.hdus[0]))
    ed("primary HDU without data (NAXIS = 0)", lambda f: (M.set_axes(f.hdus[0], [], []), f)[1])
    for bp in (-64, 32, 16): ed("coefficient image BITPIX = %d" % bp, lambda f, bp=bp: (setattr(f.hdus[0], "data", [Fr(int(v)) for v in f.hdus[0].data]) if bp > 0 else None, M.set_bitpix(f.hdus[0], bp), f)[2], "any")
    ed("coefficients NaN / inf / -0", lambda f: (setattr(f.hdus[0], "data", (["nan", "inf", "-inf", "-0"] * len(f.hdus[0].data))[:len(f.hdus[0].data)]), f)[1], "valid")
    # extension order / extents
    ed("extensions reversed", lambda f: (setattr(f, "hdus", f.hdus[:1] + f.hdus[1:][::-1]), f)[1], "valid")
    ed("EXTENTS of wrong length", lambda f: (M.set_axes(f.hdus[-1], [2 * nd + 1], f.hdus[-1].data + [Fr(9)]), f)[1])
    ed("duplicate KNOTS0 extension (shorter copy first)", lambda f: (f.hdus.insert(1, M.image_hdu(False, -64, [1], (), [Fr(5)], extname="KNOTS0")), f)[1])
    # foreign files
    ed("foreign: plain 2-d image", lambda f: M.Fits([M.image_hdu(True, -32, [3, 2], (), [Fr(k) for k in range(6)])]))
    ed("foreign: image with ORDER key only", lambda f: M.Fits([M.image_hdu(True, 16, [4], [M.card("ORDER", 1)], [Fr(k) for k in range(4)])]))
    ed("foreign: empty primary + image extension", lambda f: M.Fits([M.image_hdu(True, 8, [], (), []), M.image_hdu(False, -32, [2, 2], (), [Fr(1)] * 4, extname="SCI")]))
    # auxiliary cards
    ed("aux: value with embedded quotes, empty string, unterminated string, HIERARCH, bare number",
       lambda f: (f.hdus[0].cards.extend([M.card("QUOTED", "it's"), M.card("EMPTY", ""), "OPENSTR = 'no closing quote".ljust(80), M.card("A REALLY LONG KEY NAME", "v"), M.card("NUMBER", 42), " ".ljust(80), M.card("HISTORY", None, "some history")]), f)[1], "valid")
    return E_

# ------------------------------------------------------------------ execution
def read_table(it):
    g = lambda n: it.globals[n].cells[0]
    nd = g("ndim"); t = dict(ndim=nd)
    def arr(p, n, what):
        if not isinstance(p, G.Ptr) or p.obj is None: raise G.MemError("%s is null" % what)
        if not p.obj.live: raise G.MemError("%s is released storage" % what)
        if p.off < 0 or p.off + n > len(p.obj.cells): raise G.MemError("%s: %d elements expected, storage holds %d from offset %d" % (what, n, len(p.obj.cells), p.off))
        seg = p.obj.cells[p.off:p.off + n]
        if any(c is None for c in seg): raise G.ExecError("%s holds uninitialised elements" % what)
        return [H.unfv(c) for c in seg]
    for n in ("order", "nknots", "naxes", "strides"): t[n] = arr(g(n), nd, n)
    return t, arr, g

def wellformed(it):
    """the postcondition of a successful read; returns list of problems"""
    bad = []
    try:
        t, arr, g = read_table(it); nd = t["ndim"]
        if nd < 1: return ["ndim = %d after a successful read" % nd], None
        for d in range(nd):
            o, nk, na = t["order"][d], t["nknots"][d], t["naxes"][d]
            if na != nk - o - 1: bad.append("dimension %d: %d coefficients but %d knots and order %d (expected %d)" % (d, na, nk, o, nk - o - 1))
            elif na < o + 1: bad.append("dimension %d: %d coefficients < order+1 = %d" % (d, na, o + 1))
        st = 1
        for d in range(nd - 1, -1, -1):
            if t["strides"][d] != st: bad.append("stride %d is %d, expected %d" % (d, t["strides"][d], st))
            st *= t["naxes"][d]
        kp = arr(g("knots"), nd, "knots"); t["knots"] = []
        for d in range(nd):
            p = kp[d]; o, nk = t["order"][d], t["nknots"][d]
            if nk > 1 << 20 or o > 1 << 20: bad.append("dimension %d: absurd sizes" % d); continue
            if not isinstance(p, G.Ptr) or p.obj is None: bad.append("knots[%d] is null" % d); continue
            if p.off != o or len(p.obj.cells) != nk + 2 * o: bad.append("knots[%d]: storage of %d elements at offset %d, expected %d at offset %d" % (d, len(p.obj.cells), p.off, nk + 2 * o, o))
            ks = arr(p, nk, "knots[%d]" % d); t["knots"].append(ks)
            if any(isinstance(k, str) for k in ks): bad.append("knots[%d] contains a non-finite value" % d)
            elif any(a > b for a, b in zip(ks, ks[1:])): bad.append("knots[%d] are not non-decreasing" % d)
        ncoef = st
        if ncoef <= 1 << 22: t["coefficients"] = arr(g("coefficients"), ncoef, "coefficients")
        cp = g("coefficients")
        if isinstance(cp, G.Ptr) and cp.obj is not None and len(cp.obj.cells) != ncoef: bad.append("coefficient storage holds %d elements, header says %d" % (len(cp.obj.cells), ncoef))
        ep = arr(g("extents"), nd, "extents"); t["extents"] = []
        for d in range(nd): t["extents"].append(arr(ep[d], 2, "extents[%d]" % d))
        pp = g("periods")
        if isinstance(pp, G.Ptr) and pp.obj is not None: t["periods"] = arr(pp, nd, "periods")
        na_ = g("naux"); t["aux"] = []
        if na_:
            ap = arr(g("aux"), na_, "aux")
            for e in ap:
                kv = arr(e, 2, "aux entry"); t["aux"].append((H.cstring(kv[0]), H.cstring(kv[1])))
        return bad, t
    except G.ExecError as ex:
        return bad + ["%s: %s" % (type(ex).__name__, ex)], None

def fresh_interp():
    prog, params = PROG
    it = G.Interp(prog, None); it.dom = __import__("c14_exact").RatDom(); it.prog_params = params
    al = H.Alloc(); al.install(it); H.install_algorithms(it)
    for n in ("ndim", "naux"): it.set_global(n, 0)
    for n in ("order", "knots", "nknots", "extents", "periods", "coefficients", "naxes", "strides", "aux"): it.set_global(n, G.NULL)
    it.set_global("vp_thrown", 0); it.set_global("vp_sizeof_splinetable", 0); it.set_global("vp_guard_armed", False)
    it.set_global("vp_this_naxes_p", G.Ptr(it.globals["naxes"], 0))
    return it, al

def run_case(args):
    tag, expect, fits, desc = args; t0 = time.time(); out = []
    def ob(name, ok, detail=""): out.append(("%s [%s]" % (name, tag), ok, detail[:600], time.time() - t0))
    try:
        it, al = fresh_interp(); S = M.Session(fits); H.install_cfitsio(it, S, CONSTS)
        try:
            ret = it.call("read_fits_core", [1]); crashed = None
        except H.AllocTooLarge as ex:
            ret = None; crashed = None; it.globals["vp_thrown"].cells[0] = 1; big = str(ex)    # std::bad_alloc: a reported failure
        except G.ExecError as ex:
            ret = None; crashed = "%s: %s" % (type(ex).__name__, ex)
        ob("read is memory-safe", crashed is None, crashed or "")
        if crashed is not None: return out
        thrown = it.globals["vp_thrown"].cells[0]
        if not thrown and ret:
            bad, t = wellformed(it)
            ob("table returned by a successful read is well-formed", not bad, "; ".join(bad))
            if expect == "valid" and not bad and desc is not None and tag.endswith("unchanged"):
                same = (t["order"] == desc["orders"] and t["knots"] == desc["knots"] and t["coefficients"] == desc["coeffs"] and t["extents"] == [list(e) for e in desc["extents"]])
                ob("valid file loads as the table it encodes", same, "" if same else "content differs: orders %s knots %s" % (t["order"], [len(k) for k in t["knots"]]))
            if not bad:
                try:
                    it.call("vp_destructor", []); left = len(al.live)
                    ob("table from a successful read is destructible and nothing leaks", left == 0, "%d allocator blocks (%d bytes) still live after the destructor" % (left, al.cur))
                except G.ExecError as ex: ob("table from a successful read is destructible and nothing leaks", False, "%s: %s" % (type(ex).__name__, ex))
        else:
            if expect == "valid": ob("valid file is accepted", False, "the reader reported failure (exception) on a file in the documented layout")
            nd = it.globals["ndim"].cells[0]
            ob("failed read leaves the object empty (reusable)", nd == 0, "ndim = %d after the failed read: a later read is refused and the destructor treats the object as fully populated" % nd)
            try:
                it.call("vp_destructor", []); left = len(al.live)
                ob("object is destructible after a failed read and nothing leaks", left == 0, "%d allocator blocks (%d bytes) still live after the destructor" % (left, al.cur))
            except G.ExecError as ex: ob("object is destructible after a failed read and nothing leaks", False, "destructor: %s: %s" % (type(ex).__name__, ex))
    except Exception as ex:
        ob("execution", False, "%s: %s" % (type(ex).__name__, ex))
    return out

# ------------------------------------------------------------------ conformance of the cfitsio model (native)
def model_answers(fits):
    S = M.Session(fits); nh = S.get_num_hdus(); st, typ = S.movabs_hdu(1); naxis = len(S.hdu().axes)
    a = dict(open=0, nhdus=nh, type=0, naxis=naxis, naxes=list(S.hdu().axes))
    n = S.get_hdrspace()[1]; a["nkeys"] = n; a["keys"] = []
    for j in range(1, n + 1):
        st, k, v = S.read_keyn(j); a["keys"].append([st, k if not st else "", v if not st else ""])
    def asint(stv, lo, hi):
        st, v = stv
        if not st and not (lo <= v <= hi): st = M.NUM_OVERFLOW
        return [st, v if not st else 0]
    a["ORDER"] = asint(S.read_key_long("ORDER"), -2**31, 2**31 - 1)
    a["ORDERn"] = [asint(S.read_key_long("ORDER%d" % i), 0, 2**32 - 1) for i in range(naxis)]
    a["PERIODn"] = []
    for i in range(naxis):
        st, v = S.read_key_double("PERIOD%d" % i); a["PERIODn"].append([st, float(v) if not st else 0.0])
    np_ = S.hdu().npix() if naxis else 1
    a["pix"] = [S.read_pix(1, np_)[0], S.read_pix(1, np_ + 1)[0]]
    a["ext"] = []
    for i in range(naxis + 1):
        e = S.movnam_hdu("KNOTS%d" % i if i < naxis else "EXTENTS"); num = S.cur + 1
        if e: a["ext"].append([e, num, -7, e, e]); continue
        ax = S.get_img_size(1)[1]; n = ax[0] if ax else -7
        e2 = S.read_pix(1, n)[0] if n > 0 else 0; e3 = S.read_pix(1, n + 1)[0] if n >= 0 else 0
        a["ext"].append([0, num, n, e2, e3])
    return a

def conformance(model, real):
    """differences that matter to the caller: success vs failure of each call and every value returned on success"""
    d = []
    z = lambda s: 0 if s == 0 else 1
    for k in ("open", "nhdus", "type", "naxis", "naxes", "nkeys"):
        if model.get(k) != real.get(k): d.append("%s: model %r, cfitsio %r" % (k, model.get(k), real.get(k)))
    if d: return d
    for j, (m, r) in enumerate(zip(model["keys"], real["keys"])):
        if z(m[0]) != z(r[0]) or (not m[0] and (m[1] != r[1] or m[2] != r[2])): d.append("card %d: model %r, cfitsio %r" % (j + 1, m, r))
    for k in ("ORDER",):
        if z(model[k][0]) != z(real[k][0]) or (not model[k][0] and model[k][1] != real[k][1]): d.append("%s: model %r, cfitsio %r" % (k, model[k], real[k]))
    for i, (m, r) in enumerate(zip(model["ORDERn"], real["ORDERn"])):
        if z(m[0]) != z(r[0]) or (not m[0] and m[1] != r[1]): d.append("ORDER%d: model %r, cfitsio %r" % (i, m, r))
    for i, (m, r) in enumerate(zip(model["PERIODn"], real["PERIODn"])):
        if z(m[0]) != z(r[0]) or (not m[0] and m[1] != float(r[1])): d.append("PERIOD%d: model %r, cfitsio %r" % (i, m, r))
    if "pix" in real and [z(x) for x in model["pix"]] != [z(x) for x in real["pix"]]: d.append("coefficient reads: model %r, cfitsio %r" % (model["pix"], real["pix"]))
    for i, (m, r) in enumerate(zip(model["ext"], real["ext"])):
        if z(m[0]) != z(r[0]) or (not m[0] and (m[1] != r[1] or m[2] != r[2] or z(m[3]) != z(r[3]) or (m[2] >= 0 and z(m[4]) != z(r[4])))): d.append("extension lookup %d: model %r, cfitsio %r" % (i, m, r))
    return d

PROBE = None
def build_probe():
    exe = os.path.join(vlib.workdir(), "fits_probe")
    rc, out, w = vlib.sh("g++ -std=c++11 -g -O1 -fsanitize=address,undefined -fno-sanitize-recover=undefined -I%s/include %s/tools/replay/fits_probe.cpp %s/src/core/*.cpp -lcfitsio -o %s" % (vlib.REPO, vlib.VERIF, vlib.REPO, exe), timeout=900)
    if rc != 0: raise RuntimeError("native probe does not build: " + out[-600:])
    return exe

def native(args):
    mode, path = args
    rc, out, w = vlib.sh("ASAN_OPTIONS=detect_leaks=1 timeout -s KILL 30 %s %s %s" % (PROBE, mode, path), timeout=120)
    return rc, out

def main():
    global PROG, CONSTS, PROBE
    thorough = vlib.TIER == "thorough"
    rep = vlib.Report("C07", level="exploration")
    fs = units.fits_functions(); CONSTS = units.cfitsio_constants()
    prog = G.Program.compile(units.fits_prelude() + "".join(f.text(None) for f in fs.values()), vlib.workdir(), "fits")
    PROG = (prog, {f.name: E.param_names(f.header, f.name) for f in fs.values()})
    for k in ("read_fits_core", "read_fits_core_wrapper", "destructor", "release"):
        if k in fs: rep.functions.append(fs[k].info())
    cases = []
    for bname, desc in base_tables(thorough):
        for label, expect, fn in edits(desc):
            f = fn(M.spline_file(**desc)); cases.append(("%s: %s" % (bname, label), expect, f, desc))
    npairs = 0
    if thorough:
        # every ordered pair of edits on the small base tables (an edit that no longer finds its extension is skipped)
        for bname, desc in base_tables(False)[:4]:
            eds = [e for e in edits(desc) if e[0] != "unchanged" and not e[0].startswith("foreign")]
            for (l1, x1, f1), (l2, x2, f2) in itertools.permutations(eds, 2):
                if l1.split(" ")[0] == l2.split(" ")[0] and l1.startswith("ORDER"): continue
                try: f = f2(f1(M.spline_file(**desc))); f.to_bytes()
                except Exception: continue
                if any(len(h.data) != h.npix() for h in f.hdus): continue      # header and data unit must stay consistent (a truncated file is cfitsio's business)
                cases.append(("%s: %s + %s" % (bname, l1, l2), "any", f, None)); npairs += 1
    t0 = time.time()
    with mp.Pool(min(vlib.NCORES, 16)) as pool: res = pool.map(run_case, cases, chunksize=4)
    flat = [o for r in res for o in r]
    rep.add_group("E3 execution of the GOTO program of the extracted reader and destructor against the cfitsio model (BOUNDED)", len(flat), sum(1 for o in flat if o[1]), time.time() - t0,
                  bounded=("%d ordered pairs of edits on 4 small tables; " % npairs if npairs else "") + "%d files: %d spline tables in the documented layout x header-card edits (ORDERn), resized / dropped / reordered / retyped extensions, bad knot data, reshaped coefficient images, foreign images, odd auxiliary cards" % (len(cases), len(base_tables(thorough))), name="C07-reader")
    # model conformance + replays
    PROBE = build_probe(); fdir = os.path.join(vlib.workdir(), "files"); os.makedirs(fdir, exist_ok=True)
    paths = []
    for k, c in enumerate(cases):
        p = os.path.join(fdir, "f%04d.fits" % k); open(p, "wb").write(c[2].to_bytes()); paths.append(p)
    t1 = time.time()
    with mp.Pool(min(vlib.NCORES, 16)) as pool: nat = pool.map(native, [("cfitsio", p) for p in paths], chunksize=4)
    nconf = 0; confbad = []
    for c, (rc, out) in zip(cases, nat):
        try: real = json.loads(out.strip().splitlines()[-1])
        except Exception: confbad.append((c[0], "probe output unreadable: " + out[-200:])); continue
        d = conformance(model_answers(c[2]), real); nconf += 1
        if d: confbad.append((c[0], "; ".join(d[:4])))
    rep.add_group("conformance of the cfitsio model: its answers vs the installed cfitsio on every explored file (native probe)", len(cases), len(cases) - len(confbad), time.time() - t1, bounded="the %d explored files" % len(cases), name="C07-model-conformance")
    if confbad:
        for c in confbad[:10]: print("MODEL-MISMATCH %s :: %s" % c)
        raise RuntimeError("the cfitsio model disagrees with the installed cfitsio on %d files (first: %s :: %s): verdicts would rest on a wrong assumption" % (len(confbad), confbad[0][0], confbad[0][1]))
    byname = {c[0]: p for c, p in zip(cases, paths)}
    viol = [o for o in flat if not o[1]]
    for o in viol:
        tag = o[0][o[0].index("[") + 1:-1]; path = byname.get(tag); rp = None
        if path:
            rc, out = native(("read", path))
            keep = os.path.join(vlib.REPLAY_DIR, "C07_" + "".join(ch if ch.isalnum() else "_" for ch in tag)[:80] + ".fits"); os.makedirs(vlib.REPLAY_DIR, exist_ok=True)
            open(keep, "wb").write(open(path, "rb").read())
            rp = dict(replayed=True, input=keep, observed=("exit %d\n" % rc) + out[-2500:], command="tools/replay/fits_probe.cpp read <file> (real library, ASan/UBSan)")
        rep.add_violation("C07-reader", o[0].replace(" ", "_")[:160], o[0][:300] + ": " + o[2], trace=o[2], replay=rp)
    rep.samples += [o[0][:200] for o in flat[3:6]]
    rep.extra["evaluations"] = len(cases); rep.extra["distinct_nontrivial"] = len(set(c[0] for c in cases if not c[0].endswith("unchanged")))
    rep.extra["rule"] = "one evaluation = one file read by the extracted reader (then destroyed) with the postcondition of C07 checked; non-trivial = the file differs from a valid table's file; files are distinct (base table, edit) pairs"
    rep.assume("cfitsio is an ASSUMED CONTRACT (specs/fitsmodel.py); its answers are compared with the installed library on every explored file, and only for the calls the reader makes",
               "BOUNDED: enumerated files; edits are at card / HDU level (byte flips, truncation inside a card or data block and non-image HDUs are cfitsio's own parsing and are not covered)",
               "allocation failure is modelled only as 'an allocation of more than 2^22 elements throws' (std::bad_alloc is a reported failure); exceptions are a ghost flag + early return (R7), so stack unwinding through read_fits()'s file guard is not executed",
               "read_fits()/read_fits_mem() wrappers (emptiness guard, open/close) are not extracted; the failure-state obligations look at the object as read_fits_core leaves it, which is what the caller of read_fits sees",
               "lookup / evaluation on a returned table are not re-proved here: 'well-formed' is exactly the precondition of the C04/C05 contracts; the replay harness runs them natively under ASan on violating files only")
    rep.trust("tools/gotoexec.py", "goto-cc front end", "tools/extract.py rules", "specs/fitsmodel.py (checked against the installed cfitsio by the conformance obligations)")
    rep.finish(None)

if __name__ == "__main__":
    main()
