"""C14 (exactness half): the transfer-matrix entries norm*convoluted_blossom(...) computed by the REAL code
(interpreted from CBMC's GOTO program over exact rationals) reproduce the exact convolution
(B_j * M)(x) = integral B_j(x-t) M(t) dt, M the unit-area B-spline on the kernel knots - checked at rational
sample points of every interval of the convolved knot vector.  Exact on each shape; shapes enumerated."""
import sys, os, time, itertools
from fractions import Fraction as Fr
from tools import vlib, units, gotoexec as G, e3lib as E, extract as X
from specs import convolve as C

class RatDom:
    name = "rational"
    def const(self, q): return Fr(q)
    def symbol(self, n): raise G.ExecError("no symbols in the rational domain")
    def add(self, a, b): return a + b
    def sub(self, a, b): return a - b
    def mul(self, a, b): return a * b
    def div(self, a, b):
        if b == 0: raise G.ExecError("division by zero")
        return a / b
    def neg(self, a): return -a
    def narrow(self, a): return a

def build_program():
    fa = units.free_function(units.CONVOLVE_CPP, "factorial")
    dv = units.free_function(units.CONVOLVE_CPP, "divdiff")
    cb = units.free_function(units.CONVOLVE_CPP, "convoluted_blossom")
    r = X.Rules()
    cb.body = r.sub("R13_vector_to_vla", r"std::vector<double>\s+fun_x\(nx\),\s*fun_y\(ny\);", "double fun_x[nx], fun_y[ny];", cb.body, must_fire=True)
    cb.body = r.sub("R13_data", r"\.data\(\)", "", cb.body, must_fire=True)
    slice_src, slice_fn = C.norm_slice(units.src("include/photospline/detail/convolve.h"))
    text = "#include <stdint.h>\n#include <stddef.h>\n#include <stdbool.h>\n" + fa.text(None) + dv.text(None) + cb.text(None) + slice_fn
    prog = G.Program.compile(text, vlib.workdir(), "c14exact")
    params = {f.name: E.param_names(f.header, f.name) for f in (fa, dv, cb)}
    params["vp_norm_slice"] = ["vp_norm_slice::order", "vp_norm_slice::dim", "vp_norm_slice::n_conv_knots"]
    return prog, params

def bspl(t, i, k, x):
    """Cox-de Boor value of B_{i,k} (degree k) on knots t at x, half-open intervals, 0/0 := 0"""
    if k == 0: return Fr(1) if t[i] <= x < t[i + 1] else Fr(0)
    a = Fr(0)
    if t[i + k] != t[i]: a += (x - t[i]) / (t[i + k] - t[i]) * bspl(t, i, k - 1, x)
    if t[i + k + 1] != t[i + 1]: a += (t[i + k + 1] - x) / (t[i + k + 1] - t[i + 1]) * bspl(t, i + 1, k - 1, x)
    return a

_wcache = {}
def open_newton_cotes(n):
    """nodes (i+1)/(n+1) on [0,1], weights exact for polynomials of degree < n"""
    if n in _wcache: return _wcache[n]
    nodes = [Fr(i + 1, n + 1) for i in range(n)]
    # solve sum_i w_i nodes_i^p = 1/(p+1), p = 0..n-1 (exact rational Gaussian elimination)
    A = [[nodes[i] ** p for i in range(n)] + [Fr(1, p + 1)] for p in range(n)]
    for c in range(n):
        piv = next(r for r in range(c, n) if A[r][c] != 0); A[c], A[piv] = A[piv], A[c]
        A[c] = [v / A[c][c] for v in A[c]]
        for r in range(n):
            if r != c and A[r][c] != 0: A[r] = [a - A[r][c] * b for a, b in zip(A[r], A[c])]
    _wcache[n] = (nodes, [A[i][n] for i in range(n)])
    return _wcache[n]

def exact_convolution(t, j, ord_, y, x):
    """integral over s of B_j(x - s) M(s) ds, M = unit-area B-spline of degree len(y)-2 on y"""
    kd = len(y) - 2
    scale = Fr(kd + 1) / (y[-1] - y[0])
    brk = sorted(set([yy for yy in y] + [x - tt for tt in t[j:j + ord_ + 2]]))
    brk = [b for b in brk if y[0] <= b <= y[-1]]
    deg = ord_ + kd
    nodes, w = open_newton_cotes(deg + 2)
    tot = Fr(0)
    for a, b in zip(brk, brk[1:]):
        if a == b: continue
        for nd, ww in zip(nodes, w):
            s = a + (b - a) * nd
            tot += (b - a) * ww * bspl(t, j, ord_, x - s) * scale * bspl(y, 0, kd, s)
    return tot

def one_shape(args):
    ord_, t, y = args; t0 = time.time()
    tag = "order=%d knots=%s kernel=%s" % (ord_, [str(v) for v in t], [str(v) for v in y])
    try:
        prog, params = PROG
        dom = RatDom(); it = G.Interp(prog, dom); it.prog_params = params
        F = lambda q: G.FV(Fr(q), Fr(q))
        n_conv = len(y); k = ord_ + 1; q = n_conv - 1; convorder = ord_ + n_conv - 1
        rho = sorted(a + b for a in t for b in y)
        na_old = len(t) - ord_ - 1; na_new = len(rho) - convorder - 1
        oo = it.array("order", [ord_])
        norm = it.call("vp_norm_slice", [G.Ptr(oo, 0), 0, n_conv])
        to = it.array("t", [F(v) for v in t]); yo = it.array("y", [F(v) for v in y]); ro = it.array("rho", [F(v) for v in rho])
        trafo = [[None] * na_old for _ in range(na_new)]
        for i in range(na_new):
            for j in range(na_old):
                b = it.call("convoluted_blossom", [G.Ptr(to, j), k + 1, G.Ptr(yo, 0), n_conv, F(rho[i]), G.Ptr(ro, i + 1), k + q - 1])
                trafo[i][j] = norm.sym * b.sym
        bad = []; npts = 0
        # sample points: two interior points of every non-empty interval of the new knot vector inside the convolved function's support
        for j in range(na_old):
            for a, b in zip(rho, rho[1:]):
                if a == b: continue
                for fr in (Fr(1, 3), Fr(3, 4)):
                    x = a + (b - a) * fr; npts += 1
                    lhs = sum(trafo[i][j] * bspl(rho, i, convorder, x) for i in range(na_new))
                    rhs = exact_convolution(t, j, ord_, y, x)
                    if lhs != rhs:
                        if len(bad) < 3: bad.append("B_%d at x=%s: table gives %s, exact convolution %s" % (j, x, lhs, rhs))
        return [(tag + " transfer matrix == exact convolution (%d points)" % npts, not bad, "; ".join(bad), time.time() - t0)]
    except Exception as ex:
        return [(tag + " execution [%s]" % str(ex)[:70], False, "%s: %s" % (type(ex).__name__, ex), time.time() - t0)]

PROG = None
def shapes(thorough):
    out = []
    kernels = [[Fr(-1, 2), Fr(1, 2)], [Fr(0), Fr(1, 3), Fr(5, 4)], [Fr(-1), Fr(-1, 4), Fr(1, 2), Fr(2)]]
    if thorough: kernels += [[Fr(1, 10), Fr(9, 10)], [Fr(-2), Fr(-1), Fr(0), Fr(1, 2), Fr(3)]]
    for ord_ in range(0, 4 if not thorough else 5):
        n = ord_ + 4
        t = [Fr(0)]
        for m in range(1, n): t.append(t[-1] + Fr(1 + (m * m) % 3, 2))
        for y in kernels:
            if ord_ + len(y) > (6 if not thorough else 8): continue
            out.append((ord_, t, y))
    return out

def add(rep, thorough):
    import multiprocessing as mp
    global PROG
    PROG = build_program()
    tasks = shapes(thorough); t0 = time.time()
    with mp.Pool(min(vlib.NCORES, 16)) as pool:
        res = pool.map(one_shape, tasks, chunksize=1)
    flat = [o for r in res for o in r]
    rep.add_group("E3-rational (exact execution of the GOTO program, exact piecewise-polynomial oracle)", len(flat), sum(1 for o in flat if o[1]), time.time() - t0,
                  bounded="enumerated shapes (order, knot vector, kernel); exact rational arithmetic on each", name="C14-transfer-matrix-exact")
    for o in flat:
        if not o[1]: rep.add_violation("C14-transfer-matrix-exact", o[0].replace(" ", "_")[:150], o[0] + ": " + o[2], trace=o[2])
    rep.samples += [o[0] for o in flat[:2]]
