"""C14 (exactness half): the transfer-matrix entries norm*convoluted_blossom(...) computed by the REAL code
(interpreted from CBMC's GOTO program over exact rationals) reproduce the exact convolution
(B_j * M)(x) = integral B_j(x-t) M(t) dt, M the unit-area B-spline on the kernel knots - checked at rational
sample points of every interval of the convolved knot vector.  Exact on each shape; shapes enumerated."""
import sys, os, time, itertools
from fractions import Fraction as Fr
from tools import vlib, units, gotoexec as G, e3lib as E, extract as X
from specs import convolve as C

class RatDom:
    name = "rational"
    def const(self, q): return Fr(q)
    def symbol(self, n): raise G.ExecError("no symbols in the rational domain")
    def add(self, a, b): return a + b
    def sub(self, a, b): return a - b
    def mul(self, a, b): return a * b
    def div(self, a, b):
        if b == 0: raise G.ExecError("division by zero")
        return a / b
    def neg(self, a): return -a
    def narrow(self, a): return a

def build_program():
    fa = units.free_function(units.CONVOLVE_CPP, "factorial")
    dv = units.free_function(units.CONVOLVE_CPP, "divdiff")
    cb = units.free_function(units.CONVOLVE_CPP, "convoluted_blossom")
    r = X.Rules()
    cb.body = r.sub("R13_vector_to_vla", r"std::vector<double>\s+fun_x\(nx\),\s*fun_y\(ny\);", "double fun_x[nx], fun_y[ny];", cb.body, must_fire=True)
    cb.body = r.sub("R13_data", r"\.data\(\)", "", cb.body, must_fire=True)
    slice_src, slice_fn = C.norm_slice(units.src("include/photospline/detail/convolve.h"))
    text = "#include <stdint.h>\n#include <stddef.h>\n#include <stdbool.h>\n" + fa.text(None) + dv.text(None) + cb.text(None) + slice_fn
    prog = G.Program.compile(text, vlib.workdir(), "c14exact")
    params = {f.name: E.param_names(f.header, f.name) for f in (fa, dv, cb)}
    params["vp_norm_slice"] = ["vp_norm_slice::order", "vp_norm_slice::dim", "vp_norm_slice::n_conv_knots"]
    return prog, params

def bspl(t, i, k, x):
    """Cox-de Boor value of B_{i,k} (degree k) on knots t at x, half-open intervals, 0/0 := 0"""
    if k == 0: return Fr(1) if t[i] <= x < t[i + 1] else Fr(0)
    a = Fr(0)
    if t[i + k] != t[i]: a += (x - t[i]) / (t[i + k] - t[i]) * bspl(t, i, k - 1, x)
    if t[i + k + 1] != t[i + 1]: a += (t[i + k + 1] - x) / (t[i + k + 1] - t[i + 1]) * bspl(t, i + 1, k - 1, x)
    return a

_wcache = {}
def open_newton_cotes(n):
    """nodes (i+1)/(n+1) on [0,1], weights exact for polynomials of degree < n"""
    if n in _wcache: return _wcache[n]
    nodes = [Fr(i + 1, n + 1) for i in range(n)]
    # solve sum_i w_i nodes_i^p = 1/(p+1), p = 0..n-1 (exact rational Gaussian elimination)
    A = [[nodes[i] ** p for i in range(n)] + [Fr(1, p + 1)] for p in range(n)]
    for c in range(n):
        piv = next(r for r in range(c, n) if A[r][c] != 0); A[c], A[piv] = A[piv], A[c]
        A[c] = [v / A[c][c] for v in A[c]]
        for r in range(n):
            if r != c and A[r][c] != 0: A[r] = [a - A[r][c] * b for a, b in zip(A[r], A[c])]
    _wcache[n] = (nodes, [A[i][n] for i in range(n)])
    return _wcache[n]

def exact_convolution(t, j, ord_, y, x):
    """integral over s of B_j(x - s) M(s) ds, M = unit-area B-spline of degree len(y)-2 on y"""
    kd = len(y) - 2
    scale = Fr(kd + 1) / (y[-1] - y[0])
    brk = sorted(set([yy for yy in y] + [x - tt for tt in t[j:j + ord_ + 2]]))
    brk = [b for b in brk if y[0] <= b <= y[-1]]
    deg = ord_ + kd
    nodes, w = open_newton_cotes(deg + 2)
    tot = Fr(0)
    for a, b in zip(brk, brk[1:]):
        if a == b: continue
        for nd, ww in zip(nodes, w):
            s = a + (b - a) * nd
            tot += (b - a) * ww * bspl(t, j, ord_, x - s) * scale * bspl(y, 0, kd, s)
    return tot

def one_shape(args):
    ord_, t, y = args; t0 = time.time()
    tag = "order=%d knots=%s kernel=%s" % (ord_, [str(v) for v in t], [str(v) for v in y])
    try:
        prog, params = PROG
        dom = RatDom(); it = G.Interp(prog, dom); it.prog_params = params
        F = lambda q: G.FV(Fr(q), Fr(q))
        n_conv = len(y); k = ord_ + 1; q = n_conv - 1; convorder = ord_ + n_conv - 1
        rho = sorted(a + b for a in t for b in y)
        na_old = len(t) - ord_ - 1; na_new = len(rho) - convorder - 1
        oo = it.array("order", [ord_])
        norm = it.call("vp_norm_slice", [G.Ptr(oo, 0), 0, n_conv])
        to = it.array("t", [F(v) for v in t]); yo = it.array("y", [F(v) for v in y]); ro = it.array("rho", [F(v) for v in rho])
        trafo = [[None] * na_old for _ in range(na_new)]
        for i in range(na_new):
            for j in range(na_old):
                b = it.call("convoluted_blossom", [G.Ptr(to, j), k + 1, G.Ptr(yo, 0), n_conv, F(rho[i]), G.Ptr(ro, i + 1), k + q - 1])
                trafo[i][j] = norm.sym * b.sym
        bad = []; npts = 0
        # sample points: two interior points of every non-empty interval of the new knot vector inside the convolved function's support
        for j in range(na_old):
            for a, b in zip(rho, rho[1:]):
                if a == b: continue
                for fr in (Fr(1, 3), Fr(3, 4)):
                    x = a + (b - a) * fr; npts += 1
                    lhs = sum(trafo[i][j] * bspl(rho, i, convorder, x) for i in range(na_new))
                    rhs = exact_convolution(t, j, ord_, y, x)
                    if lhs != rhs:
                        if len(bad) < 3: bad.append("B_%d at x=%s: table gives %s, exact convolution %s" % (j, x, lhs, rhs))
        return [(tag + " transfer matrix == exact convolution (%d points)" % npts, not bad, "; ".join(bad), time.time() - t0)]
    except Exception as ex:
        return [(tag + " execution [%s]" % str(ex)[:70], False, "%s: %s" % (type(ex).__name__, ex), time.time() - t0)]

PROG = None
def shapes(thorough):
    out = []
    kernels = [[Fr(-1, 2), Fr(1, 2)], [Fr(0), Fr(1, 3), Fr(5, 4)], [Fr(-1), Fr(-1, 4), Fr(1, 2), Fr(2)]]
    if thorough: kernels += [[Fr(1, 10), Fr(9, 10)], [Fr(-2), Fr(-1), Fr(0), Fr(1, 2), Fr(3)]]
    for ord_ in range(0, 4 if not thorough else 5):
        n = ord_ + 4
        t = [Fr(0)]
        for m in range(1, n): t.append(t[-1] + Fr(1 + (m * m) % 3, 2))
        for y in kernels:
            if ord_ + len(y) > (6 if not thorough else 8): continue
            out.append((ord_, t, y))
    return out

def add(rep, thorough):
    import multiprocessing as mp
    global PROG, WHOLE
    PROG = build_program()
    wp, wparams, cv = build_whole_program(); WHOLE = (wp, wparams)
    rep.functions.append(cv.info())
    tasks = shapes(thorough); wtasks = whole_shapes(thorough); t0 = time.time()
    with mp.Pool(min(vlib.NCORES, 16)) as pool:
        res = pool.map(one_shape, tasks, chunksize=1)
        res += pool.map(whole_case, wtasks, chunksize=1)
    flat = [o for r in res for o in r]
    rep.add_group("E3-rational (exact execution of the GOTO program, exact piecewise-polynomial oracle)", len(flat), sum(1 for o in flat if o[1]), time.time() - t0,
                  bounded="enumerated shapes (order, knot vector, kernel); exact rational arithmetic on each", name="C14-transfer-matrix-exact")
    for o in flat:
        if not o[1]: rep.add_violation("C14-transfer-matrix-exact", o[0].replace(" ", "_")[:150], o[0] + ": " + o[2], trace=o[2])
    rep.samples += [o[0] for o in flat[:2]]

# ---------------------------------------------------------------------------------------------------
# whole splinetable::convolve(), extracted (tools/units.py convolve_function) and executed exactly
def build_whole_program():
    fa = units.free_function(units.CONVOLVE_CPP, "factorial")
    dv = units.free_function(units.CONVOLVE_CPP, "divdiff")
    cb = units.free_function(units.CONVOLVE_CPP, "convoluted_blossom")
    r = X.Rules()
    cb.body = r.sub("R13_vector_to_vla", r"std::vector<double>\s+fun_x\(nx\),\s*fun_y\(ny\);", "double fun_x[nx], fun_y[ny];", cb.body, must_fire=True)
    cb.body = r.sub("R13_data", r"\.data\(\)", "", cb.body, must_fire=True)
    cv = units.convolve_function()
    text = units.CONVOLVE_PRELUDE + fa.text(None) + dv.text(None) + cb.text(None) + cv.text(None)
    prog = G.Program.compile(text, vlib.workdir(), "c14whole")
    params = {f.name: E.param_names(f.header, f.name) for f in (fa, dv, cb, cv)}
    return prog, params, cv

def install_storage_hooks(it, log):
    F = lambda q: G.FV(Fr(q), Fr(q))
    def h_new(it_, a): return G.Ptr(it_.new_obj("new", a[1]), 0)
    def h_alloc(it_, a):
        o = it_.new_obj("alloc", a[1]); log.append(("allocate", o, a[1])); return G.Ptr(o, 0)
    def h_dealloc(it_, a):
        p, n = a
        if p.obj is None or p.off != 0 or len(p.obj.cells) != n: raise G.MemError("deallocate(%r, %d): not the start / not the size of an allocation (object has %d elements)" % (p, n, len(p.obj.cells) if p.obj else -1))
        if not p.obj.live: raise G.MemError("double deallocate")
        p.obj.live = False; log.append(("deallocate", p.obj, n))
    def h_sort(it_, a):
        f, l = a
        if f.obj is not l.obj: raise G.MemError("sort range spans objects")
        seg = f.obj.cells[f.off:l.off]
        if any(c is None for c in seg): raise G.ExecError("sort of uninitialised data")
        f.obj.cells[f.off:l.off] = sorted(seg, key=lambda v: v.num)
    def h_copy(it_, a):
        f, l, o = a
        n = l.off - f.off
        if f.obj is not l.obj or n < 0: raise G.MemError("copy range")
        if o.off < 0 or o.off + n > len(o.obj.cells) or not o.obj.live or not f.obj.live or f.off < 0 or l.off > len(f.obj.cells): raise G.MemError("std::copy out of bounds (%d elements into %s[%d..] of size %d)" % (n, o.obj.name, o.off, len(o.obj.cells)))
        o.obj.cells[o.off:o.off + n] = f.obj.cells[f.off:l.off]; return G.Ptr(o.obj, o.off + n)
    def h_fill(it_, a):
        p, n, v = a
        if p.off + n > len(p.obj.cells): raise G.MemError("fill_n out of bounds")
        for i in range(n): p.obj.cells[p.off + i] = v
    it.hooks.update(vp_new=h_new, vp_allocate=h_alloc, vp_deallocate=h_dealloc, vp_sort_double=h_sort, vp_copy=h_copy, vp_fill_n=h_fill)

def whole_case(args):
    orders, nks, dim, y = args; t0 = time.time(); nd = len(orders)
    tag = "convolve() orders=%s nknots=%s dim=%d kernel=%s" % (list(orders), list(nks), dim, [str(v) for v in y])
    try:
        prog, params = WHOLE
        dom = RatDom(); it = G.Interp(prog, dom); it.prog_params = params; log = []
        install_storage_hooks(it, log); it.set_global("vp_thrown", 0); it.set_global("vp_guard_armed", False)
        F = lambda q: G.FV(Fr(q), Fr(q))
        ts = []
        for d in range(nd):
            t = [Fr(d, 3)]
            for m in range(1, nks[d]): t.append(t[-1] + Fr(1 + ((m + d) * (m + 1)) % 3, 2))
            ts.append(t)
        naxes = [nks[d] - orders[d] - 1 for d in range(nd)]
        strides = [1] * nd
        for d in range(nd - 2, -1, -1): strides[d] = strides[d + 1] * naxes[d + 1]
        ncoef = strides[0] * naxes[0]
        coefs = [Fr(((i * 7 + 3) % 11) - 4, 3) for i in range(ncoef)]
        kobjs = []
        for d in range(nd):
            o = it.new_obj("knots%d" % d, nks[d] + 2 * orders[d]); log.append(("allocate", o, len(o.cells)))
            for m in range(nks[d]): o.cells[orders[d] + m] = F(ts[d][m])
            for m in range(orders[d]): o.cells[m] = F(-999 - m); o.cells[orders[d] + nks[d] + m] = F(999 + m)
            kobjs.append(o)
        cobj = it.new_obj("coefficients", ncoef); cobj.cells = [F(c) for c in coefs]
        it.set_global("ndim", nd)
        it.set_global("order", G.Ptr(it.array("order", list(orders)), 0)); it.set_global("nknots", G.Ptr(it.array("nknots", list(nks)), 0))
        it.set_global("knots", G.Ptr(it.array("knotptrs", [G.Ptr(kobjs[d], orders[d]) for d in range(nd)]), 0))
        it.set_global("vp_this_naxes", G.Ptr(it.array("naxes", list(naxes)), 0)); it.set_global("vp_this_strides", G.Ptr(it.array("strides", list(strides)), 0))
        it.set_global("vp_this_coefficients", G.Ptr(cobj, 0))
        exts = [it.array("ext%d" % d, [F(ts[d][orders[d]]), F(ts[d][naxes[d]])]) for d in range(nd)]
        it.set_global("extents", G.Ptr(it.array("extents", [G.Ptr(e, 0) for e in exts]), 0))
        yo = it.array("conv_knots", [F(v) for v in y])
        it.call("convolve", [dim, G.Ptr(yo, 0), len(y)])
        # ---- read the table back
        bad = []
        g = lambda n: it.globals[n].cells[0]
        new_order = g("order").obj.cells; new_nk = g("nknots").obj.cells; new_na = g("vp_this_naxes").obj.cells; new_st = g("vp_this_strides").obj.cells
        n_conv = len(y); convorder = orders[dim] + n_conv - 1
        rho = sorted(a + b for a in ts[dim] for b in y)
        want_order = list(orders); want_order[dim] = convorder
        want_nk = list(nks); want_nk[dim] = len(rho)
        if list(new_order) != want_order: bad.append("orders %s, expected %s" % (new_order, want_order))
        if list(new_nk) != want_nk: bad.append("knot counts %s, expected %s" % (new_nk, want_nk))
        want_na = [want_nk[d] - want_order[d] - 1 for d in range(nd)]
        if list(new_na) != want_na: bad.append("coefficient counts per dimension %s, expected nknots-order-1 = %s" % (new_na, want_na))
        want_st = [1] * nd
        for d in range(nd - 2, -1, -1): want_st[d] = want_st[d + 1] * want_na[d + 1]
        if list(new_st) != want_st: bad.append("strides %s, expected %s (well-formedness)" % (new_st, want_st))
        kp = g("knots").obj.cells; newknots = []
        for d in range(nd):
            p = kp[d]
            if not p.obj.live: bad.append("dimension %d: knot storage is a freed object" % d); newknots.append(None); continue
            if p.off != want_order[d] or len(p.obj.cells) != want_nk[d] + 2 * want_order[d]: bad.append("dimension %d: knot storage is not allocate(nknots+2*order)+order (offset %d, size %d)" % (d, p.off, len(p.obj.cells)))
            vals = [c.num if c is not None else None for c in p.obj.cells[p.off:p.off + want_nk[d]]]
            newknots.append(vals)
            if vals != (rho if d == dim else ts[d]): bad.append("dimension %d: knot vector %s" % (d, "is not the sorted pairwise sums" if d == dim else "changed"))
        cp = g("vp_this_coefficients")
        ncoef_new = want_st[0] * want_na[0]
        if not cp.obj.live or cp.off != 0 or len(cp.obj.cells) != ncoef_new: bad.append("coefficient storage has %d elements, expected %d" % (len(cp.obj.cells), ncoef_new))
        leaked = [o for (k, o, n) in log if k == "allocate" and o.live and o is not cp.obj and all(o is not p.obj for p in kp)]
        if leaked: bad.append("%d allocator blocks neither released nor owned by the table" % len(leaked))
        # ---- the function: new table == (old table convolved along dim), exactly, at sample points
        if not bad:
            newc = [c.num for c in cp.obj.cells]
            import random
            rnd = random.Random(1234); npts = 0
            ivs = [(a, b) for a, b in zip(rho, rho[1:]) if a != b]
            for (a, b) in ivs[:: max(1, len(ivs) // 6)]:
                x = []
                for d in range(nd):
                    if d == dim: x.append(a + (b - a) * Fr(rnd.randint(1, 6), 7))
                    else:
                        m = rnd.randint(0, nks[d] - 2); x.append(ts[d][m] + (ts[d][m + 1] - ts[d][m]) * Fr(rnd.randint(1, 4), 5))
                lhs = Fr(0); rhs = Fr(0)
                basis_new = [[bspl(rho if d == dim else ts[d], i, want_order[d], x[d]) for i in range(want_na[d])] for d in range(nd)]
                for idx in itertools.product(*[range(n) for n in want_na]):
                    tterm = newc[sum(i * s for i, s in zip(idx, want_st))]
                    for d in range(nd): tterm *= basis_new[d][idx[d]]
                    lhs += tterm
                conv_b = [exact_convolution(ts[dim], j, orders[dim], y, x[dim]) for j in range(naxes[dim])]
                basis_old = [[bspl(ts[d], i, orders[d], x[d]) for i in range(naxes[d])] if d != dim else conv_b for d in range(nd)]
                for idx in itertools.product(*[range(n) for n in naxes]):
                    tterm = coefs[sum(i * s for i, s in zip(idx, strides))]
                    for d in range(nd): tterm *= basis_old[d][idx[d]]
                    rhs += tterm
                npts += 1
                if lhs != rhs:
                    bad.append("at x=%s the convolved table gives %s, the exact convolution %s" % ([str(v) for v in x], lhs, rhs)); break
        return [(tag + " whole convolve(): well-formed result that equals the exact convolution", not bad, "; ".join(bad)[:600], time.time() - t0)]
    except Exception as ex:
        return [(tag + " execution [%s]" % str(ex)[:80], False, "%s: %s" % (type(ex).__name__, ex), time.time() - t0)]

WHOLE = None
def whole_shapes(thorough):
    k2 = [Fr(-1, 2), Fr(1, 2)]; k3 = [Fr(0), Fr(1, 3), Fr(5, 4)]; k4 = [Fr(-1), Fr(-1, 4), Fr(1, 2), Fr(2)]
    out = [((1,), (5,), 0, k3), ((0,), (4,), 0, k2), ((2,), (7,), 0, k2), ((1, 2), (4, 6), 0, k2), ((1, 2), (4, 6), 1, k3), ((1, 0, 1), (4, 3, 5), 2, k2), ((1, 1, 0), (4, 5, 3), 1, k3)]
    if thorough: out += [((2,), (7,), 0, k4), ((3,), (9,), 0, k3), ((1, 1, 1, 0), (4, 4, 5, 3), 3, k2), ((2, 1), (6, 4), 0, k3), ((0, 2, 1), (3, 6, 4), 0, k3)]
    return out
