#!/usr/bin/env python3
"""C06: FITS serialisation round-trips every table exactly, in the documented layout.

write_fits_core and read_fits_core (fitsio.h) are extracted mechanically and executed from CBMC's GOTO program against a
model of cfitsio (specs/fitsmodel.py: assumed contract).  For every explored table T (built directly in the interpreter's
memory):
  layout      the calls write_fits_core issues produce: a float coefficient image whose axes are T's in reverse order and
              whose pixels are the coefficient array in memory order, ORDERn integer keys, PERIODn keys, the auxiliary keys
              as string cards, one one-dimensional double image per dimension named KNOTSn holding the knot vector, and a
              double image EXTENTS of 2*ndim values - checked by an independent reader of that layout written in Python
  round trip  read_fits_core on what was written yields ndim, orders, knot vectors, coefficients (bit for bit; NaN, +-inf,
              -0, denormals, FLT_MAX as such), axis lengths, strides, extents and auxiliary keys (values may gain
              trailing blanks only) identical to T
  inverse     a file produced by the independent Python writer in that layout is read as the table it encodes (C07 checks
              the same for its files)
Conformance of the assumed contract: the same table is read and re-written by the real library + installed cfitsio
(native) and the resulting file must equal the model's file BYTE FOR BYTE; a disagreement aborts the check (exit 2).
Memory back end: write_fits_mem / read_fits_mem extracted too (same model).  Reference files: see C06-reference-files.  NOT covered: cfitsio's own
byte-level encoding beyond the comparison above."""
import sys, os, time, json, itertools, random, multiprocessing as mp
sys.path.insert(0, os.path.dirname(os.path.dirname(os.path.abspath(__file__))))
from fractions import Fraction as Fr
from tools import vlib, units, gotoexec as G, e3lib as E, fitshooks as H, tableprog as T
from specs import fitsmodel as M
import c14_exact as X14
import c07
PROG = None; CONSTS = None; PROBE = None; TPROG = None
FLT_MAX = Fr(2**24 - 1, 1) * Fr(2)**104; DENORM = Fr(1, 2**149)
SPECIAL = ["nan", "inf", "-inf", "-0", DENORM, -DENORM, FLT_MAX, -FLT_MAX, Fr(0), Fr(1, 3 * 2**20).limit_denominator(2**30)]

def tables(thorough):
    shapes = [((2,), (8,)), ((0,), (3,)), ((1, 2), (5, 7)), ((3, 0, 1), (9, 4, 6)), ((2, 1, 0, 1), (6, 5, 3, 4)), ((5, 4), (13, 11))]
    if thorough: shapes += [((1,) * 5, (4, 5, 6, 4, 5)), ((1, 0, 1, 0, 1, 0), (4, 3, 5, 2, 4, 3)), ((0,) * 7, (2, 3, 2, 3, 2, 3, 4)), ((1, 0, 0, 1, 0, 0, 1, 0), (4, 2, 3, 4, 2, 3, 4, 2)), ((0,) * 9, (2, 3, 2, 3, 2, 2, 3, 2, 3)), ((4,), (40,)), ((3, 3), (20, 9))]
    out = []
    for si, (orders, nks) in enumerate(shapes):
        nd = len(orders); knots = []
        for d in range(nd):
            t = [Fr(d - 2, 3)]
            for m in range(1, nks[d]): t.append(t[-1] + Fr(1 + ((m + d) * (m + 1)) % 3, 2))
            knots.append(t)
        naxes = [nks[d] - orders[d] - 1 for d in range(nd)]; n = 1
        for a in naxes: n *= a
        for variant in ("plain", "special"):
            if variant == "plain": coeffs = [Fr(((i * 7 + 3) % 11) - 4, 4) for i in range(n)]
            else: coeffs = [SPECIAL[(i * 3 + si) % len(SPECIAL)] if i % 2 == 0 else Fr(i, 8) for i in range(n)]
            coeffs = [c if isinstance(c, str) else Fr(float_round(c)) for c in coeffs]
            ext = [(knots[d][orders[d]], knots[d][naxes[d]]) for d in range(nd)] if variant == "plain" else [(Fr(-7 - d), Fr(d * d, 3) + 100) for d in range(nd)]
            aux = [[], [("GEOMETRY", "2")], [("A", ""), ("LONGER KEY NAME", "some text"), ("LEVEL", "3.5e7"), ("NAME8CHR", "exactly8"), ("PADDED", "trailing  "), ("Z9", "x" * 60), ("QUOTED", "it's"), ("QUOTE2", "IceCube's DOM 'A' v2"), ("QUOTE3", "'"), ("QUOTE4", "ends with a quote'"), ("QUOTE5", "q" * 60 + "'" + "r" * 6), ("LEADING", "  two leading blanks"), ("FULL", "y" * 68)]][(si + (variant == "special")) % 3]
            if thorough and variant == "special": aux = aux + [("K%02d" % k, "v%d" % k) for k in range(40)]
            periods = [None, [0.0] * nd, [0.0 if d else 6.25 for d in range(nd)]][(si + (variant == "special")) % 3]
            out.append(("table%d/%s orders=%s nknots=%s naux=%d" % (si, variant, list(orders), list(nks), len(aux)), dict(orders=list(orders), knots=knots, coeffs=coeffs, extents=ext, periods=periods, aux=aux)))
    if thorough:
        rnd = random.Random(vlib.SEED + 6)
        for k in range(150):
            nd = rnd.randint(1, 6); orders = [rnd.randint(0, 5 if nd < 3 else 2) for _ in range(nd)]
            nks = [2 * o + 2 + rnd.randint(0, 3 if nd > 3 else 6) for o in orders]
            knots = []
            for d in range(nd):
                t = [Fr(rnd.randint(-9, 9), rnd.randint(1, 7))]
                for m in range(1, nks[d]): t.append(t[-1] + Fr(rnd.randint(0, 5), rnd.randint(1, 4)))
                knots.append(t)
            naxes = [nks[d] - orders[d] - 1 for d in range(nd)]; n = 1
            for a in naxes: n *= a
            coeffs = [SPECIAL[rnd.randrange(len(SPECIAL))] if rnd.random() < 0.2 else Fr(float_round(Fr(rnd.randint(-10**6, 10**6), rnd.randint(1, 10**4)))) for _ in range(n)]
            coeffs = [c if isinstance(c, str) else Fr(float_round(c)) for c in coeffs]
            ext = [(Fr(rnd.randint(-50, 0)), Fr(rnd.randint(1, 50))) for d in range(nd)]
            aux = [("R%d" % j, "".join(rnd.choice("abc XYZ'019.-+") for _ in range(rnd.randint(0, 30)))) for j in range(rnd.randint(0, 5))]
            aux = [(k_, v.rstrip(" ")) for k_, v in aux]
            out.append(("random%d orders=%s nknots=%s naux=%d" % (k, orders, nks, len(aux)), dict(orders=orders, knots=knots, coeffs=coeffs, extents=ext, periods=[0.0] * nd, aux=aux)))
    return out

def float_round(q):
    import struct
    return struct.unpack("f", struct.pack("f", float(q)))[0]

def fresh(sizeof=0):
    prog, params = PROG
    it = G.Interp(prog, X14.RatDom()); it.prog_params = params
    al = H.Alloc(); al.install(it); H.install_algorithms(it)
    for n in ("ndim", "naux"): it.set_global(n, 0)
    for n in ("order", "knots", "nknots", "extents", "periods", "coefficients", "naxes", "strides", "aux"): it.set_global(n, G.NULL)
    it.set_global("vp_thrown", 0); it.set_global("vp_sizeof_splinetable", sizeof); it.set_global("vp_guard_armed", False)
    it.set_global("vp_this_naxes_p", G.Ptr(it.globals["naxes"], 0))
    return it, al

def load_table(it, desc):
    """build the table in the interpreter's memory exactly as the library lays it out"""
    o = desc["orders"]; nd = len(o); nk = [len(k) for k in desc["knots"]]; naxes = [nk[d] - o[d] - 1 for d in range(nd)]
    strides = [1] * nd
    for d in range(nd - 2, -1, -1): strides[d] = strides[d + 1] * naxes[d + 1]
    S = lambda n, v: it.globals[n].cells.__setitem__(0, v)
    S("ndim", nd); S("order", G.Ptr(it.array("order", list(o)), 0)); S("nknots", G.Ptr(it.array("nknots", list(nk)), 0))
    S("naxes", G.Ptr(it.array("naxes", list(naxes)), 0)); S("strides", G.Ptr(it.array("strides", list(strides)), 0))
    kp = []
    for d in range(nd):
        ob = it.new_obj("knots%d" % d, nk[d] + 2 * o[d])
        for m in range(nk[d]): ob.cells[o[d] + m] = H.fv(desc["knots"][d][m])
        kp.append(G.Ptr(ob, o[d]))
    S("knots", G.Ptr(it.array("knotptrs", kp), 0))
    S("coefficients", G.Ptr(it.array("coefficients", [H.fv(c) for c in desc["coeffs"]]), 0))
    e0 = it.array("extents0", [H.fv(v) for e in desc["extents"] for v in e])
    S("extents", G.Ptr(it.array("extents", [G.Ptr(e0, 2 * d) for d in range(nd)]), 0))
    if desc["periods"] is not None: S("periods", G.Ptr(it.array("periods", [H.fv(Fr(p)) for p in desc["periods"]]), 0))
    ents = []
    for k, v in desc["aux"]:
        ks = it.array("key", [ord(c) for c in k] + [0]); vs = it.array("value", [ord(c) for c in v] + [0])
        ents.append(G.Ptr(it.array("entry", [G.Ptr(ks, 0), G.Ptr(vs, 0)]), 0))
    S("naux", len(ents)); S("aux", G.Ptr(it.array("aux", ents), 0) if ents else G.NULL)

def independent_read(f):
    """reader of the documented layout, written without looking at read_fits_core"""
    p = f.hdus[0]; bad = []
    if p.bitpix != -32: bad.append("coefficient image has BITPIX %d, not -32 (float)" % p.bitpix)
    nd = len(p.axes); naxes = list(reversed(p.axes)); S = M.Session(f)
    orders = []
    for d in range(nd):
        st, v = S.read_key_long("ORDER%d" % d)
        if st: bad.append("ORDER%d missing" % d); v = None
        orders.append(v)
    knots = []
    for d in range(nd):
        hs = [h for h in f.hdus[1:] if any(M.card_name(c) == "EXTNAME" and M.string_value(M.card_value(c)) == "KNOTS%d" % d for c in h.cards)]
        if len(hs) != 1: bad.append("%d extensions named KNOTS%d" % (len(hs), d)); knots.append(None); continue
        h = hs[0]
        if h.bitpix != -64 or len(h.axes) != 1: bad.append("KNOTS%d is not a one-dimensional double image" % d)
        knots.append(list(h.data))
    hs = [h for h in f.hdus[1:] if any(M.card_name(c) == "EXTNAME" and M.string_value(M.card_value(c)) == "EXTENTS" for c in h.cards)]
    ext = None
    if len(hs) == 1 and hs[0].bitpix == -64 and hs[0].axes == [2 * nd]: ext = [tuple(hs[0].data[2 * d:2 * d + 2]) for d in range(nd)]
    else: bad.append("no single double EXTENTS image of 2*ndim values")
    reserved = ("BITPIX", "SIMPLE", "TYPE", "ORDER", "NAXIS", "PERIOD", "EXTEND", "COMMENT")
    aux = []
    for c in p.cards:
        n = M.card_name(c)
        if any(n.startswith(r) for r in reserved) or n in ("", "HISTORY"): continue
        aux.append((n, M.string_value(M.card_value(c)) if M.value_type(M.card_value(c)) == "C" else M.card_value(c)))
    return dict(orders=orders, naxes=naxes, knots=knots, coeffs=list(p.data), extents=ext, aux=aux), bad

def table_of(it):
    bad, t = c07.wellformed(it)
    return bad, t

def run_case(args):
    tag, desc = args; t0 = time.time(); out = []
    def ob(name, ok, detail=""): out.append(("%s [%s]" % (name, tag), ok, detail[:600], time.time() - t0))
    written = None
    try:
        nd = len(desc["orders"]); naxes = [len(desc["knots"][d]) - desc["orders"][d] - 1 for d in range(nd)]
        it, al = fresh(); load_table(it, desc); W = M.Writer(); H.install_cfitsio_writer(it, W, CONSTS)
        try: it.call("write_fits_core", [1]); err = None
        except G.ExecError as ex: err = "%s: %s" % (type(ex).__name__, ex)
        thrown = it.globals["vp_thrown"].cells[0]
        ob("writing a valid table succeeds and is memory-safe", err is None and not thrown, err or "write_fits_core threw")
        if err or thrown: return out, None
        written = W.f
        got, bad = independent_read(written)
        if got["naxes"] != naxes: bad.append("image axes reversed give %s, table has %s" % (got["naxes"], naxes))
        if got["orders"] != desc["orders"]: bad.append("ORDERn keys %s, table %s" % (got["orders"], desc["orders"]))
        if got["knots"] != desc["knots"]: bad.append("KNOTSn data differ from the knot vectors")
        if got["coeffs"] != desc["coeffs"]: bad.append("image pixels differ from the coefficient array in memory order (first difference at %s)" % next((i for i, (a, b) in enumerate(zip(got["coeffs"], desc["coeffs"])) if a != b), "length"))
        if got["extents"] != [tuple(e) for e in desc["extents"]]: bad.append("EXTENTS data %s, table %s" % (got["extents"], desc["extents"]))
        if [(k, v.rstrip(" ")) for k, v in got["aux"]] != [(k, v.rstrip(" ")) for k, v in desc["aux"]]: bad.append("auxiliary cards %s, table %s" % (got["aux"][:4], desc["aux"][:4]))
        ob("written file follows the documented layout (independent reader recovers the arrays)", not bad, "; ".join(bad))
        # round trip through the extracted reader
        it2, al2 = fresh(); S = M.Session(M.clone(written)); H.install_cfitsio(it2, S, CONSTS)
        try: ret = it2.call("read_fits_core", [1]); err = None
        except G.ExecError as ex: err = "%s: %s" % (type(ex).__name__, ex); ret = None
        if err or it2.globals["vp_thrown"].cells[0] or not ret:
            ob("what was written can be read back", False, err or "the reader reported failure"); return out, None
        wbad, t = table_of(it2); bad = list(wbad)
        if t is not None:
            if t["order"] != desc["orders"]: bad.append("orders %s != %s" % (t["order"], desc["orders"]))
            if t["naxes"] != naxes: bad.append("axis lengths %s != %s" % (t["naxes"], naxes))
            if t.get("knots") != desc["knots"]: bad.append("knot vectors differ")
            if t.get("coefficients") != desc["coeffs"]: bad.append("coefficients differ (first at %s)" % next((i for i, (a, b) in enumerate(zip(t.get("coefficients") or [], desc["coeffs"])) if a != b), "length"))
            if t.get("extents") != [list(e) for e in desc["extents"]]: bad.append("extents %s != %s" % (t.get("extents"), desc["extents"]))
            if desc["periods"] is not None and t.get("periods") != [Fr(p) for p in desc["periods"]]: bad.append("periods %s != %s" % (t.get("periods"), desc["periods"]))
            ga = t.get("aux", [])
            if [k for k, v in ga] != [k for k, v in desc["aux"]]: bad.append("auxiliary keys %s != %s" % ([k for k, v in ga][:5], [k for k, v in desc["aux"]][:5]))
            else:
                for (k, v), (k0, v0) in zip(ga, desc["aux"]):
                    if not (v.startswith(v0) and v[len(v0):].strip(" ") == ""): bad.append("auxiliary value of %r: %r, written %r (only trailing blanks may be gained)" % (k, v, v0)); break
        ob("reading back what was written yields an identical table", not bad, "; ".join(bad))
        # second generation (what the real library does in the conformance run: read the file, write it again)
        W2 = M.Writer(); H.install_cfitsio_writer(it2, W2, CONSTS)
        try:
            it2.call("write_fits_core", [1])
            if not it2.globals["vp_thrown"].cells[0]: written = (written, W2.f)
        except G.ExecError: pass
        # memory back end: write_fits_mem -> buffer -> read_fits_mem into a fresh object (unified unit, tools/tableprog.py)
        if TPROG is not None:
            tp, tparams = TPROG; disk = T.Disk(); w0 = written[0] if isinstance(written, tuple) else written
            im, alm = T.new_object(tp, tparams, CONSTS, disk, X14.RatDom()); load_table(im, desc)
            ob_ = im.array("out_buf", [None]); os_ = im.array("out_size", [None])
            try: im.call("write_fits_mem", [G.Ptr(ob_, 0), G.Ptr(os_, 0)]); merr = None
            except G.ExecError as ex: merr = "%s: %s" % (type(ex).__name__, ex)
            if merr or im.globals["vp_thrown"].cells[0]: ob("memory back end: writing succeeds", False, merr or "write_fits_mem threw")
            else:
                buf = ob_.cells[0]; size = os_.cells[0]; fmem = disk.files.get(("mem", id(buf.obj)))
                same_bytes = fmem is not None and fmem.to_bytes() == w0.to_bytes() and size == len(w0.to_bytes())
                ob("memory back end: the buffer holds the same file as the disk back end writes, with its size reported", same_bytes, "memory file differs from the disk file or size %s != %s" % (size, len(w0.to_bytes())))
                i2m, al2m = T.new_object(tp, tparams, CONSTS, disk, X14.RatDom())
                try: retm = i2m.call("read_fits_mem", [buf, size]); merr = None
                except G.ExecError as ex: retm = None; merr = "%s: %s" % (type(ex).__name__, ex)
                if merr or i2m.globals["vp_thrown"].cells[0] or not retm: ob("memory back end: what was written can be read back", False, merr or "read_fits_mem reported failure")
                else:
                    wbad, tm = table_of(i2m); bad = list(wbad)
                    if tm is not None and (tm["order"] != desc["orders"] or tm.get("knots") != desc["knots"] or tm.get("coefficients") != desc["coeffs"] or tm.get("extents") != [list(e) for e in desc["extents"]] or [k for k, v in tm.get("aux", [])] != [k for k, v in desc["aux"]]): bad.append("content differs from the table written")
                    ob("memory back end: reading back yields an identical table", not bad, "; ".join(bad))
                    # the library's own operator== (extracted, R37) on the original and the re-read table
                    for n_ in ("ndim", "naux") + T.MEMBERS: im.globals["vp_other_" + n_].cells[0] = i2m.globals[n_].cells[0]
                    eq = bool(im.call("vp_equals", []))
                    if "nan" not in desc["coeffs"]: ob("the re-read table compares equal to the original (operator==)", eq, "operator== reports the re-read table different")
                    else: ob("a table with NaN coefficients does not compare equal to its copy (IEEE semantics of operator==, not judged by C06)", True)
        # legacy files from the independent writer: no EXTENTS / PERIOD (default extents = the fully supported range, as fit() assigns them), single ORDER key
        variants = [("without EXTENTS and PERIOD", dict(extents=None, periods=None, single_order=False))]
        if len(set(desc["orders"])) == 1: variants.append(("with a single ORDER key", dict(extents=desc["extents"], periods=desc["periods"], single_order=True)))
        for vname, kw in variants:
            itl, all_ = fresh(); fl = M.spline_file(orders=desc["orders"], knots=desc["knots"], coeffs=desc["coeffs"], aux=[(k, v) for k, v in desc["aux"]], **kw); H.install_cfitsio(itl, M.Session(fl), CONSTS)
            try: ret = itl.call("read_fits_core", [1]); err = None
            except G.ExecError as ex: ret = None; err = "%s: %s" % (type(ex).__name__, ex)
            if err or itl.globals["vp_thrown"].cells[0] or not ret: ob("legacy file %s is read" % vname, False, err or "the reader reported failure"); continue
            wbad, tl = table_of(itl); bad = list(wbad)
            if tl is not None:
                want_ext = [list(e) for e in desc["extents"]] if kw["extents"] is not None else [[desc["knots"][d][desc["orders"][d]], desc["knots"][d][naxes[d]]] for d in range(nd)]
                if tl["order"] != desc["orders"] or tl.get("knots") != desc["knots"] or tl.get("coefficients") != desc["coeffs"]: bad.append("orders / knots / coefficients differ from the encoded table")
                if tl.get("extents") != want_ext: bad.append("extents %s, expected %s" % (tl.get("extents"), want_ext))
                if kw["periods"] is None and tl.get("periods") != [Fr(0)] * nd: bad.append("periods %s, expected zeros" % (tl.get("periods"),))
            ob("legacy file %s decodes to the table it encodes" % vname, not bad, "; ".join(bad))
        # the independent writer's file is read as the table it encodes
        it3, al3 = fresh(); f0 = M.spline_file(**{**desc, "aux": [(k, v) for k, v in desc["aux"]]}); H.install_cfitsio(it3, M.Session(f0), CONSTS)
        ret = it3.call("read_fits_core", [1])
        if it3.globals["vp_thrown"].cells[0] or not ret: ob("a file written independently in the documented layout is read", False, "the reader reported failure")
        else:
            wbad, t3 = table_of(it3); bad = list(wbad)
            if t3 is not None and (t3["order"] != desc["orders"] or t3.get("knots") != desc["knots"] or t3.get("coefficients") != desc["coeffs"] or t3.get("extents") != [list(e) for e in desc["extents"]]): bad.append("content differs from the encoded table")
            ob("a file written independently in the documented layout is read as the table it encodes", not bad, "; ".join(bad))
    except Exception as ex:
        ob("execution", False, "%s: %s" % (type(ex).__name__, ex))
    return out, written

def reference_file(path):
    """a file shipped with the project: parsed into the model byte by byte, read by the extracted reader, decoded by the independent
    reader of the layout, and compared number by number with what the real library reads"""
    t0 = time.time(); tag = "reference file %s" % os.path.basename(path); out = []
    def ob(name, ok, detail=""): out.append(("%s: %s" % (tag, name), ok, detail[:500], time.time() - t0))
    try:
        b = open(path, "rb").read(); f = M.from_bytes(b)
        ob("the model parses the file and serialises it back to the same bytes", f.to_bytes() == b, "to_bytes(from_bytes(file)) differs from the file")
        it, al = fresh(); H.install_cfitsio(it, M.Session(f), CONSTS)
        ret = it.call("read_fits_core", [1])
        if it.globals["vp_thrown"].cells[0] or not ret: ob("the extracted reader accepts it", False, "the reader reported failure"); return out
        wbad, t = table_of(it)
        ob("the extracted reader yields a well-formed table", not wbad and t is not None, "; ".join(wbad))
        if t is None: return out
        got, bad = independent_read(f)
        if got["orders"] != t["order"] or got["knots"] != t["knots"] or got["coeffs"] != t["coefficients"] or got["naxes"] != t["naxes"]: bad.append("the independent reader of the documented layout recovers other arrays than the extracted reader")
        ob("independent reader of the layout and extracted reader agree", not bad, "; ".join(bad))
        rc, o, w = vlib.sh("timeout -s KILL 60 %s dump %s" % (PROBE, path), timeout=120)
        real = json.loads(o.strip().splitlines()[-1])
        bad = []
        num = lambda v: float(v) if not isinstance(v, str) else {"nan": float("nan"), "inf": float("inf"), "-inf": float("-inf"), "-0": -0.0}[v]
        if real.get("failed"): bad.append("the real library rejects the file: " + str(real.get("what")))
        else:
            if real["order"] != t["order"] or real["naxes"] != t["naxes"] or real["strides"] != t["strides"]: bad.append("orders / axis lengths / strides differ")
            if [[float(x) for x in k] for k in real["knots"]] != [[num(x) for x in k] for k in t["knots"]]: bad.append("knots differ")
            if [[float(x) for x in e] for e in real["extents"]] != [[num(x) for x in e] for e in t["extents"]]: bad.append("extents differ")
            import struct
            f32 = lambda v: struct.unpack("f", struct.pack("f", v))[0]          # %.9g identifies a binary32 value; compare as binary32
            rc_ = [f32(float(x)) for x in real["coefficients"]]; mc = [f32(num(x)) for x in t["coefficients"]]
            if len(rc_) != len(mc) or any(a != b_ and not (a != a and b_ != b_) for a, b_ in zip(rc_, mc)): bad.append("coefficients differ")
        ob("the real library reads the same table, number by number", not bad, "; ".join(bad))
    except Exception as ex:
        ob("execution", False, "%s: %s" % (type(ex).__name__, ex))
    return out

def native_rewrite(args):
    src, dst = args
    rc, o, w = vlib.sh("timeout -s KILL 60 %s rewrite %s %s" % (PROBE, src, dst), timeout=120)
    rc2, o2, w2 = vlib.sh("timeout -s KILL 60 %s rewritemem %s %s.mem" % (PROBE, src, dst), timeout=120)
    return rc, o + o2

def main():
    global PROG, CONSTS, PROBE
    thorough = vlib.TIER == "thorough"
    rep = vlib.Report("C06", level="exploration")
    fs = units.fits_functions(); CONSTS = units.cfitsio_constants()
    prog = G.Program.compile(units.fits_prelude() + "".join(f.text(None) for f in fs.values()), vlib.workdir(), "fits")
    PROG = (prog, {f.name: E.param_names(f.header, f.name) for f in fs.values()})
    for k in ("write_fits_core", "read_fits_core", "read_fits_core_wrapper"):
        if k in fs: rep.functions.append(fs[k].info())
    global TPROG
    tp, tparams, tfns = T.build(vlib.workdir()); TPROG = (tp, tparams)
    for k in ("write_fits_mem", "read_fits_mem", "vp_equals"):
        if k in tfns: rep.functions.append(tfns[k].info())
    cases = tables(thorough); t0 = time.time()
    with mp.Pool(min(vlib.NCORES, 16)) as pool: res = pool.map(run_case, cases, chunksize=1)
    flat = [o for r, _ in res for o in r]
    rep.add_group("E3 execution of the GOTO program of the extracted writer and reader against the cfitsio model (BOUNDED)", len(flat), sum(1 for o in flat if o[1]), time.time() - t0,
                  bounded="%d tables: 1..%d dimensions, unequal axis lengths, orders 0..5, finite / NaN / inf / -0 / denormal / FLT_MAX coefficients, default and non-default extents, with and without periods, 0..%d auxiliary keys" % (len(cases), 9 if thorough else 4, 46 if thorough else 6), name="C06-roundtrip")
    # conformance of the writer model: the real library re-writes the same table; files must be identical
    exe = os.path.join(vlib.workdir(), "fits_probe")
    rc, o, w = vlib.sh("g++ -std=c++11 -g -O1 -I%s/include %s/tools/replay/fits_probe.cpp %s/src/core/*.cpp -lcfitsio -o %s" % (vlib.REPO, vlib.VERIF, vlib.REPO, exe), timeout=900)
    if rc != 0: raise RuntimeError("native probe does not build: " + o[-600:])
    PROBE = exe
    fdir = os.path.join(vlib.workdir(), "files"); os.makedirs(fdir, exist_ok=True); jobs = []
    for k, ((tag, desc), (r, written)) in enumerate(zip(cases, res)):
        if not isinstance(written, tuple): continue
        src = os.path.join(fdir, "m%03d.fits" % k); open(src, "wb").write(written[0].to_bytes()); open(src + ".second", "wb").write(written[1].to_bytes()); jobs.append((k, src, os.path.join(fdir, "n%03d.fits" % k)))
    t1 = time.time()
    with mp.Pool(min(vlib.NCORES, 16)) as pool: nat = pool.map(native_rewrite, [(s, d) for k, s, d in jobs], chunksize=1)
    confbad = []
    for (k, src, dst), (rc, o) in zip(jobs, nat):
        tag = cases[k][0]
        if not os.path.exists(dst): confbad.append((tag, "the real library could not read / re-write the model's file: " + o[-300:])); continue
        a = open(src + ".second", "rb").read(); b = open(dst, "rb").read()
        if a != b:
            pos = next((i for i in range(min(len(a), len(b))) if a[i] != b[i]), min(len(a), len(b)))
            confbad.append((tag, "files differ at byte %d (card %d of its header block): model %r, cfitsio %r" % (pos, (pos % 2880) // 80, a[pos - pos % 80:pos - pos % 80 + 80], b[pos - pos % 80:pos - pos % 80 + 80])))
        elif not os.path.exists(dst + ".mem") or open(dst + ".mem", "rb").read() != b: confbad.append((tag, "the buffer produced by the real write_fits_mem differs from the file written by write_fits"))
        elif o.count('"equal": true') != 2 and "nan" not in cases[k][1]["coeffs"]: confbad.append((tag, "operator== of the library reports the re-read table different: " + o[-200:]))
    import glob
    refs = sorted(glob.glob(os.path.join(vlib.REPO, "test", "test_data", "*.fits")))
    t2 = time.time()
    with mp.Pool(min(vlib.NCORES, 10)) as pool: rres = pool.map(reference_file, refs, chunksize=1)
    rflat = [o for r in rres for o in r]
    rep.add_group("the reference files shipped with the project: model parse, extracted reader, independent reader and real library agree number by number", len(rflat), sum(1 for o in rflat if o[1]), time.time() - t2, bounded="the %d files under test/test_data" % len(refs), name="C06-reference-files")
    for o in rflat:
        if not o[1]: rep.add_violation("C06-reference-files", o[0].replace(" ", "_")[:160], o[0][:300] + ": " + o[2], trace=o[2])
    rep.add_group("conformance of the cfitsio model (writer side): the file written by the extracted writer is read and re-written both by the extracted code over the model and by the real library over the installed cfitsio: the two second-generation files are identical byte for byte", len(jobs), len(jobs) - len(confbad), time.time() - t1, bounded="the %d explored tables" % len(jobs), name="C06-model-conformance")
    if confbad:
        for c in confbad[:10]: print("MODEL-MISMATCH %s :: %s" % c)
        raise RuntimeError("the cfitsio model disagrees with the installed cfitsio on %d tables (first: %s :: %s)" % (len(confbad), confbad[0][0], confbad[0][1][:300]))
    for o in flat:
        if o[1]: continue
        tag = o[0][o[0].index("[") + 1:-1]; k = next(i for i, c in enumerate(cases) if c[0] == tag); rp = None
        src = os.path.join(fdir, "m%03d.fits" % k)
        if os.path.exists(src):
            keep = os.path.join(vlib.REPLAY_DIR, "C06_" + "".join(ch if ch.isalnum() else "_" for ch in tag)[:80] + ".fits"); os.makedirs(vlib.REPLAY_DIR, exist_ok=True)
            open(keep, "wb").write(open(src, "rb").read()); rc, out = c07_native_read(keep)
            rp = dict(replayed=True, input=keep, observed=("exit %d\n" % rc) + out[-2000:], command="tools/replay/fits_probe.cpp read <file written by the extracted writer> (real library)")
        rep.add_violation("C06-roundtrip", o[0].replace(" ", "_")[:160], o[0][:300] + ": " + o[2], trace=o[2], replay=rp)
    rep.samples += [o[0][:200] for o in flat[:3]]
    rep.extra["evaluations"] = len(cases); rep.extra["distinct_nontrivial"] = len(cases)
    rep.extra["rule"] = "one evaluation = one table written by the extracted writer, decoded by an independent reader of the documented layout, read back by the extracted reader and compared field by field; all tables are distinct and non-trivial"
    rep.assume("cfitsio is an ASSUMED CONTRACT (specs/fitsmodel.py); on the writer side its output is compared byte for byte with what the real library + installed cfitsio write for the same table, on the reader side see C07's conformance obligations",
               "BOUNDED: enumerated tables; the memory back end is covered through the extracted write_fits_mem / read_fits_mem over the same model (the buffer's bytes are the model file's); the reference files shipped under test/test_data are parsed byte by byte into the model and decoded by the extracted reader, the independent reader and the real library (C06-reference-files)",
               "equality is judged field by field by the check; the library's operator== is extracted too (R37) and must report the re-read table equal for tables without NaN (it is also run natively)",
               "PERIODn values are written by cfitsio with 15 significant digits: exact only for the values explored (0, 6.25)")
    rep.trust("tools/gotoexec.py", "goto-cc front end", "tools/extract.py rules", "specs/fitsmodel.py")
    rep.finish(None)

def c07_native_read(path):
    rc, o, w = vlib.sh("timeout -s KILL 30 %s read %s" % (PROBE, path), timeout=60)
    return rc, o

if __name__ == "__main__":
    main()
