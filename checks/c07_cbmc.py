"""C07, symbolic part: the extracted reader under CBMC with NONDETERMINISTIC cfitsio answers.

The mechanically extracted read_fits_core (+ its generated guard wrapper) and release() are compiled with C stubs in which
every cfitsio routine returns an arbitrary status and arbitrary outputs (header values, image sizes, key strings, pixel
data), within the stated box.  The harness asserts the reader's postcondition of C07 for ALL such answers:
   returns without exception  => every dimension: naxes == nknots-order-1 >= order+1, knots finite and non-decreasing,
                                 strides consistent, every array readable at the size the header implies
   exception                  => ndim == 0, every member pointer null, number of live allocator blocks == 0
plus CBMC's own pointer / bounds / overflow checks inside the reader and release().
BOUNDED (unwinding with unwinding assertions): ndim <= 2, image axis lengths in [-1, 5], orders <= 3, knot counts <= 8,
at most 2 header cards with keys / values of at most 3 characters."""
import os, re
from tools import vlib, units

STUBS = r'''
#include <stdlib.h>
#include <math.h>
int nondet_int(void); long nondet_long(void); unsigned nondet_uint(void); double nondet_double(void); float nondet_float(void); char nondet_char(void);
long vp_live;                                   /* ghost: blocks obtained from the allocator and not yet returned */
void* vp_allocate(size_t elsize, size_t n) { __CPROVER_assume(n <= 64); void* p = malloc(elsize * n); __CPROVER_assume(p != NULL); vp_live++; return p; }
void  vp_deallocate(void* p, size_t n) { __CPROVER_assert(p != NULL, "deallocate of a null pointer"); free(p); vp_live--; }
void* vp_new(size_t elsize, size_t n) { void* p = malloc(elsize * n); __CPROVER_assume(p != NULL); return p; }
void  vp_copy(const void* first, const void* last, void* out) { size_t n = (const char*)last - (const char*)first; for (size_t k = 0; k < n; k++) ((char*)out)[k] = ((const char*)first)[k]; }
void  vp_fill(void* first, void* last, long value) { for (uint32_t* p = (uint32_t*)first; p < (uint32_t*)last; p++) *p = (uint32_t)value; }   /* used on the order array only */
void  vp_fill_null(void* first, void* last) { for (void** p = (void**)first; p < (void**)last; p++) *p = NULL; }
void  vp_key_name(char* out, const char* prefix, long i) { size_t k = 0; while (prefix[k]) { out[k] = prefix[k]; k++; } out[k] = (char)('0' + i % 10); out[k + 1] = 0; }
void  vp_copy_reverse_long_u64(const long* a, size_t n, uint64_t* out) { for (size_t k = 0; k < n; k++) out[k] = (uint64_t)a[n - 1 - k]; }
void  vp_partial_product_long_u64(const long* first, const long* last, uint64_t* out) { uint64_t acc = 1; size_t k = 0; for (const long* p = first; p < last; p++) { acc = (k == 0) ? (uint64_t)*p : acc * (uint64_t)*p; out[k++] = acc; } }
void  vp_reverse(void* first, void* last) { uint64_t* a = (uint64_t*)first; uint64_t* b = (uint64_t*)last; while (a < b && a < --b) { uint64_t t = *a; *a = *b; *b = t; a++; } }
int   vp_isfinite(double x) { return !isnan(x) && !isinf(x); }
bool  reservedFitsKeyword(const char* key) { return nondet_int() != 0; }          /* any classification of the cards */
/* ---- cfitsio: arbitrary answers (each routine does nothing when *status > 0 on entry, as cfitsio does) */
#define ENTER if (*status > 0) return *status; { int vp_s = nondet_int(); __CPROVER_assume(vp_s >= 0); *status = vp_s; if (vp_s) return vp_s; }
int fits_get_num_hdus(fitsfile* f, int* n, int* status) { ENTER *n = nondet_int(); return 0; }
int fits_movabs_hdu(fitsfile* f, int n, int* type, int* status) { ENTER if (type) *type = nondet_int(); return 0; }
int fits_get_img_dim(fitsfile* f, int* naxis, int* status) { ENTER int v = nondet_int(); __CPROVER_assume(v >= -1 && v <= VP_MAXDIM); *naxis = v; return 0; }
int fits_get_img_size(fitsfile* f, int maxdim, long* naxes, int* status) { ENTER int have = nondet_int(); __CPROVER_assume(have >= 0 && have <= maxdim);   /* cfitsio fills min(maxdim, NAXIS) entries */
  for (int k = 0; k < have; k++) { long v = nondet_long(); __CPROVER_assume(v >= -1 && v <= VP_MAXLEN); naxes[k] = v; } return 0; }
int fits_get_hdrspace(fitsfile* f, int* nexist, int* nmore, int* status) { ENTER int v = nondet_int(); __CPROVER_assume(v >= -1 && v <= 2); *nexist = v; return 0; }
int fits_read_keyn(fitsfile* f, int n, char* key, char* value, char* comm, int* status) { ENTER
  for (int k = 0; k < 3; k++) { key[k] = nondet_char(); value[k] = nondet_char(); } key[3] = 0; value[3] = 0; return 0; }
int fits_read_key(fitsfile* f, int type, const char* name, void* value, char* comm, int* status) { ENTER
  if (type == TDOUBLE) *(double*)value = nondet_double(); else { unsigned v = nondet_uint(); __CPROVER_assume(v <= 3); *(unsigned*)value = v; } return 0; }
int fits_read_pix(fitsfile* f, int type, long* fpixel, long long nelem, void* nulval, void* array, int* anynul, int* status) { ENTER
  if (type == TFLOAT) { for (long long k = 0; k < nelem; k++) ((float*)array)[k] = nondet_float(); } else { for (long long k = 0; k < nelem; k++) ((double*)array)[k] = nondet_double(); } return 0; }
int fits_movnam_hdu(fitsfile* f, int type, char* extname, int extver, int* status) { ENTER return 0; }
'''

HARNESS = r'''
void harness(void)
{
  ndim = 0; naux = 0; order = NULL; knots = NULL; nknots = NULL; extents = NULL; periods = NULL; coefficients = NULL; naxes = NULL; strides = NULL; aux = NULL;
  vp_thrown = 0; vp_live = 0;
  fitsfile file; bool ok = read_fits_core(&file);
  if (vp_thrown || !ok) {
    __CPROVER_assert(ndim == 0, "failed read leaves the object empty: ndim == 0");
    __CPROVER_assert(order == NULL && knots == NULL && nknots == NULL && extents == NULL && periods == NULL && coefficients == NULL && naxes == NULL && strides == NULL && aux == NULL && naux == 0, "failed read leaves every member null");
    __CPROVER_assert(vp_live == 0, "failed read returns every block it obtained from the allocator");
    __CPROVER_assert(vp_thrown, "a read that returns false has reported an exception");
  } else {
    __CPROVER_assert(ndim >= 1 && ndim <= VP_MAXDIM, "successful read: dimension count as the image says");
    uint64_t st = 1;
    for (uint32_t e = ndim; e > 0; e--) {
      uint32_t d = e - 1;
      __CPROVER_assert(naxes[d] == nknots[d] - order[d] - 1, "successful read: naxes == nknots - order - 1");
      __CPROVER_assert(naxes[d] >= (uint64_t)order[d] + 1, "successful read: at least order+1 coefficients");
      __CPROVER_assert(strides[d] == st, "successful read: strides are the products of the trailing axis lengths");
      st *= naxes[d];
      __CPROVER_assert(__CPROVER_r_ok(knots[d] - order[d], (nknots[d] + 2 * order[d]) * sizeof(double)), "successful read: knot storage of nknots + 2*order doubles");
      for (uint64_t j = 0; j < nknots[d]; j++) {
        __CPROVER_assert(!isnan(knots[d][j]) && !isinf(knots[d][j]), "successful read: knots finite");
        if (j) __CPROVER_assert(knots[d][j - 1] <= knots[d][j], "successful read: knots non-decreasing");
      }
      __CPROVER_assert(__CPROVER_r_ok(extents[d], 2 * sizeof(double)), "successful read: extents of the dimension readable");
    }
    __CPROVER_assert(__CPROVER_r_ok(coefficients, st * sizeof(float)), "successful read: coefficient storage of prod(naxes) floats");
    __CPROVER_assert(0, "canary: a successful read is reachable");
  }
  __CPROVER_assert(!vp_thrown, "canary: a failing read is reachable");
}
'''

def job(thorough):
    fs = units.fits_functions()
    need = ["release", "read_fits_core", "read_fits_core_wrapper"]
    if any(n not in fs for n in need): return None, []
    pre = units.fits_prelude()
    # the C stubs define what the E3 prelude only declares; the conflicting prototype of reservedFitsKeyword etc. stays compatible
    maxdim, maxlen = (2, 5) if not thorough else (2, 6)
    text = "#define VP_MAXDIM %d\n#define VP_MAXLEN %d\n" % (maxdim, maxlen) + pre + STUBS + fs["release"].text(None) + fs["read_fits_core"].text(None) + fs["read_fits_core_wrapper"].text(None) + HARNESS
    unw = maxlen + 2 * 3 + 4
    j = vlib.Job("C07-reader-symbolic-cfitsio", text, "harness", loop_contracts=False, cbmc_flags=["--unwind", str(unw), "--object-bits", "10"],
                 expect_fail=[r"canary"], must_have=[r"harness\.assertion"], split=12, split_procs=12, timeout=2400,
                 backend="cbmc-sat (extracted reader + release(), nondeterministic cfitsio stubs, unwinding)",
                 bounded="ndim <= %d, image axis lengths in [-1, %d], orders <= 3, <= 2 header cards with 3-character keys / values; every status and every value returned by cfitsio symbolic; loops unwound %d times with unwinding assertions" % (maxdim, maxlen, unw),
                 note="read_fits_core (with its scope-guard wrapper) and release() extracted; cfitsio, the allocator (malloc + ghost counter) and the std:: algorithms are C stubs (checks/c07_cbmc.py)")
    return j, [fs[n] for n in need]
