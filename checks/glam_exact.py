"""The whole glamfit_complex (glam.c) executed exactly: obligations for C09 (unconstrained) and C10 (monotonic).

glamfit_complex, flatten_ndarray_to_sparse (glam.c, verbatim apart from R33) and bsplinebasis, bspline, cholmod_tril, box,
slicemultiply, ndsparse_allocate (splineutil.c, verbatim) are executed from CBMC's GOTO program over exact rationals;
cholmod's sparse primitives are exact matrix algebra supplied by the interpreter (checks/c17.py + add / sparse_to_dense
here), and the linear solvers cholesky_solve / nnls_normal_block3 are ASSUMED CONTRACTS: the hook records the system it is
handed and returns (a) the exact solution of A x = b (unconstrained) or (b) a chosen non-negative vector (monotonic).
Obligations, each against an independent oracle built from the property statement (design matrices from Cox-de Boor,
weights, data; the penalty matrix is an argument of glamfit_complex and is decided in C09/C10-penalty-matrix):
  G1  the matrix handed to the solver == (I x L x I)' (sum_r w_r b_r b_r') (I x L x I) + penalty, exactly   (L = I without a monotonic dimension)
  G2  the right-hand side == (I x L x I)' sum_r w_r z_r b_r
  G3  the coefficients written out == (I x L x I) (solver result)      [running sums along the monotonic dimension]
  G4  (unconstrained, solver = exact solve) the coefficients are the exact minimiser of sum_r w_r (z_r - b_r'c)^2 + c'Pc
R33: memcpy(A, B, N * sizeof(T)) -> vp_copy(B, B + N, A) (element-wise copy of N objects; the interpreter has no byte view)."""
import sys, os, time, itertools, re
from fractions import Fraction as Fr
from tools import vlib, units, gotoexec as G, e3lib as E, extract as X
import c14_exact as X14, c17

PROG = None
C11 = None         # checks/c11.py with its program built (set by add() for monotonic runs): the real NNLS solver instead of an arbitrary non-negative answer
F = lambda q: G.FV(Fr(q), Fr(q))
PRELUDE_EXTRA = r'''
#include <string.h>
#define PHOTOSPLINE_GLAM_NO_MONODIM ((uint32_t)-1)
void* malloc(size_t);
int printf(const char*, ...);
double sqrt(double);
void vp_copy(const void* first, const void* last, void* out);
cholmod_sparse* cholmod_l_add(cholmod_sparse*, cholmod_sparse*, double*, double*, int, int, cholmod_common*);
cholmod_dense* cholmod_l_sparse_to_dense(cholmod_sparse*, cholmod_common*); cholmod_dense* cholmod_l_zeros(size_t, size_t, int, cholmod_common*);
cholmod_dense* cholesky_solve(cholmod_sparse* AtA, cholmod_dense* Atb, cholmod_common* c, int verbose, int n_resolves);
cholmod_dense* nnls_normal_block3(cholmod_sparse* AtA, cholmod_dense* Atb, int verbose, cholmod_common* c);
int ndsparse_allocate(struct ndsparse* s, size_t rows, size_t ndim);
cholmod_sparse* cholmod_tril(int dim, cholmod_common* c);
double bspline(const double* knots, double x, int i, int n);
cholmod_sparse* bsplinebasis(const double* knots, size_t nknots, const double* x, size_t npts, int order, cholmod_common* c);
int slicemultiply(struct ndsparse* a, cholmod_sparse* b, int dim, cholmod_common* c);
cholmod_sparse* box(cholmod_sparse* a, cholmod_sparse* b, cholmod_common* c);
static cholmod_sparse* flatten_ndarray_to_sparse(struct ndsparse* array, size_t nrow, size_t ncol, cholmod_common* c);
'''

def build():
    cs = [units.free_function("src/fitter/splineutil.c", n) for n in ("ndsparse_allocate", "cholmod_tril", "bspline", "bsplinebasis", "slicemultiply", "box")]
    gs = [units.free_function("src/fitter/glam.c", n) for n in ("flatten_ndarray_to_sparse", "glamfit_complex")]
    for f in cs + gs:
        r = X.Rules()
        f.body = r.sub("R33_memcpy", r"memcpy\(([^,;]+),\s*([^,;]+),\s*([^;]+?)\s*\*\s*sizeof\((\w+)\)\);", r"vp_copy((\2), (\2) + (\3), (\1));", f.body)
        f.rule_counts.update(r.counts)
        if "memcpy(" in f.body: raise X.ExtractionError("%s: memcpy of an unexpected shape" % f.name)
    gl = [f for f in gs if f.name == "glamfit_complex"][0]
    if not gl.rule_counts.get("R33_memcpy"): raise X.ExtractionError("must-fire rule R33_memcpy did not fire in glamfit_complex")
    text = units.GRIDEVAL_PRELUDE + PRELUDE_EXTRA + "".join(f.text(None) for f in cs + gs)
    prog = G.Program.compile(text, vlib.workdir(), "glamfit")
    params = {f.name: E.param_names(f.header, f.name) for f in cs + gs}
    return prog, params, cs + gs

def problems(monotonic, thorough):
    """(label, orders, nknots, grid lengths, missing cells, weight pattern, monodim)"""
    out = []
    base = [("1-D order 2", (2,), (7,), (6,)), ("1-D order 0", (0,), (4,), (5,)), ("1-D order 3, few points", (3,), (9,), (6,)), ("2-D orders 1,2", (1, 2), (5, 6), (4, 5)), ("2-D orders 2,0", (2, 0), (6, 3), (5, 3))]
    if thorough: base += [("3-D orders 1,0,1", (1, 0, 1), (4, 3, 4), (3, 2, 3)), ("2-D orders 3,1", (3, 1), (8, 5), (6, 4)), ("1-D order 4", (4,), (11,), (8,))]
    else: base += [("3-D orders 1,0,1", (1, 0, 1), (4, 3, 4), (3, 2, 3))]
    for label, o, nk, gl in base:
        nd = len(o)
        for variant in ("dense data", "sparse data, zero and unequal weights, rows shuffled"):
            monos = [None] if not monotonic else list(range(nd))
            for m in monos:
                if monotonic and o[m] == 0 and nd > 1: continue
                out.append(("%s, %s%s" % (label, variant, "" if m is None else ", monotonic dimension %d" % m), o, nk, gl, variant.startswith("sparse"), m))
    return out

def kron_list(mats):
    """Kronecker product of dense matrices given as lists of rows (Fractions)"""
    out = [[Fr(1)]]
    for M in mats:
        out = [[a * b for a in ra for b in rb] for ra in out for rb in M]
    return out

def solve(A, b):
    n = len(A); M = [row[:] + [b[i]] for i, row in enumerate(A)]
    for c in range(n):
        p = next((r for r in range(c, n) if M[r][c] != 0), None)
        if p is None: return None
        M[c], M[p] = M[p], M[c]
        for r in range(n):
            if r != c and M[r][c] != 0:
                f = M[r][c] / M[c][c]; M[r] = [x - f * y for x, y in zip(M[r], M[c])]
    return [M[i][n] / M[i][i] for i in range(n)]

def run_case(args):
    label, orders, nks, glens, sparse, mono = args; t0 = time.time(); nd = len(orders); out = []
    tag = "glamfit_complex %s" % label
    def ob(name, ok, detail=""): out.append(("%s: %s" % (tag, name), ok, detail[:500], time.time() - t0))
    try:
        prog, params = PROG
        it = G.Interp(prog, X14.RatDom()); it.prog_params = params; c17.install(it)
        reg_new = it.hooks["cholmod_l_transpose"]   # any hook that creates a sparse: we need new_sparse/sp; recreate minimal versions through transpose of transpose
        ts = [[Fr(d, 3) + sum(Fr(1 + ((m + d) * m) % 3, 2) for m in range(1, q + 1)) for q in range(nks[d])] for d in range(nd)]
        nspl = [nks[d] - orders[d] - 1 for d in range(nd)]; side = 1
        for a in nspl: side *= a
        # abscissae inside the fully supported range, irregular
        xs = [[ts[d][orders[d]] + (ts[d][nspl[d]] - ts[d][orders[d]]) * Fr(2 * g + 1, 2 * glens[d] + 1 + (g % 2)) for g in range(glens[d])] for d in range(nd)]
        cells = list(itertools.product(*[range(g) for g in glens]))
        if sparse: cells = [c for q, c in enumerate(cells) if q % 4 != 1]
        import random
        rnd = random.Random(len(cells) * 7 + nd)
        if sparse: rnd.shuffle(cells)
        z = [Fr(((q * 5 + 3) % 13) - 6, 3) for q in range(len(cells))]
        w = [Fr(1)] * len(cells) if not sparse else [Fr((q % 4), 2) for q in range(len(cells))]       # some weights are zero
        # penalty: a fixed symmetric positive-definite matrix (the penalty argument is arbitrary for glamfit_complex; its construction is decided elsewhere)
        P = [[(Fr(2) + Fr(i % 3, 5) if i == j else (Fr(-1, 3) if abs(i - j) == 1 else Fr(0))) for j in range(side)] for i in range(side)]
        # ---- marshal
        A = lambda name, vals: G.Ptr(it.array(name, vals), 0)
        data = it.new_obj("data", 1)
        data.cells[0] = dict(rows=len(cells), ndim=nd, x=A("data_x", [F(v) for v in z]), i=A("data_i", [A("idx%d" % d, [c[d] for c in cells]) for d in range(nd)]), ranges=A("ranges", list(glens)))
        # the penalty as a cholmod_sparse of the exact algebra: build through the triplet hooks
        trip = it.hooks["cholmod_l_allocate_triplet"](it, [side, side, side * side, 0, 1, G.NULL]); td = trip.obj.cells[0]; k = 0
        for i in range(side):
            for j in range(side):
                if P[i][j] != 0: td["i"].obj.cells[k] = i; td["j"].obj.cells[k] = j; td["x"].obj.cells[k] = F(P[i][j]); k += 1
        td["nnz"] = k; pen = it.hooks["cholmod_l_triplet_to_sparse"](it, [trip, 0, G.NULL])
        cc = it.array("c", [None]); it.hooks["cholmod_l_start"](it, [G.Ptr(cc, 0)])
        seen = {}
        def dense_of(p):
            d = p.obj.cells[0]; return d["nrow"], d["ncol"], [c.num for c in d["x"].obj.cells[:d["nrow"] * d["ncol"]]]
        def sparse_entries(p):
            t = it.hooks["cholmod_l_sparse_to_triplet"](it, [p, G.NULL]).obj.cells[0]
            return t["nrow"], t["ncol"], {(t["i"].obj.cells[q], t["j"].obj.cells[q]): t["x"].obj.cells[q].num for q in range(t["nnz"])}
        xsol = [Fr((q * 3 + 1) % 5, 2) for q in range(side)]          # what the NNLS hook returns (non-negative)
        def h_solver(which):
            def h(it_, a):
                seen["A"] = sparse_entries(a[0]); seen["b"] = dense_of(a[1]); seen["which"] = which
                nr, nc, m = seen["A"]; Ad = [[m.get((i, j), Fr(0)) for j in range(nc)] for i in range(nr)]
                sol = solve(Ad, seen["b"][2]) if which == "cholesky_solve" else xsol
                if which == "cholesky_solve" and C11 is not None and sol is not None:
                    # the real cholesky_solve (extracted, executed exactly; cholmod's analyze / factorize / solve as assumed contracts), with 0..2 refinement passes
                    try:
                        real = C11.solve_with("cholesky_solve", Ad, seen["b"][2], nthreads=1 + len(Ad) % 3); seen["real"] = (real == sol)
                        if real != sol: seen["real_error"] = "cholesky_solve returns %s..., the solution is %s..." % ([str(v) for v in real[:4]], [str(v) for v in sol[:4]])
                        sol = real
                    except G.ExecError as ex: seen["real_error"] = "%s%s" % (ex, getattr(ex, "loc", ""))
                if which == "nnls_normal_block3" and C11 is not None:
                    # the real solver (extracted nnls_normal_block3, executed exactly by C11's machinery) on the system this fit hands over
                    try: sol = C11.solve_with("nnls_normal_block3", Ad, seen["b"][2], nthreads=1 + len(Ad) % 3, fl_mode=("default", "updates", "recompute")[len(Ad) % 3]); seen["real"] = True
                    except G.ExecError as ex: seen["real_error"] = "%s%s" % (ex, getattr(ex, "loc", "")); sol = xsol
                if sol is None: return G.NULL
                seen["x"] = sol
                o = it_.new_obj("dense", 1); o.cells[0] = dict(nrow=len(sol), ncol=1, x=G.Ptr(it_.array("solx", [F(v) for v in sol]), 0)); return G.Ptr(o, 0)
            return h
        def h_add(it_, a):
            n1, c1, m1 = sparse_entries(a[0]); n2, c2, m2 = sparse_entries(a[1])
            if (n1, c1) != (n2, c2): raise G.ExecError("cholmod_add: shapes differ (%dx%d vs %dx%d)" % (n1, c1, n2, c2))
            al = a[2].obj.cells[a[2].off].num; be = a[3].obj.cells[a[3].off].num; m = {}
            for k_, v in m1.items(): m[k_] = m.get(k_, Fr(0)) + al * v
            for k_, v in m2.items(): m[k_] = m.get(k_, Fr(0)) + be * v
            t = it_.hooks["cholmod_l_allocate_triplet"](it_, [n1, c1, max(len(m), 1), 0, 1, G.NULL]); d = t.obj.cells[0]; q = 0
            for (i, j), v in m.items():
                if v != 0: d["i"].obj.cells[q] = i; d["j"].obj.cells[q] = j; d["x"].obj.cells[q] = F(v); q += 1
            d["nnz"] = q; return it_.hooks["cholmod_l_triplet_to_sparse"](it_, [t, 0, G.NULL])
        def h_s2d(it_, a):
            n, c_, m = sparse_entries(a[0]); o = it_.new_obj("dense", 1)
            o.cells[0] = dict(nrow=n, ncol=c_, x=G.Ptr(it_.array("densex", [F(m.get((r, cl), Fr(0))) for cl in range(c_) for r in range(n)]), 0)); return G.Ptr(o, 0)
        def h_copy(it_, a):
            f, l, o = a; n = l.off - f.off
            if f.obj is not l.obj or n < 0 or l.off > len(f.obj.cells) or o.off + n > len(o.obj.cells): raise G.MemError("memcpy out of bounds (%d objects)" % n)
            seg = f.obj.cells[f.off:l.off]
            if any(c is None for c in seg): raise G.ExecError("memcpy of uninitialised data")
            o.obj.cells[o.off:o.off + n] = seg
        def h_sqrt(it_, a):
            import math
            v = a[0].num; r = math.isqrt(int(v))
            if r * r != v: raise G.ExecError("sqrt of a range that is not a perfect square (%s)" % v)
            return F(r)
        def h_zeros(it_, a):
            nrow, ncol = a[0], a[1]; o = it_.new_obj("dense", 1); o.cells[0] = dict(nrow=nrow, ncol=ncol, x=G.Ptr(it_.array("densex", [F(0)] * (nrow * ncol)), 0)); return G.Ptr(o, 0)
        it.hooks["cholmod_l_zeros"] = h_zeros
        it.hooks.update(cholesky_solve=h_solver("cholesky_solve"), nnls_normal_block3=h_solver("nnls_normal_block3"), cholmod_l_add=h_add, cholmod_l_sparse_to_dense=h_s2d, vp_copy=h_copy, sqrt=h_sqrt,
                        malloc=lambda it_, a: G.Ptr(it_.new_obj("malloc", max(a[0], 1)), 0), printf=lambda it_, a: 0)
        outc = it.array("out_coefficients", [None] * side)
        monoarg = (1 << 32) - 1 if mono is None else mono
        ret = it.call("glamfit_complex", [G.Ptr(data, 0), A("weights", [F(v) for v in w]), A("coords", [A("coord%d" % d, [F(v) for v in xs[d]]) for d in range(nd)]), nd, A("nknots", list(nks)),
                                          A("knotsp", [A("knots%d" % d, [F(v) for v in ts[d]]) for d in range(nd)]), A("naxes", list(nspl)), G.Ptr(outc, 0), A("order", list(orders)), pen, monoarg, 0, G.Ptr(cc, 0)])
        if ret != 0 or "A" not in seen: ob("the fit runs and reaches the solver", False, "return value %s" % ret); return out
        ob("the fit runs inside its objects and reaches the solver it should (%s)" % ("nnls_normal_block3" if mono is not None else "cholesky_solve"), seen["which"] == ("nnls_normal_block3" if mono is not None else "cholesky_solve"), "solver called: " + seen["which"])
        # ---- oracle
        Bd = [[[X14.bspl(ts[d], i, orders[d], x) for i in range(nspl[d])] for x in xs[d]] for d in range(nd)]
        L = lambda n: [[Fr(1) if j <= i else Fr(0) for j in range(n)] for i in range(n)]
        I = lambda n: [[Fr(1) if j == i else Fr(0) for j in range(n)] for i in range(n)]
        T = kron_list([L(nspl[d]) if d == mono else I(nspl[d]) for d in range(nd)])        # B-spline coefficients = T * T-spline coefficients
        N = [[Fr(0)] * side for _ in range(side)]; rhs = [Fr(0)] * side
        for q, cell in enumerate(cells):
            b = kron_list([[Bd[d][cell[d]]] for d in range(nd)])[0]
            nz = [(i, v) for i, v in enumerate(b) if v != 0]
            for i, vi in nz:
                rhs[i] += w[q] * z[q] * vi
                for j, vj in nz: N[i][j] += w[q] * vi * vj
        def mm(Aa, Bb): return [[sum(Aa[i][k] * Bb[k][j] for k in range(len(Bb)) if Aa[i][k] != 0) for j in range(len(Bb[0]))] for i in range(len(Aa))]
        Tt = [list(r) for r in zip(*T)]
        NT = mm(mm(Tt, N), T) if mono is not None else N
        rT = [sum(Tt[i][k] * rhs[k] for k in range(side)) for i in range(side)] if mono is not None else rhs
        want = [[NT[i][j] + P[i][j] for j in range(side)] for i in range(side)]
        nr, nc, m = seen["A"]; bad = []
        if (nr, nc) != (side, side): bad.append("matrix is %dx%d, expected %dx%d" % (nr, nc, side, side))
        else:
            for i in range(side):
                for j in range(side):
                    if m.get((i, j), Fr(0)) != want[i][j]: bad.append("entry (%d,%d) is %s, expected %s" % (i, j, m.get((i, j), Fr(0)), want[i][j]))
                    if len(bad) > 2: break
        ob("G1 the matrix handed to the solver is the (T-spline transformed) weighted normal matrix plus the penalty, exactly", not bad, "; ".join(bad[:3]))
        bn, bc, bx = seen["b"]
        ob("G2 the right-hand side is the (transformed) weighted moment vector, exactly", (bn, bc) == (side, 1) and bx == rT, "rhs %s..., expected %s..." % ([str(v) for v in bx[:4]], [str(v) for v in rT[:4]]))
        got = [c.num if c is not None else None for c in outc.cells]
        wantc = [sum(T[i][k] * seen["x"][k] for k in range(side)) for i in range(side)] if mono is not None else seen["x"]
        ob("G3 the coefficients written out are the solver's result%s" % (" summed along the monotonic dimension" if mono is not None else ""), got == wantc, "got %s..., expected %s..." % ([str(v) for v in got[:5]], [str(v) for v in wantc[:5]]))
        if mono is not None and C11 is not None:
            ob("G5 the extracted nnls_normal_block3 returns on the system of this fit", seen.get("real", False), seen.get("real_error", ""))
            if seen.get("real"):
                xs_ = seen["x"]; tol = side * Fr(2) ** -52 * 10 ** 5; sc = max([abs(v) for v in rT] + [Fr(1)])
                gr = [sum(want[i][j] * xs_[j] for j in range(side)) - rT[i] for i in range(side)]
                badk = [i for i in range(side) if xs_[i] < 0 or (xs_[i] > tol and abs(gr[i]) > tol * sc) or (xs_[i] <= tol and gr[i] < -tol * sc)]
                ob("G6 its result is non-negative and satisfies the Karush-Kuhn-Tucker conditions of the transformed problem within the stopping tolerance: the increments are the constrained optimum", not badk, "violated at %s; x = %s" % (badk[:4], [str(v) for v in xs_[:6]]))
                # hence the coefficients written out never decrease along the monotonic dimension
                strides = [1] * nd
                for d in range(nd - 2, -1, -1): strides[d] = strides[d + 1] * nspl[d + 1]
                dec = [q for q in range(side) if (q // strides[mono]) % nspl[mono] > 0 and got[q] is not None and got[q - strides[mono]] is not None and got[q] < got[q - strides[mono]]]
                ob("G7 the coefficients written out never decrease along the monotonic dimension", not dec, "decrease at flat indices %s" % dec[:5])
        if mono is None and C11 is not None:
            ob("G5 the extracted cholesky_solve, run on the system of this fit, returns its exact solution", seen.get("real", False), seen.get("real_error", ""))
        if mono is None:
            best = solve(want, rhs)
            ob("G4 with an exact solver the result is the exact minimiser of the penalised weighted least-squares objective", best is not None and got == best, "coefficients differ from the minimiser")
    except Exception as ex:
        import traceback
        ob("execution", False, "%s: %s | %s" % (type(ex).__name__, ex, traceback.format_exc()[-300:]))
    return out

def add(rep, thorough, monotonic, name):
    import multiprocessing as mp
    global PROG
    prog, params, fns = build(); PROG = (prog, params)
    for f in fns:
        if f.name in ("glamfit_complex", "flatten_ndarray_to_sparse", "box", "cholmod_tril"): rep.functions.append(f.info())
    if True:
        global C11
        import c11 as _c11
        p11, params11, fns11 = _c11.build(); _c11.PROG = (p11, params11); C11 = _c11
        for f in fns11:
            if f.name in (("nnls_normal_block3", "modify_factor", "modify_factor_p", "walk_descents", "evaluate_descent", "calc_residual") if monotonic else ("cholesky_solve",)): rep.functions.append(f.info())
    tasks = problems(monotonic, thorough); t0 = time.time()
    with mp.Pool(min(vlib.NCORES, 12)) as pool: res = pool.map(run_case, tasks, chunksize=1)
    flat = [o for r in res for o in r]
    rep.add_group("E3-rational (exact execution of the GOTO program of glamfit_complex and its helpers; cholmod = exact sparse algebra, linear solver = assumed contract)", len(flat), sum(1 for o in flat if o[1]), time.time() - t0,
                  bounded="%d problems: 1-3 dimensions, orders 0-3(4), dense and sparse (missing cells, zero / unequal weights, shuffled rows) data%s" % (len(tasks), ", every monotonic dimension" if monotonic else ""), name=name)
    for o in flat:
        if not o[1]: rep.add_violation(name, o[0].replace(" ", "_")[:170], o[0] + ": " + o[2], trace=o[2])
    rep.samples += [o[0] for o in flat[:2]]
    return len(tasks)
