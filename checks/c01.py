#!/usr/bin/env python3
"""C01: evaluation equals the tensor-product B-spline sum.
(a) 1-D basis routines == Cox-de Boor (E3-field), (b) block walk == tensor sum (E3-term),
(c) whole ndsplineeval == sum over ALL coefficients (E3-field, small)."""
import sys, os, time, json, itertools, multiprocessing as mp
sys.path.insert(0, os.path.dirname(os.path.dirname(os.path.abspath(__file__))))
from fractions import Fraction
from tools import vlib, units, gotoexec as G, e3lib as E, e3cores as EC

PROGS = {}

def basis_cell(args):
    """one cell of one shape: returns list of (obligation, ok, detail)"""
    Float, k, n, pattern, cell = args
    prog, params = PROGS["1d_" + Float]
    sh = E.Shape(k, n, pattern); res = []; t0 = time.time()
    tag = "%s k=%d n=%d rep=%s cell=%s%d" % (Float, k, n, sorted(pattern), cell[0], cell[1])
    try:
        dom = G.FieldDom(sh.symbols())
        tsym = [dom.symbol(s) for s in sh.tnames]; xs = dom.symbol("x")
        pads = set(sh.pads_lo + sh.pads_hi)
        xname = E.x_symbol_for(sh, cell)
        tb = E.Table1D(prog, params, dom, sh, sh.x_witness(cell), xname); it = tb.it
        ok, c = tb.lookup()
        if not ok: return [(tag + " lookup", False, "lookup failed inside (first knot, last knot]", 0)]
        s = sh.piece(cell)
        spec = [E.subs_x(dom, b, "x", xname) for b in E.cox_de_boor(dom, tsym, sh.tw, s, xs, k)]
        naxes = n - k - 1
        def check(name, vals):
            good = all(vals[j].sym == spec[c - k + j] for j in range(k + 1))
            det = "" if good else "; ".join("j=%d got %s want %s" % (j, vals[j].sym, spec[c - k + j]) for j in range(k + 1) if vals[j].sym != spec[c - k + j])[:600]
            res.append(("%s %s == Cox-de Boor" % (tag, name), good, det, 0))
            padfree = all(not (set(str(g) for g in (vals[j].sym.numer.ring.gens)) and any(vals[j].sym.numer.degree(dom.symbol(p).numer) > 0 or vals[j].sym.denom.degree(dom.symbol(p).numer) > 0 for p in pads)) for j in range(k + 1)) if pads else True
            res.append(("%s %s independent of padding" % (tag, name), padfree, "", 0))
        bo = it.array("biatx", [None] * (k + 1))
        it.call("bsplvb_simple", [tb.kptr, n, tb.x, c, k + 1, G.Ptr(bo, 0)])
        check("bsplvb_simple", bo.cells)
        vo = it.array("values", [None] * (k + 1)); do = it.array("derivs", [None] * (k + 1))
        it.call("bspline_nonzero", [tb.kptr, n, tb.x, c, k, G.Ptr(vo, 0), G.Ptr(do, 0)])
        check("bspline_nonzero.values", vo.cells)
        # (ii) every basis function outside [c-k, c] vanishes on this piece: the local block carries the whole sum
        outside = all(spec[i] == 0 for i in range(len(spec)) if not (c - k <= i <= c))
        res.append((tag + " basis functions outside the local block vanish", outside, "", 0))
        # (iv) partition of unity in the fully supported range
        if sh.tw[k] <= sh.x_witness(cell) <= sh.tw[naxes] and s >= k and s < naxes:
            tot = bo.cells[0].sym
            for j in range(1, k + 1): tot = tot + bo.cells[j].sym
            res.append((tag + " partition of unity", tot == 1, str(tot)[:200], 0))
        # the comparisons that steered control flow must be 'x vs knot' or 'knot vs knot': constant on the cell
        gens = set(dom.gen.values())
        simple = all((a in gens) and (b in gens) and str(a) not in pads and str(b) not in pads for (op, a, b, an, bn, r) in it.comparisons)
        res.append((tag + " control flow depends only on x-vs-knot comparisons", simple, "", 0))
    except Exception as ex:
        # the kind of failure is part of the obligation's name (known findings are keyed on it)
        naxes = n - k - 1; kind, m = cell
        degenerate = kind == "knot" and sh.tw[m] == sh.tw[naxes] and sh.tw[naxes - 1] == sh.tw[naxes]
        res.append(("%s execution%s [%s]" % (tag, " (x on a repeated knot that ends the fully supported range: degenerate left piece)" if degenerate else "", str(ex)[:60]), False, "%s: %s" % (type(ex).__name__, ex), 0))
    dt = time.time() - t0
    return [(a, b, c_, dt) for (a, b, c_, _) in res]

def walk_shape(args):
    Float, orders, naxes, centers = args
    prog, params, fname = PROGS["core_" + Float]
    tag = "%s orders=%s naxes=%s centers=%s" % (Float, list(orders), list(naxes), list(centers)); t0 = time.time()
    try:
        dom = G.TermDom()
        r, strides = EC.run_core(prog, params, fname, dom, orders, naxes, centers)
        sp = EC.spec_term(dom, orders, centers, strides)
        good = r.sym == sp
        det = "" if good else "got %s want %s" % (dom.show(r.sym, 5)[:300], dom.show(sp, 5)[:300])
        return [(tag + " ndsplineeval_core == tensor sum (term identity)", good, det, time.time() - t0)]
    except Exception as ex:
        return [(tag + " execution", False, "%s: %s" % (type(ex).__name__, ex), time.time() - t0)]

def compose_shape(args):
    """(c) whole ndsplineeval over the field, every coefficient a symbol"""
    Float, orders, nks, cellsel = args
    prog, params = PROGS["drv_" + Float]
    tag = "%s compose orders=%s nknots=%s cells=%s" % (Float, list(orders), list(nks), cellsel); t0 = time.time()
    try:
        nd = len(orders)
        shs = [E.Shape(orders[d], nks[d]) for d in range(nd)]
        naxes = [nks[d] - orders[d] - 1 for d in range(nd)]
        strides = EC.strides_of(naxes); ncoef = strides[0] * naxes[0]
        names = []
        for d in range(nd):
            names += ["x%d" % d] + ["t%d_%d" % (d, m) for m in range(nks[d])] + ["pl%d_%d" % (d, i) for i in range(orders[d])] + ["ph%d_%d" % (d, i) for i in range(orders[d])]
        names += ["c%d" % i for i in range(ncoef)]
        dom = G.FieldDom(names)
        it = G.Interp(prog, dom); it.prog_params = params; it.hooks["__builtin_expect"] = lambda it, a: a[0]
        EC.setup_table(it, orders, naxes)
        kptrs = []; xs = []
        for d in range(nd):
            sh = shs[d]; k = orders[d]
            base = [it.fsym("pl%d_%d" % (d, i), Fraction(1000 + i)) for i in range(k)] + [it.fsym("t%d_%d" % (d, m), sh.tw[m]) for m in range(nks[d])] + [it.fsym("ph%d_%d" % (d, i), Fraction(-1000 - i)) for i in range(k)]
            kptrs.append(G.Ptr(it.array("knots%d" % d, base), k))
            xn = "x%d" % d if cellsel[d][0] == "open" else "t%d_%d" % (d, cellsel[d][1])     # on a knot: x IS the knot
            xs.append(it.fsym(xn, sh.x_witness(cellsel[d])))
        it.set_global("knots", G.Ptr(it.array("knots", kptrs), 0))
        it.set_global("nknots", G.Ptr(it.array("nknots", list(nks)), 0))
        xo = it.array("x", xs); co = it.array("centers", [None] * nd)
        ok = it.call("searchcenters", [G.Ptr(xo, 0), G.Ptr(co, 0)])
        if not ok: return [(tag, False, "lookup failed", time.time() - t0)]
        r = it.call("ndsplineeval", [G.Ptr(xo, 0), G.Ptr(co, 0), 0])
        # spec: sum over ALL coefficients
        Bs = []
        for d in range(nd):
            sh = shs[d]
            tsym = [dom.symbol("t%d_%d" % (d, m)) for m in range(nks[d])]
            xn = "x%d" % d if cellsel[d][0] == "open" else "t%d_%d" % (d, cellsel[d][1])
            Bs.append([E.subs_x(dom, b, "x%d" % d, xn) for b in E.cox_de_boor(dom, tsym, sh.tw, sh.piece(cellsel[d]), dom.symbol("x%d" % d), orders[d])])
        spec = dom.K(0)
        for idx in itertools.product(*[range(n) for n in naxes]):
            term = dom.symbol("c%d" % sum(i * s for i, s in zip(idx, strides)))
            for d in range(nd): term = term * Bs[d][idx[d]]
            spec = spec + term
        good = r.sym == spec
        return [(tag + " ndsplineeval == sum over all coefficients", good, "" if good else str(r.sym - spec)[:300], time.time() - t0)]
    except Exception as ex:
        return [(tag + " execution", False, "%s: %s" % (type(ex).__name__, ex), time.time() - t0)]

def hexd(q):
    import struct
    return "%016x" % struct.unpack(">Q", struct.pack(">d", float(q)))[0]

def replay_input(ob):
    """obligation name -> input text for tools/replay/replay_eval (table with the witness knots, x at the witness point)"""
    import re
    m = re.search(r"(float|double)_k=(\d+)_n=(\d+)_rep=\[([\d,_ ]*)\]_cell=(open|knot)(\d+)", ob)
    if m:
        k, n = int(m.group(2)), int(m.group(3)); pat = frozenset(int(t) for t in re.findall(r"\d+", m.group(4)))
        sh = E.Shape(k, n, pat); xw = sh.x_witness((m.group(5), int(m.group(6))))
        return "ndim 1\ndim %d %d %s\nx %s\n" % (k, n, " ".join(hexd(t) for t in sh.tw), hexd(xw))
    m = re.search(r"orders=\[([\d,_ ]*)\]_naxes=\[([\d,_ ]*)\]_centers=\[([\d,_ ]*)\]", ob)
    if m:
        orders = [int(t) for t in re.findall(r"\d+", m.group(1))]; naxes = [int(t) for t in re.findall(r"\d+", m.group(2))]; cs = [int(t) for t in re.findall(r"\d+", m.group(3))]
        txt = "ndim %d\n" % len(orders)
        for o, na in zip(orders, naxes):
            nk = na + o + 1
            txt += "dim %d %d %s\n" % (o, nk, " ".join(hexd(i) for i in range(nk)))
        return txt + "x %s\n" % " ".join(hexd(c + 0.5) for c in cs)
    m = re.search(r"compose_orders=\[([\d,_ ]*)\]_nknots=\[([\d,_ ]*)\]_cells=(.*?)_ndsplineeval", ob)
    if m:
        orders = [int(t) for t in re.findall(r"\d+", m.group(1))]; nks = [int(t) for t in re.findall(r"\d+", m.group(2))]
        cs = re.findall(r"'(open|knot)',_(\d+)", m.group(3))
        txt = "ndim %d\n" % len(orders); xs = []
        for d, (o, nk) in enumerate(zip(orders, nks)):
            sh = E.Shape(o, nk); txt += "dim %d %d %s\n" % (o, nk, " ".join(hexd(t) for t in sh.tw)); xs.append(hexd(sh.x_witness((cs[d][0], int(cs[d][1])))))
        return txt + "x %s\n" % " ".join(xs)
    return None

def replayer(v):
    from tools import native
    inp = replay_input(v["obligation"])
    if not inp: return dict(replayed=False, note="no witness input derivable from the obligation name")
    exe = native.build_driver("replay_eval", ["src/core/bspline.cpp"], sanitize=False)
    rc, out = native.run_driver(exe, inp, "eval")
    return dict(replayed=rc != 0, input=inp, driver="tools/replay/replay_eval.cpp (real library vs long-double Cox-de Boor reference, tolerance 64*eps*sum|terms|)", exit_code=rc, observed=out[:3000])

def build_driver_program(Float):
    from specs import table as T
    fs = [units.free_function(units.BSPLINE_H, n) for n in ("bsplvb", "bsplvb_simple", "bspline_nonzero", "bspline_deriv_nonzero")]
    fs += [units.free_function(units.BSPLINE_CPP, n) for n in ("bspline", "bspline_deriv")]
    core = units.scalar_core("ndsplineeval_core")
    sc = units.member_function(units.EVAL_H, "searchcenters", "bool")
    drv = units.driver("ndsplineeval")
    text = T.PRELUDE + "#define Float %s\n" % Float + units.VP_HELPERS + "".join(f.text(None) for f in fs) + core.full_text + sc.text(None) + drv.text(None)
    prog = G.Program.compile(text, vlib.workdir(), "drv_" + Float)
    params = {f.name: E.param_names(f.header, f.name) for f in fs + [core, sc, drv]}
    params["vp_max_u32"] = ["vp_max_u32::p", "vp_max_u32::n"]
    return prog, params, fs + [core, sc, drv]

def main():
    thorough = vlib.TIER == "thorough"
    rep = vlib.Report("C01")
    fninfo = []
    for Float in ("float", "double"):
        prog, params, fs = E.build_1d_program(Float); PROGS["1d_" + Float] = (prog, params)
        cp, cparams, ce = EC.core_program("ndsplineeval_core", Float); PROGS["core_" + Float] = (cp, cparams, ce.name)
        dp, dparams, dfs = build_driver_program(Float); PROGS["drv_" + Float] = (dp, dparams)
        if Float == "float": fninfo = [f.info() for f in fs] + [ce.info()] + [f.info() for f in dfs if f.name == "ndsplineeval"]
    rep.functions += fninfo
    # (a) cells
    tasks_a = []
    KMAX = 4 if not thorough else 5
    for Float in ("float", "double"):
        for k in range(0, KMAX + 1):
            ns = [2 * k + 2, 2 * k + 3, 2 * k + 5] if not thorough else [2 * k + 2, 2 * k + 3, 2 * k + 4, 2 * k + 6]
            if k >= 4 and not thorough: ns = [2 * k + 2, 2 * k + 4]
            if k >= 5: ns = [2 * k + 2, 2 * k + 3]
            for n in ns:
                pats = [frozenset()]
                if k >= 1 and n >= 2 * k + 3 and k <= 3:
                    # a double knot: for n == 2k+3 it ends the fully supported range (t[naxes-1] == t[naxes]), for longer vectors it is interior
                    pats.append(frozenset([k + 1]) if n == 2 * k + 3 else frozenset([k + 2]))
                    if thorough and k >= 2: pats.append(frozenset([k, k + 1]))   # triple knot
                    if thorough: pats.append(frozenset([0]))       # repeated first knot
                # over the fraction field float<->double casts are the identity: the double instantiation repeats the same
                # identities, so it is only run for the low orders (it still has to extract, compile and execute)
                if Float == "double" and k >= 3: continue
                for pat in pats:
                    for cell in E.cells(n, k, pat):
                        tasks_a.append((Float, k, n, pat, cell))
    # (b) block walks
    tasks_b = []
    order_sets = [(0,), (2,), (5,), (2, 3), (0, 4), (3, 0), (1, 2, 3), (2, 2, 2), (0, 1, 0), (3, 1, 2, 0), (2, 2, 2, 3, 2, 2), (2, 2, 2, 5, 2, 2)]
    if thorough: order_sets += [(1, 1, 1, 1, 1, 1, 1), (2, 1, 0, 3, 1, 2, 1, 2), (1, 0, 1, 2, 1, 0, 1, 2, 1), (5, 5, 5), (3, 3, 3, 3, 3)]
    for Float in ("float", "double"):
        for orders in order_sets:
            for naxes, centers in EC.shapes_for(orders):
                tasks_b.append((Float, orders, tuple(naxes), tuple(centers)))
    # (c) composition
    tasks_c = []
    comp = [((1,), (5,)), ((2,), (7,)), ((1, 1), (4, 5)), ((2, 1), (6, 4))] + ([((2, 2), (6, 7)), ((1, 1, 1), (4, 4, 5))] if thorough else [])
    for Float in ("float", "double"):
        for orders, nks in comp:
            cellsets = [[("open", m) for m in sorted(set([0, orders[d], nks[d] - 2]))] + [("knot", orders[d] + 1), ("knot", nks[d] - 1)] for d in range(len(orders))]
            for sel in itertools.islice(itertools.product(*cellsets), 0, None):
                tasks_c.append((Float, orders, nks, sel))
    t0 = time.time()
    with mp.Pool(min(vlib.NCORES, 16)) as pool:
        ra = pool.map(basis_cell, tasks_a, chunksize=1)
        ta = time.time() - t0; t1 = time.time()
        rb = pool.map(walk_shape, tasks_b, chunksize=1)
        tb = time.time() - t1; t2 = time.time()
        rc = pool.map(compose_shape, tasks_c, chunksize=1)
        tc = time.time() - t2
    for name, results, backend, wall in (("C01a-basis-vs-CoxDeBoor", ra, "E3-field (fraction-field identity over the GOTO program)", ta),
                                         ("C01b-blockwalk", rb, "E3-term (free-term identity over the GOTO program)", tb),
                                         ("C01c-composition", rc, "E3-field (fraction-field identity over the GOTO program)", tc)):
        flat = [o for r in results for o in r]
        rep.add_group(backend, len(flat), sum(1 for o in flat if o[1]), wall, bounded="integer shape enumerated (order, nknots, cell, ndim, axes); real-valued inputs symbolic", name=name)
        for o in flat:
            if not o[1]: rep.add_violation(name, o[0].replace(" ", "_"), o[0] + ": " + o[2], trace=o[2])
        rep.samples += [o[0] for o in flat[:3]]
    rep.extra["shapes"] = dict(cells_1d=len(tasks_a), walks=len(tasks_b), compositions=len(tasks_c), max_order=KMAX)
    rep.assume("machine arithmetic treated as mathematical (exact field arithmetic; float<->double casts are the identity): the rounding-error clause of C01 is NOT decided",
               "integer shapes are enumerated: orders 0..%d, nknots in {2k+2, 2k+3, 2k+5,...}, every open knot interval and every knot as evaluation cell, one double-knot pattern per shape; knots symbolic (any reals of that ordering), padding entries independent symbols" % KMAX,
               "comparisons are decided at a rational witness point of the cell; the check verifies that every comparison executed is x-vs-knot or knot-vs-knot, whose outcome is constant on the cell",
               "spec: textbook Cox-de Boor recursion (tools/e3lib.py cox_de_boor, 0/0 := 0 for coincident knots), written independently of the library's bspline()",
               "the GOTO program is produced by CBMC's C front end from the text extracted from /repo on this run; tools/gotoexec.py (interpreter) is trusted",
               "extraction: R1 members->globals, R2 Float by macro, R3, R5 buffer2d -> (pointer,row length), R6 max_element helper")
    rep.trust("tools/gotoexec.py", "sympy.polys.fields (exact normal forms)", "goto-cc/goto-instrument front end", "tools/extract.py rules")
    rep.level = "proof"
    rep.finish(replayer)

if __name__ == "__main__":
    main()
