#!/usr/bin/env python3
"""C08 (partial: the failing-operation half): a write whose underlying I/O fails never passes as success, and the file it
leaves behind is never loaded as another table.

write_fits (with its file guard, R30) and write_fits_core are extracted and executed against the cfitsio model with FAULT
INJECTION: for every table and every index k of the sequence of cfitsio calls the writer attempts (fits_create_file,
fits_create_img, fits_write_pix, fits_write_key, fits_update_key, ... , fits_close_file) the k-th call fails.  Postcondition
(from the property):  write_fits returns normally  =>  every call succeeded, the file was closed exactly once and reads
back equal;   a failed write throws, and whatever the guard leaves on the model disk under that name is absent, rejected by
the extracted reader, or loads with the same orders, knots and coefficients.
NOT covered (not applicable to this technique): interruption at byte granularity (what reaches the disk before a crash is
decided inside cfitsio's buffers and the OS), write_fits_mem."""
import sys, os, time, json, itertools, multiprocessing as mp
sys.path.insert(0, os.path.dirname(os.path.dirname(os.path.abspath(__file__))))
from fractions import Fraction as Fr
from tools import vlib, units, gotoexec as G, e3lib as E, fitshooks as H, tableprog as T
from specs import fitsmodel as M
import c14_exact as X14, c06, c07
PROG = None; CONSTS = None

def tables(thorough):
    ts = c06.tables(False)
    keep = [0, 3, 4, 7] if not thorough else range(len(ts))
    return [ts[i] for i in keep if i < len(ts)]

def write_with_fault(desc, k):
    prog, params = PROG; disk = T.Disk()
    it, al = T.new_object(prog, params, CONSTS, disk, X14.RatDom()); c06.load_table(it, desc)
    it.fail_at = k; it.io_calls = 0; it.closed = 0
    name = G.Ptr(it.array("path", [ord(c) for c in "out"] + [0]), 0)
    it.call("write_fits", [name])
    return it, disk

def run_case(args):
    tag, desc, k = args; t0 = time.time(); out = []
    def ob(name, ok, detail=""): out.append(("%s [%s]" % (name, tag), ok, detail[:500], time.time() - t0))
    try:
        nd = len(desc["orders"])
        try: it, disk = write_with_fault(desc, k); err = None
        except G.ExecError as ex: err = "%s: %s" % (type(ex).__name__, ex)
        if err: ob("the writer is memory-safe when an I/O call fails", False, err); return out, None
        thrown = bool(it.globals["vp_thrown"].cells[0]); ncalls = it.io_calls
        if k is None:
            ob("a write without faults succeeds and closes the file exactly once", (not thrown) and it.closed == 1, "thrown=%s, fits_close_file called %d times" % (thrown, it.closed))
            return out, ncalls
        if k >= ncalls: return out, ncalls
        ob("a write in which I/O call %d fails reports failure" % k, thrown, "call %d of %d failed and write_fits returned normally (success)" % (k, ncalls))
        f = disk.files.get("out")
        if f is None: ob("no partial file is loaded as another table", True); return out, ncalls
        it2, al2 = T.new_object(PROG[0], PROG[1], CONSTS, disk, X14.RatDom())
        try: it2.call("read_fits", [G.Ptr(it2.array("path", [ord(c) for c in "out"] + [0]), 0)]); rerr = None
        except G.ExecError as ex: rerr = "%s: %s" % (type(ex).__name__, ex)
        if rerr: ob("reading the file left behind is memory-safe", False, rerr); return out, ncalls
        if it2.globals["vp_thrown"].cells[0]: ob("no partial file is loaded as another table", True); return out, ncalls
        bad, t = c07.wellformed(it2)
        same = t is not None and t["order"] == desc["orders"] and t.get("knots") == desc["knots"] and t.get("coefficients") == desc["coeffs"]
        ob("no partial file is loaded as another table", same and not bad, "the file left behind by the failed write loads as a table with %s" % ("different knots / orders / coefficients" if not same else "; ".join(bad)))
    except Exception as ex:
        ob("execution", False, "%s: %s" % (type(ex).__name__, ex))
    return out, None

def main():
    global PROG, CONSTS
    thorough = vlib.TIER == "thorough"
    rep = vlib.Report("C08", level="fault_enumeration")
    prog, params, fns = T.build(vlib.workdir()); PROG = (prog, params); CONSTS = units.cfitsio_constants()
    c06.PROG = PROG; c06.CONSTS = CONSTS
    for n in ("write_fits", "write_fits_core", "read_fits", "read_fits_core", "read_fits_core_body"):
        if n in fns: rep.functions.append(fns[n].info())
    ts = tables(thorough); cases = []
    base = [run_case((tag, desc, None)) for tag, desc in ts]
    for (tag, desc), (o, n) in zip(ts, base):
        cases += [(tag, desc, k) for k in range(n or 0)]
    t0 = time.time()
    with mp.Pool(min(vlib.NCORES, 16)) as pool: res = pool.map(run_case, cases, chunksize=4)
    flat = [o for r, _ in base for o in r] + [o for r, _ in res for o in r]
    rep.add_group("E3 execution of the GOTO program of the extracted writer with one failing cfitsio call per run (BOUNDED)", len(flat), sum(1 for o in flat if o[1]), time.time() - t0,
                  bounded="%d tables x every index of the %s cfitsio calls the writer attempts (create, images, pixels, keys, close)" % (len(ts), "/".join(str(n) for _, n in base)), name="C08-failing-io")
    viol = [o for o in flat if not o[1]]
    if viol:
        # native replay: the real writer under a file-size limit (write(2) fails with EFBIG part way / at the final flush)
        exe = os.path.join(vlib.workdir(), "replay_write_limit")
        rc, o_, w = vlib.sh("g++ -std=c++11 -g -O1 -I%s/include %s/tools/replay/replay_write_limit.cpp %s/src/core/*.cpp -lcfitsio -o %s" % (vlib.REPO, vlib.VERIF, vlib.REPO, exe), timeout=900)
        cache = {}
        for o in viol:
            tag = o[0][o[0].index("[") + 1:-1]; rp = None
            if rc == 0:
                if tag not in cache:
                    desc = next(d for t, d in ts if t == tag); src = os.path.join(vlib.workdir(), "c08_in.fits"); open(src, "wb").write(M.spline_file(**desc).to_bytes())
                    size = len(M.spline_file(**desc).to_bytes()); obs = []; hit = False
                    for lim in sorted(set([2880, size // 3, size // 2, size - 2880, size - 1])):
                        dst = os.path.join(vlib.workdir(), "c08_out.fits")
                        if os.path.exists(dst): os.remove(dst)
                        r2, out2, w2 = vlib.sh("timeout -s KILL 60 %s %s %s %d" % (exe, src, dst, lim), timeout=120)
                        obs.append("limit %d bytes: exit %d: %s" % (lim, r2, out2.strip().replace("\n", " | ")[-300:])); hit = hit or r2 == 1
                    cache[tag] = dict(replayed=hit, input="replay_write_limit <table %s> <out> <limit>" % tag, observed="\n".join(obs), command="tools/replay/replay_write_limit.cpp (real library; RLIMIT_FSIZE makes write(2) fail)")
                rp = cache[tag]
            rep.add_violation("C08-failing-io", o[0].replace(" ", "_")[:170], o[0][:300] + ": " + o[2], trace=o[2], replay=rp)
    rep.samples += [o[0][:200] for o in flat[:3]]
    rep.extra["evaluations"] = len(cases) + len(ts); rep.extra["distinct_nontrivial"] = len(cases)
    rep.extra["rule"] = "one evaluation = one write of one table with one chosen cfitsio call failing (or none); non-trivial = with a fault"
    rep.assume("PARTIAL: only the failing-operation half of C08; interruption after a byte prefix of the output is decided inside cfitsio's buffering and the operating system and is NOT covered; write_fits_mem is not extracted",
               "cfitsio is an assumed contract: any call may fail (non-zero status, nothing done); fits_close_file leaves on disk what the successful calls wrote (images whose pixels were not written are zero-filled), fits_delete_file removes the file",
               "exceptions are a ghost flag + early return (R7); the file guard's member functions are extracted verbatim and run at every exit after its construction (R30)",
               "BOUNDED: enumerated tables")
    rep.trust("tools/gotoexec.py", "goto-cc front end", "tools/extract.py rules", "specs/fitsmodel.py", "tools/tableprog.py hooks")
    rep.finish(None)

if __name__ == "__main__":
    main()
