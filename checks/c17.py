#!/usr/bin/env python3
"""C17: grid evaluation agrees with pointwise evaluation.
splinetable::grideval (grideval.h, extracted: R7, R15, R18-R21) and the C code it drives - bsplinebasis, bspline,
slicemultiply, ndsparse_allocate (splineutil.c, verbatim) - are executed from CBMC's GOTO program over exact rationals.
cholmod's sparse primitives are supplied by the interpreter as exact matrix algebra (assumed contract).  For every grid
point: listed value == sum_i coefficient_i * prod_d B_{i_d}(x_d) (independent Cox-de Boor oracle = what pointwise
evaluation computes, C01); points not listed have value zero; entries are addressed by grid indices with the grid
lengths as ranges."""
import sys, os, time, itertools, multiprocessing as mp
sys.path.insert(0, os.path.dirname(os.path.dirname(os.path.abspath(__file__))))
from fractions import Fraction as Fr
from tools import vlib, units, gotoexec as G, e3lib as E
import c14_exact as X14
PROG = None
F = lambda q: G.FV(Fr(q), Fr(q))

class Sparse:      # python-side value of a cholmod_sparse created by the hooks
    def __init__(self, nrow, ncol, m): self.nrow = nrow; self.ncol = ncol; self.m = m

def install(it):
    reg = {}; keep = []
    def new_sparse(S):
        o = it.new_obj("sparse", 1); o.cells[0] = dict(nrow=S.nrow, ncol=S.ncol); reg[id(o)] = S; keep.append(o); return G.Ptr(o, 0)
    def sp(p):
        if p.obj is None or id(p.obj) not in reg or not p.obj.live: raise G.MemError("cholmod call on a freed / foreign sparse matrix")
        return reg[id(p.obj)]
    def h_alloc_dense(it_, a):
        nrow, ncol = a[0], a[1]; o = it_.new_obj("dense", 1); x = it_.new_obj("densex", nrow * ncol, F(0)); o.cells[0] = dict(nrow=nrow, ncol=ncol, x=G.Ptr(x, 0)); return G.Ptr(o, 0)
    def h_dense_to_sparse(it_, a):
        d = a[0].obj.cells[0]; x = d["x"].obj.cells; nrow, ncol = d["nrow"], d["ncol"]
        if any(v is None for v in x): raise G.ExecError("dense matrix with unset entries")
        return new_sparse(Sparse(nrow, ncol, {(r, c): x[c * nrow + r].num for c in range(ncol) for r in range(nrow) if x[c * nrow + r].num != 0}))
    def h_free(it_, a):
        pp = a[0]; p = pp.obj.cells[pp.off]
        if p is not None and p.obj is not None:
            if not p.obj.live: raise G.MemError("double free of a cholmod object")
            p.obj.live = False
        pp.obj.cells[pp.off] = G.NULL; return 1
    def h_transpose(it_, a):
        S = sp(a[0]); return new_sparse(Sparse(S.ncol, S.nrow, {(c, r): v for (r, c), v in S.m.items()}))
    def h_ssmult(it_, a):
        A, B = sp(a[0]), sp(a[1])
        if A.ncol != B.nrow: raise G.ExecError("cholmod_ssmult: inner dimensions differ (%d vs %d)" % (A.ncol, B.nrow))
        out = {}
        Bb = {}
        for (r, c), v in B.m.items(): Bb.setdefault(r, []).append((c, v))
        for (r, k), v in A.m.items():
            for (c, w) in Bb.get(k, []): out[(r, c)] = out.get((r, c), Fr(0)) + v * w
        return new_sparse(Sparse(A.nrow, B.ncol, {k: v for k, v in out.items() if v != 0}))
    def h_alloc_trip(it_, a):
        nrow, ncol, nzmax = a[0], a[1], a[2]; o = it_.new_obj("triplet", 1)
        o.cells[0] = dict(nrow=nrow, ncol=ncol, nzmax=nzmax, nnz=0, i=G.Ptr(it_.new_obj("ti", nzmax), 0), j=G.Ptr(it_.new_obj("tj", nzmax), 0), x=G.Ptr(it_.new_obj("tx", nzmax), 0)); return G.Ptr(o, 0)
    def h_trip_to_sparse(it_, a):
        t = a[0].obj.cells[0]; m = {}
        if t["nnz"] > t["nzmax"]: raise G.MemError("triplet over-filled")
        for q in range(t["nnz"]):
            r, c, v = t["i"].obj.cells[q], t["j"].obj.cells[q], t["x"].obj.cells[q]
            if not (0 <= r < t["nrow"] and 0 <= c < t["ncol"]): raise G.MemError("triplet entry (%s,%s) outside %dx%d" % (r, c, t["nrow"], t["ncol"]))
            m[(r, c)] = m.get((r, c), Fr(0)) + v.num
        return new_sparse(Sparse(t["nrow"], t["ncol"], {k: v for k, v in m.items() if v != 0}))
    def h_sparse_to_trip(it_, a):
        S = sp(a[0]); ent = sorted(S.m.items(), key=lambda kv: (kv[0][1], kv[0][0])); n = len(ent)
        o = it_.new_obj("triplet", 1)
        o.cells[0] = dict(nrow=S.nrow, ncol=S.ncol, nzmax=n, nnz=n, i=G.Ptr(it_.array("ti", [k[0] for k, v in ent]), 0), j=G.Ptr(it_.array("tj", [k[1] for k, v in ent]), 0), x=G.Ptr(it_.array("tx", [F(v) for k, v in ent]), 0)); return G.Ptr(o, 0)
    # libc storage: one cell per requested byte (element sizes are not visible to calloc/realloc): generous, never too small
    def h_calloc(it_, a):
        return G.Ptr(it_.new_obj("calloc", max(a[0] * a[1], 1), 0), 0)
    def h_realloc(it_, a):
        p, n = a; o = it_.new_obj("realloc", max(n, 1), 0)
        if p.obj is not None:
            k = min(len(p.obj.cells), len(o.cells)); o.cells[:k] = p.obj.cells[:k]; p.obj.live = False
        return G.Ptr(o, 0)
    def h_nd_new(it_, a):
        rows, nd = a
        if not nd or not rows: it_.globals["vp_thrown"].cells[0] = 1; return G.NULL
        o = it_.new_obj("ndsparse", 1); o.cells[0] = dict(entriesInserted=0)
        r = it_.call("ndsparse_allocate", [G.Ptr(o, 0), rows, nd])
        if r != 0: it_.globals["vp_thrown"].cells[0] = 1; return G.NULL
        return G.Ptr(o, 0)
    def h_insert(it_, a):
        nd, value, idx = a; d = nd.obj.cells[0]; e = d["entriesInserted"]
        if not (e < d["rows"]): it_.globals["vp_thrown"].cells[0] = 1; return None
        d["x"].obj.cells[d["x"].off + e] = value
        for j in range(d["ndim"]):
            col = d["i"].obj.cells[d["i"].off + j]; v = idx.obj.cells[idx.off + j]
            col.obj.cells[col.off + e] = v
            d["ranges"].obj.cells[d["ranges"].off + j] = max(d["ranges"].obj.cells[d["ranges"].off + j], v + 1)
        d["entriesInserted"] = e + 1
    def h_start(it_, a):
        a[0].obj.cells[a[0].off] = {"status": 0}; return 1
    it.hooks.update(cholmod_l_start=h_start, cholmod_l_finish=lambda it_, a: 1, cholmod_l_allocate_dense=h_alloc_dense, cholmod_l_dense_to_sparse=h_dense_to_sparse,
                    cholmod_l_free_dense=h_free, cholmod_l_free_sparse=h_free, cholmod_l_free_triplet=h_free, cholmod_l_transpose=h_transpose, cholmod_l_ssmult=h_ssmult,
                    cholmod_l_allocate_triplet=h_alloc_trip, cholmod_l_triplet_to_sparse=h_trip_to_sparse, cholmod_l_sparse_to_triplet=h_sparse_to_trip,
                    calloc=h_calloc, realloc=h_realloc, free=lambda it_, a: None, vp_ndsparse_new=h_nd_new, vp_ndsparse_insertEntry=h_insert)

def grid_case(args):
    label, orders, nks, grids, zero_pattern = args; t0 = time.time(); nd = len(orders)
    tag = "grideval %s orders=%s nknots=%s grid sizes=%s" % (label, list(orders), list(nks), [len(g) for g in grids])
    try:
        prog, params = PROG
        dom = X14.RatDom(); it = G.Interp(prog, dom); it.prog_params = params; install(it)
        ts = [[Fr(d, 3) + sum(Fr(1 + ((m + d) * m) % 3, 2) for m in range(1, q + 1)) for q in range(nks[d])] for d in range(nd)]
        naxes = [nks[d] - orders[d] - 1 for d in range(nd)]; strides = [1] * nd
        for d in range(nd - 2, -1, -1): strides[d] = strides[d + 1] * naxes[d + 1]
        n = strides[0] * naxes[0]
        zero_pattern = {"none": (lambda i: False), "many": (lambda i: i % 3 != 1), "edge": (lambda i: i < 2), "allbut4": (lambda i: i != 4)}[zero_pattern]
        coefs = [Fr(0) if zero_pattern(i) else Fr(((i * 5 + 2) % 9) - 3, 2) for i in range(n)]
        coefs = [c if c != 0 or zero_pattern(i) else Fr(1, 2) for i, c in enumerate(coefs)]
        it.set_global("ndim", nd); it.set_global("vp_thrown", 0)
        it.set_global("order", G.Ptr(it.array("order", list(orders)), 0)); it.set_global("nknots", G.Ptr(it.array("nknots", list(nks)), 0))
        it.set_global("naxes", G.Ptr(it.array("naxes", naxes), 0)); it.set_global("strides", G.Ptr(it.array("strides", strides), 0))
        it.set_global("coefficients", G.Ptr(it.array("coefficients", [F(c) for c in coefs]), 0))
        kobjs = [it.array("knots%d" % d, [F(-77)] * orders[d] + [F(v) for v in ts[d]] + [F(77)] * orders[d]) for d in range(nd)]
        it.set_global("knots", G.Ptr(it.array("knotptrs", [G.Ptr(kobjs[d], orders[d]) for d in range(nd)]), 0))
        gx = [[ts[d][0] + (ts[d][-1] - ts[d][0]) * Fr(g) for g in grids[d]] for d in range(nd)]
        co = G.Ptr(it.array("coords", [G.Ptr(it.array("grid%d" % d, [F(v) for v in gx[d]]), 0) for d in range(nd)]), 0)
        r = it.call("grideval", [co, nd, G.Ptr(it.array("gsizes", [len(g) for g in gx]), 0)])
        bad = []
        if it.globals["vp_thrown"].cells[0] or r.obj is None: return [(tag + ": result produced", False, "exception / NULL result", time.time() - t0)]
        d_ = r.obj.cells[0]; rows = d_["rows"]
        if [d_["ranges"].obj.cells[d_["ranges"].off + k] for k in range(nd)] != [len(g) for g in gx]: bad.append("index ranges are not the grid lengths")
        listed = {}
        for q in range(rows):
            idx = tuple(d_["i"].obj.cells[d_["i"].off + k].obj.cells[q] for k in range(nd))
            if idx in listed: bad.append("grid point %s listed twice" % (idx,))
            if any(not (0 <= idx[k] < len(gx[k])) for k in range(nd)): bad.append("index %s outside the grid" % (idx,)); continue
            listed[idx] = d_["x"].obj.cells[d_["x"].off + q].num
        # oracle: value of the spline at the grid point (what pointwise evaluation computes inside the knot range, C01)
        basis = [[[X14.bspl(ts[d], i, orders[d], x) for i in range(naxes[d])] for x in gx[d]] for d in range(nd)]
        for idx in itertools.product(*[range(len(g)) for g in gx]):
            val = Fr(0)
            for ci in itertools.product(*[range(a) for a in naxes]):
                c = coefs[sum(i * s for i, s in zip(ci, strides))]
                if c == 0: continue
                t = c
                for d in range(nd): t *= basis[d][idx[d]][ci[d]]
                val += t
            got = listed.get(idx, Fr(0))
            if got != val:
                bad.append("grid point %s (x=%s): grideval %s, spline value %s" % (idx, [str(gx[d][idx[d]]) for d in range(nd)], "lists " + str(got) if idx in listed else "does not list it (0)", val))
                if len(bad) > 3: break
        return [(tag + ": every listed entry is the spline value at that grid point, unlisted points are zero, ranges are the grid lengths", not bad, "; ".join(bad[:3])[:600], time.time() - t0)]
    except Exception as ex:
        return [(tag + " execution [%s]" % str(ex)[:90], False, "%s: %s" % (type(ex).__name__, ex), time.time() - t0)]

def reject_case(args):
    nd_table, ncoords = args; t0 = time.time(); tag = "grideval with %d coordinate vectors for a %d-dimensional table" % (ncoords, nd_table)
    try:
        prog, params = PROG
        it = G.Interp(prog, X14.RatDom()); it.prog_params = params; install(it)
        it.set_global("ndim", nd_table); it.set_global("vp_thrown", 0)
        for g in ("order", "nknots", "naxes", "strides", "coefficients", "knots"): it.set_global(g, G.NULL)
        co = G.Ptr(it.array("coords", [G.Ptr(it.array("g%d" % d, [F(0)]), 0) for d in range(max(ncoords, 1))]), 0)
        r = it.call("grideval", [co, ncoords, G.Ptr(it.array("gs", [1] * max(ncoords, 1)), 0)])
        ok = bool(it.globals["vp_thrown"].cells[0])
        return [(tag + " -> rejected by exception before anything is read", ok, "" if ok else "accepted", time.time() - t0)]
    except Exception as ex:
        return [(tag + " execution [%s]" % str(ex)[:90], False, "%s: %s" % (type(ex).__name__, ex), time.time() - t0)]

def replayer(v):
    wd = vlib.workdir(); R = vlib.REPO; exe = os.path.join(wd, "rgrid")
    if not os.path.exists(exe):
        cmds = ["gcc -c -O1 -g -I%s/include -I/usr/include/suitesparse %s/src/fitter/%s.c -o %s/g_%s.o" % (R, R, f, wd, f) for f in ("glam", "splineutil", "nnls", "cholesky_solve")]
        cmds.append("g++ -std=c++11 -O1 -g -fno-access-control -DPHOTOSPLINE_INCLUDES_SPGLAM -I%s/include -I/usr/include/suitesparse -I%s/tools/replay %s/tools/replay/replay_grideval.cpp %s/src/core/*.cpp "
                    "%s/g_glam.o %s/g_splineutil.o %s/g_nnls.o %s/g_cholesky_solve.o -lcfitsio -lcholmod -lspqr -lsuitesparseconfig -llapack -lblas -lpthread -lm -o %s" % (R, vlib.VERIF, vlib.VERIF, R, wd, wd, wd, wd, exe))
        for c in cmds:
            rc, out, w = vlib.sh(c, timeout=600)
            if rc != 0: return dict(replayed=False, error="replay build failed: " + out[-600:])
    rc, out, w = vlib.sh("timeout 120 " + exe, timeout=130)
    return dict(replayed=rc != 0, input="six tables (1-3 dimensions, mixed orders, sparse coefficients) on unsorted / repeated / out-of-range grids", driver="tools/replay/replay_grideval.cpp (real grideval with real cholmod vs pointwise evaluation)", exit_code=rc, observed=out[:2500])

def main():
    global PROG
    thorough = vlib.TIER == "thorough"
    rep = vlib.Report("C17", level="exploration")
    units.check_ndsparse_class()
    e = units.grideval_function()
    cs = [units.free_function("src/fitter/splineutil.c", n) for n in ("ndsparse_allocate", "bspline", "bsplinebasis", "slicemultiply")]
    prog = G.Program.compile(units.GRIDEVAL_PRELUDE + "".join(c.text(None) for c in cs) + e.text(None), vlib.workdir(), "grideval")
    PROG = (prog, {f.name: E.param_names(f.header, f.name) for f in cs + [e]})
    for f in cs + [e]: rep.functions.append(f.info())
    inner = [Fr(1, 7), Fr(5, 9), Fr(2, 5)]; unsorted = [Fr(3, 4), Fr(1, 10), Fr(1, 2), Fr(1, 10)]; outside = [Fr(-1, 3), Fr(1, 3), Fr(4, 3), Fr(2, 3)]; single = [Fr(3, 8)]
    none, many, edge = "none", "many", "edge"
    tasks = [("dense coefficients", (2,), (7,), [inner], none), ("sparse coefficients, unsorted and repeated abscissae", (1,), (6,), [unsorted], many),
             ("points outside the knot range", (2,), (8,), [outside], none), ("single-point axis", (1, 2), (5, 7), [inner, single], many),
             ("mixed orders, zeros at the edges", (0, 2), (4, 7), [unsorted, inner], edge), ("3-D", (1, 0, 2), (5, 3, 6), [inner[:2], single, outside], many)]
    if thorough: tasks += [("4-D", (1, 1, 0, 2), (4, 5, 3, 6), [inner[:2], unsorted[:2], single, inner], many), ("order 3", (3,), (10,), [inner + outside], none), ("all coefficients but one zero", (2, 1), (7, 5), [inner, outside], "allbut4")]
    rtasks = [(1, 2), (2, 1), (3, 0)]
    t0 = time.time()
    with mp.Pool(min(vlib.NCORES, 8)) as pool:
        r1 = pool.map(grid_case, tasks, chunksize=1); ta = time.time() - t0; tb0 = time.time()
        r2 = pool.map(reject_case, rtasks, chunksize=1); tb = time.time() - tb0
    for name, results, wall in (("C17-grid-vs-pointwise", r1, ta), ("C17-argument-count", r2, tb)):
        flat = [o for r in results for o in r]
        rep.add_group("E3-rational (exact execution of the GOTO program of grideval + splineutil.c helpers; cholmod = exact sparse algebra supplied by the interpreter)", len(flat), sum(1 for o in flat if o[1]), wall,
                      bounded="enumerated tables (1-3(4) dimensions, mixed orders, sparse coefficient arrays) and grids (unsorted, repeated, outside the range, single-point)", name=name)
        for o in flat:
            if not o[1]: rep.add_violation(name, o[0].replace(" ", "_")[:170], o[0] + ": " + o[2], trace=o[2])
        rep.samples += [o[0] for o in flat[:2]]
    rep.extra["evaluations"] = len(tasks) + len(rtasks); rep.extra["distinct_nontrivial"] = len(tasks) + len(rtasks)
    rep.extra["rule"] = "one evaluation = one (table, grid) pair executed exactly, or one wrong-argument-count call; all distinct; every grid point of each pair is compared with the oracle"
    rep.assume("BOUNDED: enumerated tables and grids, exact rational arithmetic on each (rounding not decided)",
               "cholmod (allocate_dense/triplet, dense_to_sparse, transpose, ssmult, triplet_to_sparse, sparse_to_triplet, free_*) is replaced by exact sparse-matrix algebra implemented in checks/c17.py: the assumed contract of the external library",
               "the C++ class photospline::ndsparse (constructor, insertEntry) is implemented by the interpreter; its source text is checked on every run (exit 2 if it changes)",
               "oracle: sum over coefficients of coefficient x product of Cox-de Boor basis values (half-open intervals), i.e. what pointwise evaluation returns strictly inside the knot range below the upper end of full support (C01); grid points exactly on knots at or above t[naxes] are not in the enumerated grids",
               "calloc/realloc objects are sized in bytes-as-cells (never too small): out-of-bounds detection for them is weakened")
    rep.trust("tools/gotoexec.py", "goto-cc front end", "tools/extract.py rules", "the sparse algebra in checks/c17.py")
    rep.finish(replayer)

if __name__ == "__main__":
    main()
