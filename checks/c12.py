#!/usr/bin/env python3
"""C12: the parallel line search of the monotonic fit - thread-modular obligations (BOUNDED instances)."""
import sys, os, json
sys.path.insert(0, os.path.dirname(os.path.dirname(os.path.abspath(__file__))))
from tools import vlib, units
CS = "src/fitter/cholesky_solve.c"

def coordinator_tu(nF, nt, two_runs=None):
    wd = units.free_function(CS, "walk_descents"); rc = units.free_function(CS, "double_rcmp")
    pre = '#define VP_MAXT %d\n#define VP_MAXA %d\n#define VP_MAXF %d\n#include "%s/stubs/c12_common.h"\n#include "%s/stubs/c12_coordinator.h"\n' % (nt, nF + 2, nF, vlib.VERIF, vlib.VERIF)
    h = r'''
#define NF %d
#define NX (NF+1)
void h_coordinator(void) {
	cholmod_common c; cholmod_sparse AtA; cholmod_dense Atb;
	cholmod_dense* x = cholmod_l_allocate_dense(NX, 1, NX, CHOLMOD_REAL, &c);
	cholmod_dense* x_F = cholmod_l_allocate_dense(NF, 1, NF, CHOLMOD_REAL, &c);
	long F[NF], H1[NF]; long nF = NF, nH1 = 0; double residual = nondet_double(); int calcs = 0;
	for (int i = 0; i < NX; i++) { double v = nondet_double(); __CPROVER_assume(v >= 0.0 && v <= 1e6); ((double*)x->x)[i] = v; }
	for (int i = 0; i < NF; i++) { double v = nondet_double(); __CPROVER_assume(v >= -1e6 && v <= 1e6); ((double*)x_F->x)[i] = v; F[i] = i; }
	for (int a = 0; a < VP_MAXA; a++) { __CPROVER_assume(vp_h1n[a] >= 0 && vp_h1n[a] <= NF); for (int k = 0; k < VP_MAXF; k++) __CPROVER_assume(vp_xc[a][k] >= 0.0 && vp_h1[a][k] >= 0 && vp_h1[a][k] < NX); }
	vp_nthreads = %d;
	int r = walk_descents(&AtA, &Atb, x, x_F, F, &nF, H1, &nH1, &residual, &calcs, 0, &c);
	for (int k = 0; k < vp_ncreated; k++) __CPROVER_assert(vp_joined[k], "termination: every created worker is joined");
	__CPROVER_assert(vp_ncreated == vp_nthreads, "one worker per configured thread");
	__CPROVER_assert(nH1 >= 0 && nH1 <= NF, "result: infeasible-set size in range");
	__CPROVER_assert(0, "canary: coordinator run reaches the end");
}
''' % (nF, nt)
    return pre + rc.text(None) + wd.text(None) + h, [wd, rc]

def worker_tu(nF, rounds):
    ev = units.free_function(CS, "evaluate_descent")
    pre = '#define VP_MAXROUNDS %d\n#include "%s/stubs/c12_common.h"\n#include "%s/stubs/c12_worker.h"\n' % (rounds, vlib.VERIF, vlib.VERIF)
    h = r'''
#define NF %d
void h_worker(void) {
	cholmod_common c; cholmod_sparse AtA; cholmod_dense Atb; pthread_mutex_t mutex; pthread_cond_t cv;
	cholmod_dense* x = cholmod_l_allocate_dense(NF + 1, 1, NF + 1, CHOLMOD_REAL, &c);
	cholmod_dense* x_F = cholmod_l_allocate_dense(NF, 1, NF, CHOLMOD_REAL, &c);
	long F[NF]; for (int i = 0; i < NF; i++) { F[i] = i; ((double*)x_F->x)[i] = nondet_double(); } for (int i = 0; i < NF + 1; i++) ((double*)x->x)[i] = nondet_double();
	descent_trial t; t.x = x; t.x_F = x_F; t.AtA_F = &AtA; t.Atb_F = &Atb; t.c = &c; t.F = F; t.nF = NF; t.alpha = NULL; t.x_c = NULL; t.residual = 0;
	t.H1 = NULL; t.nH1 = 0; t.state = WAIT; t.mutex = &mutex; t.cv = &cv; t.id = 0;
	vp_t = &t; vp_state_at_unlock = WAIT;
	evaluate_descent(&t);
	__CPROVER_assert(0, "evaluate_descent never returns normally (it leaves through pthread_exit)");
}
''' % nF
    return pre + ev.text(None) + h, ev

def loop_bound(nF, nt):
    import math
    nblocks = int(math.ceil((nF + 2) / float(nt)))
    def f(fn, text):
        t = text.strip()
        if fn == "walk_descents":
            if "n_blocks" in t: return nblocks + 1
            if "n_threads" in t: return nt + 1
            if "while (1)" in t or "while (!done)" in t or t.startswith("do"): return nt + 2
            return nF + 1
        if fn == "qsort": return nF + 2
        if fn == "vp_complete": return nF + 1
        if fn in ("vp_rely", "vp_snapshot", "pthread_cond_wait", "pthread_mutex_unlock"): return nt + 1
        if fn == "h_coordinator": return max(nF + 3, nt + 1) + 1
        return max(nF, nt) + 3
    return f

def jobs(thorough):
    # instances with >= 2 workers cost ~10 min and ~8 GB each (43M clauses): thorough tier only
    # (the full obligation set of instances with >= 2 workers and >= 2 free variables exhausts the 14 GB solver limit:
    #  those instances are checked for their protocol obligations only, in both tiers)
    insts = [(1, 1), (2, 1), (3, 1)] if not thorough else [(1, 1), (2, 1), (3, 1), (1, 2)]
    js = []; fns = None
    # multi-worker instances in the quick tier: protocol obligations only (the named assertions of the contracts and the
    # unwinding assertions, ~1 min each); their pointer/overflow checks are left to the thorough tier
    proto = [(2, 2), (2, 3), (3, 2)] if thorough else [(1, 2), (2, 3)]
    for nF, nt in insts + proto:
        tu, fns = coordinator_tu(nF, nt)
        po = (nF, nt) in proto
        js.append(vlib.Job("C12-coordinator-nF%d-threads%d%s" % (nF, nt, "-protocol" if po else ""), tu, "h_coordinator", loop_contracts=False, only=(r"\.assertion\.\d+$" if po else None),
                           cbmc_flags=["--unwind", str(max(nF + 3, nt + 3)), "--object-bits", "12", "--no-malloc-may-fail"], unwind_by_line=loop_bound(nF, nt),
                           cc_flags=["-I%s/include" % vlib.REPO, "-I%s/src/fitter" % vlib.REPO, "-I/usr/include/suitesparse"],
                           expect_fail=[r"^h_coordinator\.assertion\.\d+$.*", r"canary"], must_have=[r"pthread_cond_wait\.assertion", r"pthread_join\.assertion"],
                           timeout=3600, backend="cbmc-sat thread-modular (rely/guarantee stubs, unwinding)",
                           bounded="instance nF=%d, n_threads=%d; x, x_F, worker results and every rely choice symbolic; loops unwound with unwinding assertions" % (nF, nt),
                           note="walk_descents extracted verbatim; pthread/cholmod/qsort/clock/get_nthreads/calc_residual replaced by contracts (stubs/c12_*.h)" + ("; PROTOCOL OBLIGATIONS ONLY (named assertions + unwinding assertions)" if po else "")))
    # worker side
    for nF, rounds in ([(1, 2), (2, 2)] if not thorough else [(1, 3), (2, 3), (3, 2)]):
        tu, ev = worker_tu(nF, rounds)
        js.append(vlib.Job("C12-worker-nF%d-rounds%d" % (nF, rounds), tu, "h_worker", loop_contracts=False,
                           cbmc_flags=["--unwind", str(max(nF + 2, 2 * rounds + 4)), "--object-bits", "12", "--no-malloc-may-fail"],
                           cc_flags=["-I%s/include" % vlib.REPO, "-I%s/src/fitter" % vlib.REPO, "-I/usr/include/suitesparse"],
                           expect_fail=[r"canary: worker reaches pthread_exit"], must_have=[r"pthread_mutex_unlock\.assertion", r"pthread_exit\.assertion"],
                           split=8, split_procs=8, timeout=1500, backend="cbmc-sat thread-modular (rely/guarantee stubs, unwinding)",
                           bounded="instance nF=%d, at most %d rounds of work before TERMINATE; coordinator actions, spurious wake-ups, inputs symbolic" % (nF, rounds),
                           note="evaluate_descent extracted verbatim; worker-side contracts in stubs/c12_worker.h; the rely forces TERMINATE after the round bound"))
        fns = fns + [ev]
    return fns, js

def replayer(v):
    """run a small monotonic fit through the real library with real threads, the coordinator delayed after
    every unlock (LD_PRELOAD shim): a lost wake-up shows as a hang, a result that depends on the worker
    count as differing coefficients"""
    wd = vlib.workdir(); R = vlib.REPO
    cmds = ["gcc -c -O1 -g -I%s/include -I/usr/include/suitesparse %s/src/fitter/%s.c -o %s/%s.o" % (R, R, f, wd, f) for f in ("glam", "splineutil", "nnls", "cholesky_solve")]
    cmds.append("g++ -std=c++11 -O1 -g -DPHOTOSPLINE_INCLUDES_SPGLAM -I%s/include -I/usr/include/suitesparse %s/tools/replay/replay_monofit.cpp %s/src/core/*.cpp %s/glam.o %s/splineutil.o %s/nnls.o %s/cholesky_solve.o "
                "-lcfitsio -lcholmod -lspqr -lsuitesparseconfig -llapack -lblas -lpthread -lm -o %s/monofit" % (R, R, vlib.VERIF, R, wd, wd, wd, wd, wd))
    cmds.append("gcc -shared -fPIC -O1 %s/tools/replay/sched_shim.c -ldl -o %s/sched_shim.so" % (vlib.VERIF, wd))
    for c in cmds:
        rc, out, w = vlib.sh(c, timeout=600)
        if rc != 0: return dict(replayed=False, error="replay build failed: " + out[-600:])
    results = {}
    for nt in (1, 2, 3, 5):
        env = dict(os.environ); env["OMP_NUM_THREADS"] = str(nt); env["LD_PRELOAD"] = wd + "/sched_shim.so"
        rc, out, w = vlib.sh("timeout 90 %s/monofit | grep '^-\\?0x'" % wd, timeout=100, env=env)
        if rc != 0:
            return dict(replayed=True, input="monotonic 1-D fit, OMP_NUM_THREADS=%d, coordinator delayed 20 ms after each pthread_mutex_unlock" % nt,
                        driver="tools/replay/replay_monofit.cpp + tools/replay/sched_shim.c (LD_PRELOAD)", exit_code=rc, observed="the fit did not return within 90 s (hang)")
        results[nt] = out.strip()
    if len(set(results.values())) != 1:
        return dict(replayed=True, input="monotonic 1-D fit with OMP_NUM_THREADS in 1,2,3,5", observed="coefficients depend on the worker count: " + json.dumps(results)[:1500])
    return dict(replayed=False, note="fit returns with identical coefficients for 1,2,3,5 workers under the delayed-coordinator schedule")

if __name__ == "__main__":
    fns, js = jobs(vlib.TIER == "thorough")
    # only the LAST harness assertion is a canary; the others are obligations
    for j in js:
        if "coordinator" in j.name: j.expect_fail = [r"canary: coordinator run reaches the end"]
    vlib.run_jobs(js, nproc=3 if vlib.TIER != 'thorough' else 2)
    rep = vlib.Report("C12", level="other"); rep.add_jobs(js)
    rep.extra["explanation"] = ("bounded thread-modular contract verification: for each concrete instance (number of free coefficients nF, number of workers) "
                                "CBMC decides every obligation of the real walk_descents / evaluate_descent against rely/guarantee contracts of the pthread primitives, "
                                "with all data, worker results and rely choices symbolic; not a proof for all instance sizes, not an enumeration of interleavings")
    rep.extra["evaluations"] = len(js); rep.extra["distinct_nontrivial"] = len(set(j.name for j in js))
    rep.extra["rule"] = "one evaluation = one (nF, n_threads) coordinator instance or one (nF, rounds) worker instance; all are distinct configurations"
    for f in fns: rep.functions.append(f.info())
    rep.assume("BOUNDED: one instance per concrete (nF, n_threads); never counted as proved",
               "thread-modular argument: the coordinator is verified against the workers' GUARANTEE (a RUN worker eventually writes its outputs, sets WAIT under the mutex and broadcasts) applied as a nondeterministic RELY havoc inside pthread_mutex_lock/pthread_cond_wait; interleavings of the real threads are NOT enumerated (CBMC: pointer handling for concurrency is unsound)",
               "allocation never fails (--no-malloc-may-fail): walk_descents does not check malloc results; out of scope of C12",
               "POSIX semantics of mutex/condition variable/create/join as written in stubs/c12_coordinator.h; spurious wake-ups are not modelled for the coordinator (each wait returns after >= 1 report)",
               "data-race freedom is argued from the obligations (every shared access is under the mutex or ordered by the hand-shake), not checked by a race detector",
               "worker results are functions of the trial-step index only (vp_res[], vp_xc[], vp_h1[]): what makes the outcome independent of completion order")
    rep.trust("cbmc 6.11.0", "MiniSat", "stubs/c12_common.h, stubs/c12_coordinator.h")
    rep.finish(replayer)
