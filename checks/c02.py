#!/usr/bin/env python3
"""C02: derivative and gradient evaluations are the true partial derivatives.
(a) derivative bases == d/dx of Cox-de Boor (E3-field)  (b) bitmask / derivative-order -> routine map of the
drivers (E3, call logs)  (c) gradient lanes (E3-term) -- see c03/gradient module when present."""
import sys, os, time, itertools, multiprocessing as mp
sys.path.insert(0, os.path.dirname(os.path.dirname(os.path.abspath(__file__))))
from fractions import Fraction
from tools import vlib, units, gotoexec as G, e3lib as E, e3cores as EC
import c01

PROGS = c01.PROGS

def nth_diff(elem, xg, m):
    for _ in range(m): elem = elem.diff(xg)
    return elem

def deriv_cell(args):
    Float, k, n, pattern, cell = args
    prog, params = PROGS["1d_" + Float]
    sh = E.Shape(k, n, pattern); res = []; t0 = time.time()
    tag = "%s k=%d n=%d rep=%s cell=%s%d" % (Float, k, n, sorted(pattern), cell[0], cell[1])
    stage = "setup"
    try:
        dom = G.FieldDom(sh.symbols())
        tsym = [dom.symbol(s) for s in sh.tnames]; xs = dom.symbol("x")
        xname = E.x_symbol_for(sh, cell)
        tb = E.Table1D(prog, params, dom, sh, sh.x_witness(cell), xname); it = tb.it
        ok, c = tb.lookup()
        if not ok: return [(tag + " lookup", False, "lookup failed", 0)]
        s = sh.piece(cell)
        B = E.cox_de_boor(dom, tsym, sh.tw, s, xs, k)
        def spec_d(i, m): return E.subs_x(dom, nth_diff(B[i], xs, m), "x", xname)
        def check(name, vals, m, idx=None):
            bad = []
            for j in range(k + 1):
                want = spec_d(c - k + j, m)
                if vals[j].sym != want: bad.append("j=%d got %s want %s" % (j, vals[j].sym, want))
            res.append(("%s %s == d^%d/dx^%d Cox-de Boor" % (tag, name, m, m), not bad, "; ".join(bad)[:500], 0))
        stage = "bspline_deriv_nonzero"
        bo = it.array("biatx", [None] * (k + 1))
        it.call("bspline_deriv_nonzero", [tb.kptr, n, tb.x, c, k, G.Ptr(bo, 0)])
        check("bspline_deriv_nonzero", bo.cells, 1)
        stage = "bspline_nonzero"
        vo = it.array("values", [None] * (k + 1)); do = it.array("derivs", [None] * (k + 1))
        it.call("bspline_nonzero", [tb.kptr, n, tb.x, c, k, G.Ptr(vo, 0), G.Ptr(do, 0)])
        check("bspline_nonzero.derivs", do.cells, 1)
        # arbitrary-order derivative: the way ndsplineeval_deriv uses it (orders >= 2), strictly increasing knots only
        if not pattern:
            for m in range(2, k + 3):
                stage = "bspline_deriv m=%d" % m
                vals = [it.call("bspline_deriv", [tb.kptr, tb.x, c - k + j, k, m]) for j in range(k + 1)]
                check("bspline_deriv(order %d)" % m, vals, m)
    except Exception as ex:
        res.append(("%s execution of %s [%s]" % (tag, stage, str(ex)[:70]), False, "%s: %s" % (type(ex).__name__, ex), 0))
    dt = time.time() - t0
    return [(a, b, c_, dt) for (a, b, c_, _) in res]

# ---------------------------------------------------------------- (b) drivers: which routine fills which row
def driver_maps(args):
    Float, which, orders, mode = args          # which: 'member' | 'evaluator'; mode: ('mask', m) | ('deriv', tuple or None)
    prog, params = PROGS["twin_" + Float]
    nd = len(orders); t0 = time.time()
    tag = "%s %s orders=%s %s" % (Float, which, list(orders), mode)
    try:
        dom = G.TermDom()
        it = G.Interp(prog, dom); it.prog_params = params; it.hooks["__builtin_expect"] = lambda it, a: a[0]
        nks = [2 * o + 3 + d for d, o in enumerate(orders)]; naxes = [nk - o - 1 for nk, o in zip(nks, orders)]
        EC.setup_table(it, orders, naxes)
        kobjs = [it.array("knots%d" % d, [it.fsym("t%d_%d" % (d, m), m) for m in range(-orders[d], nks[d] + orders[d])]) for d in range(nd)]
        kptrs = [G.Ptr(kobjs[d], orders[d]) for d in range(nd)]
        it.set_global("knots", G.Ptr(it.array("knots", kptrs), 0)); it.set_global("nknots", G.Ptr(it.array("nknots", nks), 0))
        centers = [o + (d % 2) for d, o in enumerate(orders)]
        xs = [it.fsym("x%d" % d, centers[d] + Fraction(1, 2)) for d in range(nd)]
        xo = it.array("x", xs); co = it.array("centers", centers)
        log = []
        def row_of(p): return p
        def h_val(it_, a): log.append(("VALUE", a)); [a[5].obj.cells.__setitem__(a[5].off + j, it_.fsym("v%d" % len(log), 1)) for j in range(a[4])]
        def h_d1(it_, a): log.append(("DERIV1", a)); [a[5].obj.cells.__setitem__(a[5].off + j, it_.fsym("d%d" % len(log), 1)) for j in range(a[4] + 1)]
        def h_dm(it_, a): log.append(("DERIVm", a)); return it_.fsym("m%d" % len(log), 1)
        def h_core(it_, a): log.append(("CORE", a)); return it_.fsym("result", 1)
        it.hooks["bsplvb_simple"] = h_val; it.hooks["bspline_deriv_nonzero"] = h_d1; it.hooks["bspline_deriv"] = h_dm
        it.hooks["ndsplineeval_core"] = h_core; it.hooks["vp_call_core"] = h_core
        pre = "ev_" if which == "evaluator" else ""
        maxdeg = max(orders) + 1
        if mode[0] == "mask":
            r = it.call(pre + "ndsplineeval", [G.Ptr(xo, 0), G.Ptr(co, 0), mode[1]])
            want = ["DERIV1" if (mode[1] >> d) & 1 else "VALUE" for d in range(nd)]
        else:
            dv = mode[1]
            dptr = G.NULL if dv is None else G.Ptr(it.array("derivatives", list(dv)), 0)
            r = it.call(pre + "ndsplineeval_deriv", [G.Ptr(xo, 0), G.Ptr(co, 0), dptr])
            want = ["VALUE" if (dv is None or dv[d] == 0) else ("DERIV1" if dv[d] == 1 else "DERIVm") for d in range(nd)]
        # check the log
        bad = []
        pos = 0; rows = {}
        for d in range(nd):
            if want[d] in ("VALUE", "DERIV1"):
                if pos >= len(log) or log[pos][0] != want[d]: bad.append("dim %d: expected %s call, log has %s" % (d, want[d], log[pos][0] if pos < len(log) else "nothing")); break
                a = log[pos][1]; pos += 1
                exp_n = orders[d] + 1 if want[d] == "VALUE" else orders[d]
                if not (a[0].obj is kobjs[d] and a[0].off == orders[d] and a[1] == nks[d] and a[2].sym == xs[d].sym and a[3] == centers[d] and a[4] == exp_n):
                    bad.append("dim %d: wrong arguments (knots/nknots/x/center/order)" % d)
                rows[d] = a[5]
            else:
                for i in range(orders[d] + 1):
                    if pos >= len(log) or log[pos][0] != "DERIVm": bad.append("dim %d: expected bspline_deriv call %d" % (d, i)); break
                    a = log[pos][1]; pos += 1
                    if not (a[0].obj is kobjs[d] and a[0].off == orders[d] and a[1].sym == xs[d].sym and a[2] == centers[d] - orders[d] + i and a[3] == orders[d] and a[4] == mode[1][d]):
                        bad.append("dim %d: wrong bspline_deriv arguments for i=%d" % (d, i))
        if not bad:
            if pos >= len(log) or log[pos][0] != "CORE" or pos != len(log) - 1: bad.append("core call missing or extra calls")
            else:
                a = log[pos][1]
                if not (a[0].obj is co and a[0].off == 0 and a[1] == maxdeg and a[3] == maxdeg): bad.append("core arguments")
                base = a[2]
                for d, p in rows.items():
                    if not (p.obj is base.obj and p.off == base.off + d * maxdeg): bad.append("dim %d basis written to the wrong row" % d)
                if len(base.obj.cells) < nd * maxdeg: bad.append("localbasis store too small")
            if not (isinstance(r, G.FV) and r.sym == dom.symbol("result")): bad.append("driver does not return the core's result")
        return [(tag + " routine/argument map", not bad, "; ".join(bad), time.time() - t0)]
    except Exception as ex:
        return [(tag + " execution [%s]" % str(ex)[:60], False, "%s: %s" % (type(ex).__name__, ex), time.time() - t0)]

def build_twin_program(Float):
    """drivers (member + evaluator twins) with the 1-D routines and cores left as external calls (hooked)"""
    from specs import table as T
    sc = units.member_function(units.EVAL_H, "searchcenters", "bool")
    ds = [units.driver("ndsplineeval"), units.driver("operator()", cname="call_operator"),
          units.driver("ndsplineeval", True, cname="ev_ndsplineeval"), units.driver("operator()", True, cname="ev_call_operator"),
          units.driver("ndsplineeval_deriv", True, cname="ev_ndsplineeval_deriv")]
    if Float == "float": ds.append(units.driver("ndsplineeval_deriv"))
    protos = ("void bsplvb_simple(const double* knots, const unsigned nknots, double x, int left, int degree, Float* biatx);\n"
              "void bspline_deriv_nonzero(const double* knots, const unsigned nknots, const double x, int left, const int n, Float* biatx);\n"
              "double bspline_deriv(const double* knots, double x, int i, int n, unsigned order);\n"
              "double ndsplineeval_core(const int* centers, int maxdegree, Float* localbasis_buf, size_t localbasis_dim1);\n"
              "double vp_call_core(const int* centers, int maxdegree, Float* localbasis_buf, size_t localbasis_dim1);\n"
              "double ev_ndsplineeval(const double* x, const int* centers, int derivatives);\n")
    text = T.PRELUDE + "#define Float %s\n" % Float + units.VP_HELPERS + protos + sc.text(None) + "".join(d.text(None) for d in ds)
    prog = G.Program.compile(text, vlib.workdir(), "twin_" + Float)
    params = {d.name: E.param_names(d.header, d.name) for d in ds + [sc]}
    params["vp_max_u32"] = ["vp_max_u32::p", "vp_max_u32::n"]
    return prog, params, ds

def main():
    thorough = vlib.TIER == "thorough"
    rep = vlib.Report("C02")
    for Float in ("float", "double"):
        prog, params, fs = E.build_1d_program(Float); PROGS["1d_" + Float] = (prog, params)
        tp, tparams, ds = build_twin_program(Float); PROGS["twin_" + Float] = (tp, tparams)
        if Float == "float": rep.functions += [f.info() for f in fs] + [d.info() for d in ds]
    KMAX = 3 if not thorough else 4
    tasks_a = []
    for Float in ("float", "double"):
        for k in range(0, KMAX + 1):
            for n in ([2 * k + 2, 2 * k + 3, 2 * k + 5] if k < 3 or thorough else [2 * k + 2, 2 * k + 4]):
                pats = [frozenset()]
                if 1 <= k <= 2 and n == 2 * k + 5: pats.append(frozenset([k + 2]))
                for pat in pats:
                    for cell in E.cells(n, k, pat): tasks_a.append((Float, k, n, pat, cell))
    tasks_b = []
    osets = [(2,), (0, 3), (2, 1, 3), (1, 0, 2, 2)] + ([(2, 2, 2, 3, 2, 2), (1, 2, 3, 0, 1)] if thorough else [])
    for Float in ("float", "double"):
        for which in ("member", "evaluator"):
            for orders in osets:
                nd = len(orders)
                for m in range(1 << nd): tasks_b.append((Float, which, orders, ("mask", m)))
                if which == "member" and Float == "double": continue      # splinetable::ndsplineeval_deriv is float-only
                dvs = [None] + [tuple((j + d) % 4 for d in range(nd)) for j in range(4)] + [tuple(2 + (d % 2) for d in range(nd))]
                for dv in dvs: tasks_b.append((Float, which, orders, ("deriv", dv)))
    t0 = time.time()
    with mp.Pool(min(vlib.NCORES, 16)) as pool:
        ra = pool.map(deriv_cell, tasks_a, chunksize=1); ta = time.time() - t0; t1 = time.time()
        rb = pool.map(driver_maps, tasks_b, chunksize=4); tb = time.time() - t1
    for name, results, backend, wall in (("C02a-derivative-bases", ra, "E3-field (fraction-field identity over the GOTO program)", ta),
                                         ("C02b-driver-routine-map", rb, "E3 (call-log of the drivers executed from the GOTO program, callees hooked)", tb)):
        flat = [o for r in results for o in r]
        rep.add_group(backend, len(flat), sum(1 for o in flat if o[1]), wall, bounded="integer shape enumerated (order, nknots, cell; ndim, orders, every derivative bitmask); real-valued inputs symbolic", name=name)
        for o in flat:
            if not o[1]: rep.add_violation(name, o[0].replace(" ", "_"), o[0] + ": " + o[2], trace=o[2])
        rep.samples += [o[0] for o in flat[:3]]
    rep.extra["shapes"] = dict(cells_1d=len(tasks_a), driver_cases=len(tasks_b), max_order=KMAX)
    rep.assume("machine arithmetic treated as mathematical: the rounding clause of C02 is NOT decided",
               "derivative spec: symbolic d^m/dx^m of the Cox-de Boor piece (sympy.polys diff), evaluated at the knot for knot cells",
               "mixed partials follow from (a) per-dimension bases + (b) routine map for every bitmask + C01(b) block walk",
               "arbitrary-order derivatives (bspline_deriv) on strictly increasing knots only, orders 2..k+2",
               "gradient lanes (SIMD multibasis cores) are covered by the C03 check's lane obligations when present; otherwise NOT decided here",
               "integer shapes enumerated; comparisons decided at a rational witness of the cell")
    rep.trust("tools/gotoexec.py", "sympy.polys.fields", "goto-cc front end", "tools/extract.py rules")
    rep.finish(c01.replayer)

if __name__ == "__main__":
    main()
