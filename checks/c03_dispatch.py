"""C03 (1): dispatch soundness of splinetable::get_evaluator by a CBMC function contract.
The body (a 130-line switch) is extracted verbatim; rule R10 turns member-function pointers into
enumerator records and orders_are() into a transcribed helper."""
import re, os, sys
from tools import vlib, units, extract as X

KINDS = ["ndsplineeval_core", "ndsplineeval_coreD", "ndsplineeval_coreD_FixedOrder", "ndsplineeval_core_KnownOrder",
         "ndsplineeval_multibasis_core", "ndsplineeval_multibasis_coreD", "ndsplineeval_multibasis_coreD_FixedOrder", "ndsplineeval_multibasis_core_KnownOrder"]
INFO = {}

PRE = r'''
#include <stdint.h>
#include <stdbool.h>
#include <stddef.h>
uint32_t ndim; uint32_t* order;
enum vp_kind { VP_NONE = 0, %s };
struct vp_fn { enum vp_kind kind; unsigned np; unsigned p[6]; };
struct vp_eval { struct vp_fn eval_ptr, v_eval_ptr; };
#define VP_FN(kind, np, ...) ((struct vp_fn){ kind, np, { __VA_ARGS__ } })
#define VP_TABLE_ORDER(i) (order[i])
''' % ", ".join("VP_K_" + k for k in KINDS)

def extract_orders_are():
    """R10b: detail::orders_are extracted mechanically: the initializer_list becomes (n, pointer), the table
    accessors become the file-scope members, the range-for becomes a pointer loop"""
    s = units.src(units.EVAL_H)
    start, header, body, end = X.find_function(s, r"bool\s+orders_are\s*\(")
    r = X.Rules()
    body = X.strip_comments(body)
    body = r.sub("R10b_size", r"orders\.size\(\)", "n", body, must_fire=True)
    body = r.sub("R10b_ndim", r"spline\.get_ndim\(\)", "ndim", body, must_fire=True)
    body = r.sub("R10b_get_order", r"spline\.get_order\(", "VP_TABLE_ORDER(", body, must_fire=True)
    body = r.sub("R10b_range_for", r"for\s*\(\s*auto\s+order\s*:\s*orders\s*\)", "for (const unsigned* vp_p = o; vp_p != o + n; vp_p++)", body, must_fire=True)
    body = r.sub("R10b_range_var", r"(?<![A-Za-z0-9_])order(?![A-Za-z0-9_\[])", "(*vp_p)", body, must_fire=True)
    INFO2.update(dict(function="detail::orders_are", file=units.EVAL_H, sha_extracted=X.sha(body), rules_fired=r.counts))
    return "static bool vp_orders_are(unsigned n, const unsigned* o)\n" + body + "\n"
INFO2 = {}

def extract():
    s = units.src(units.EVAL_H)
    start, header, body, end = X.find_function(s, r"splinetable<Alloc>::get_evaluator\s*\(")
    r = X.Rules(); r.counts["R1_member"] = 1
    body = X.strip_comments(body)
    body = r.sub("R10_eval_decl", r"evaluator_type<Float>\s+eval\(\*this\);", "struct vp_eval eval;", body, must_fire=True)
    def fn(m):
        args = [a for a in m.group(2).split(",") if a.strip()]
        return "VP_FN(VP_K_%s, %d, %s)" % (m.group(1), len(args), ", ".join(a.strip() for a in args) if args else "0")
    body = r.sub("R10_member_ptr", r"&splinetable::(?:template\s+)?(ndsplineeval_\w+?)<Float((?:\s*,\s*\d+)*)>", fn, body, must_fire=True)
    def oa(m):
        items = [a.strip() for a in m.group(1).split(",")]
        return "vp_orders_are(%d, (const unsigned[]){%s})" % (len(items), ", ".join(items))
    body = r.sub("R10_orders_are", r"detail::orders_are\(\*this,\s*\{([\d,\s]*)\}\)", oa, body)
    if "splinetable::" in body or "detail::" in body: raise X.ExtractionError("get_evaluator: unhandled C++ construct left after R10")
    INFO.update(dict(function="get_evaluator", file=units.EVAL_H, sha_extracted=X.sha(body), rules_fired=r.counts))
    return "struct vp_eval get_evaluator(void)\n" + body + "\n"

def contract(NDMAX):
    r = "__CPROVER_return_value"
    def alleq(val_fmt):   # forall i < ndim: order[i] == <val>
        return " && ".join("(ndim > %d ==> order[%d] == %s)" % (i, i, val_fmt % i if "%d" in val_fmt else val_fmt) for i in range(NDMAX))
    S = "%s.eval_ptr" % r; V = "%s.v_eval_ptr" % r
    ens = [
      # the scalar routine is one of the four families, the vector routine the SAME family with the SAME parameters
      "(%s.kind == VP_K_ndsplineeval_core && %s.kind == VP_K_ndsplineeval_multibasis_core) || (%s.kind == VP_K_ndsplineeval_coreD && %s.kind == VP_K_ndsplineeval_multibasis_coreD) || (%s.kind == VP_K_ndsplineeval_coreD_FixedOrder && %s.kind == VP_K_ndsplineeval_multibasis_coreD_FixedOrder) || (%s.kind == VP_K_ndsplineeval_core_KnownOrder && %s.kind == VP_K_ndsplineeval_multibasis_core_KnownOrder)" % (S, V, S, V, S, V, S, V),
      "%s.np == %s.np && %s" % (S, V, " && ".join("%s.p[%d] == %s.p[%d]" % (S, i, V, i) for i in range(6))),
      # a routine compiled for D dimensions is only used for tables with D dimensions
      "%s.kind == VP_K_ndsplineeval_coreD ==> (%s.np == 1 && %s.p[0] == ndim)" % (S, S, S),
      # a routine compiled for D dimensions of constant order O is only used for such tables
      "%s.kind == VP_K_ndsplineeval_coreD_FixedOrder ==> (%s.np == 2 && %s.p[0] == ndim && %s)" % (S, S, S, alleq("%s.p[1]" % S)),
      # a routine compiled for an order list is only used for tables with exactly those orders
      "%s.kind == VP_K_ndsplineeval_core_KnownOrder ==> (%s.np == ndim && %s)" % (S, S, " && ".join("(ndim > %d ==> (%d < 6 && order[%d] == %s.p[%d]))" % (i, i, i, S, min(i, 5)) for i in range(NDMAX))),
      "%s.kind == VP_K_ndsplineeval_core ==> %s.np == 0" % (S, S),
    ]
    can = ["%s.kind != VP_K_ndsplineeval_core" % S, "%s.kind != VP_K_ndsplineeval_core_KnownOrder" % S,
           "!(%s.kind == VP_K_ndsplineeval_coreD && ndim == 8)" % S]
    s = "struct vp_eval get_evaluator(void)\n"
    s += "__CPROVER_requires(ndim >= 1 && ndim <= %d)\n__CPROVER_requires(__CPROVER_is_fresh(order, %d*sizeof(uint32_t)))\n__CPROVER_assigns()\n" % (NDMAX, NDMAX)
    s += "".join("__CPROVER_ensures(%s)\n" % e for e in ens)
    s += "".join("__CPROVER_ensures(%s) /* canary */\n" % c for c in can)
    return s + ";\n", len(ens), len(can)

def jobs(thorough):
    NDMAX = 10
    body = extract()
    ct, nreal, ncan = contract(NDMAX)
    js = []
    for notempl in (False, True):
        tu = PRE + extract_orders_are() + ct + body + "void h_get_evaluator(void){ get_evaluator(); __CPROVER_assert(0, \"canary: reachable after call\"); }\n"
        canpat = [r"^h_get_evaluator\.assertion\.1$"] + ([r"^get_evaluator\.postcondition\.(%s)$" % "|".join(str(nreal + 1 + k) for k in range(ncan))] if not notempl else [r"^get_evaluator\.postcondition\.%d$" % (nreal + 1)])
        js.append(vlib.Job("C03-get_evaluator%s" % ("-NO_EVAL_TEMPLATES" if notempl else ""), tu, "h_get_evaluator", enforce="get_evaluator", loop_contracts=False,
                           unwind_fns=[("get_evaluator", NDMAX + 1), ("vp_orders_are", 8)], cc_flags=["-DPHOTOSPLINE_NO_EVAL_TEMPLATES"] if notempl else [],
                           expect_fail=canpat, must_have=[r"get_evaluator\.postcondition\.%d$" % nreal], timeout=900,
                           backend="cbmc-sat-contracts+unwind(ndim<=10)", note="ndim 1..10 symbolic, every order a symbolic uint32; loops bounded by ndim unwound with unwinding assertions (complete for ndim<=10)"))
    return js
