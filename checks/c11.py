#!/usr/bin/env python3
"""C11 (partial, bounded): the non-negative least-squares solvers on enumerated small systems, executed EXACTLY.

The real text of nnls_normal_block3 (the solver fitting uses), nnls_normal_block, cholesky_solve, modify_factor,
modify_factor_p, walk_descents, evaluate_descent and calc_residual is extracted from src/fitter/nnls.c and
src/fitter/cholesky_solve.c on every run, compiled by goto-cc and executed from CBMC's GOTO program over exact rationals (E3).
cholmod is an ASSUMED CONTRACT: sparse/dense objects are exact matrices that also carry the compressed-column arrays get_column reads; a
cholmod_factor is a simplicial LDL' factorisation held in the arrays (p, i, x, nz, next, ColCount, Perm) that photospline's recompute_factor reads and
writes - what a factor means is always read back from those arrays; cholmod's own operations (analyze, analyze_p, factorize, change_factor,
reallocate_column, rowadd, rowdel, solve) act on that matrix exactly.  recompute_factor and get_column therefore run as written.
The worker threads of walk_descents are run to completion, one after the other, whenever the coordinator waits (the thread
protocol itself is C12).

Obligations per system (A symmetric positive definite, b): the solver returns; x >= 0 exactly (block3) / >= -KKT_TOL (block);
the Karush-Kuhn-Tucker conditions hold within the solver's own stopping tolerance: gradient g = A x - b has
|g_i| <= tol where x_i > 0 and g_i >= -tol where x_i == 0; hence x is the unique constrained minimiser (compared with the exact
minimiser found by enumerating the active sets) to that accuracy."""
import sys, os, re, time, itertools, random, multiprocessing as mp
sys.path.insert(0, os.path.join(os.path.dirname(os.path.abspath(__file__)), ".."))
from fractions import Fraction as Fr
from tools import vlib, units, gotoexec as G, e3lib as E, extract as X
import c14_exact as X14

F = lambda q: G.FV(Fr(q), Fr(q))
PROG = None
NNLS_C = "src/fitter/nnls.c"; CHOL_C = "src/fitter/cholesky_solve.c"; CHOL_H = "src/fitter/cholesky_solve.h"

PRE = r'''
#include <stddef.h>
#include <stdint.h>
#include <stdbool.h>
#include <float.h>
typedef long clock_t;
#define CLOCKS_PER_SEC 1000000
#define NAN (vp_nan())
double vp_nan(void);
#define assert(x) do { if (!(x)) vp_assert_fail(); } while (0)
void vp_assert_fail(void);
typedef struct cholmod_method_struct { int ordering; } vp_method;
typedef struct cholmod_common_struct { int status; double fl, lnz, modfl; int nmethods, postorder; vp_method* method; /* an array member in cholmod; a pointer to ten entries here: the interpreter keeps one cell per struct member */ } cholmod_common;
typedef struct cholmod_sparse_struct { size_t nrow, ncol, nzmax; void *p, *i, *nz, *x; int stype, packed, sorted; } cholmod_sparse;   /* the members photospline reads */
typedef struct cholmod_dense_struct { size_t nrow, ncol; void* x; } cholmod_dense;
typedef struct cholmod_factor_struct { size_t n; void *Perm, *ColCount, *p, *i, *x, *nz, *next; int xtype; } cholmod_factor;   /* the members photospline reads and writes (simplicial LDL') */
#define CHOLMOD_PATTERN 0
#define CHOLMOD_REAL 1
#define CHOLMOD_A 0
#define CHOLMOD_OK 0
typedef struct { int v; } pthread_t; typedef struct { int v; } pthread_attr_t; typedef struct { int v; } pthread_mutex_t; typedef struct { int v; } pthread_cond_t;
typedef struct { int v; } cpu_set_t;
#define CPU_ZERO(p) ((void)0)
#define CPU_SET(i, p) ((void)0)
#define PTHREAD_CREATE_JOINABLE 0
int sched_setaffinity(int, size_t, cpu_set_t*);
int pthread_attr_init(pthread_attr_t*); int pthread_attr_setdetachstate(pthread_attr_t*, int); int pthread_attr_destroy(pthread_attr_t*);
int pthread_mutex_init(pthread_mutex_t*, void*); int pthread_cond_init(pthread_cond_t*, void*); int pthread_mutex_destroy(pthread_mutex_t*); int pthread_cond_destroy(pthread_cond_t*);
int pthread_mutex_lock(pthread_mutex_t*); int pthread_mutex_unlock(pthread_mutex_t*); int pthread_cond_wait(pthread_cond_t*, pthread_mutex_t*); int pthread_cond_broadcast(pthread_cond_t*);
int pthread_create(pthread_t*, pthread_attr_t*, void*, void*); int pthread_join(pthread_t, void**); void pthread_exit(void*);
void* malloc(size_t); void* realloc(void*, size_t); void free(void*); void* memcpy(void*, const void*, size_t);
void qsort(void*, size_t, size_t, int (*)(const void*, const void*));
int printf(const char*, ...); clock_t clock(void); double ceil(double);
int get_nthreads(void);
cholmod_dense* cholmod_l_zeros(size_t, size_t, int, cholmod_common*); cholmod_dense* cholmod_l_allocate_dense(size_t, size_t, size_t, int, cholmod_common*);
cholmod_dense* cholmod_l_copy_dense(cholmod_dense*, cholmod_common*); int cholmod_l_free_dense(cholmod_dense**, cholmod_common*); int cholmod_l_free_sparse(cholmod_sparse**, cholmod_common*);
int cholmod_l_free_factor(cholmod_factor**, cholmod_common*); int cholmod_l_drop(double, cholmod_sparse*, cholmod_common*);
cholmod_sparse* cholmod_l_submatrix(cholmod_sparse*, long*, long, long*, long, int, int, cholmod_common*);
int cholmod_l_sdmult(cholmod_sparse*, int, double*, double*, cholmod_dense*, cholmod_dense*, cholmod_common*);
cholmod_factor* cholmod_l_analyze(cholmod_sparse*, cholmod_common*); cholmod_factor* cholmod_l_analyze_p(cholmod_sparse*, long*, long*, size_t, cholmod_common*);
int cholmod_l_change_factor(int, int, int, int, int, cholmod_factor*, cholmod_common*); int cholmod_l_reallocate_column(size_t, size_t, cholmod_factor*, cholmod_common*); int cholmod_l_factorize(cholmod_sparse*, cholmod_factor*, cholmod_common*);
cholmod_dense* cholmod_l_solve(int, cholmod_factor*, cholmod_dense*, cholmod_common*);
int cholmod_l_rowadd(size_t, cholmod_sparse*, cholmod_factor*, cholmod_common*); int cholmod_l_rowdel(size_t, cholmod_sparse*, cholmod_factor*, cholmod_common*);
cholmod_dense* SuiteSparseQR_C_backslash_default(cholmod_sparse*, cholmod_dense*, cholmod_common*);
void bzero(void*, size_t); extern void* stderr; int fprintf(void*, const char*, ...); void exit(int);
cholmod_sparse* get_column(cholmod_sparse* A, long k, long* iPerm, long* Fset, long nF, cholmod_common* c);
cholmod_sparse* cholmod_l_allocate_sparse(size_t, size_t, size_t, int, int, int, int, cholmod_common*);
cholmod_factor* recompute_factor(cholmod_sparse* A, cholmod_factor* L, long* iPerm, long* F, unsigned long nF, cholmod_common* c);
'''
PROTOS = r'''
static int intcmp(const void* xa, const void* xb); static int double_rcmp(const void* xa, const void* xb);
cholmod_dense* cholesky_solve(cholmod_sparse* AtA, cholmod_dense* Atb, cholmod_common* c, int verbose, int n_resolves);
cholmod_factor* modify_factor(cholmod_sparse* A, cholmod_factor* L, long* F, long* nF, long* G, long* nG, long* H1, long* nH1, long* H2, long* nH2, int verbose, cholmod_common* c);
cholmod_factor* modify_factor_p(cholmod_sparse* A, cholmod_factor* L, long* F, long* nF_, long* G, long* nG_, long* H1, long* nH1_, long* H2, long* nH2_, bool update, bool verbose, cholmod_common* c);
double calc_residual(cholmod_sparse* AtA, cholmod_dense* Atb, cholmod_dense* x, cholmod_common* c);
void evaluate_descent(void* trial_);
int walk_descents(cholmod_sparse* AtA_F, cholmod_dense* Atb_F, cholmod_dense* x, cholmod_dense* x_F, long* F, long* nF_, long* H1, long* nH1_, double* residual, int* residual_calcs, int verbose, cholmod_common* c);
'''
NNLS_FUNCS = ("intcmp", "nnls_lawson_hanson", "nnls_normal_block", "nnls_normal_block_updown", "nnls_normal_block3")
CHOL_FUNCS = ("double_rcmp", "get_column", "recompute_factor", "cholesky_solve", "modify_factor", "modify_factor_p", "calc_residual", "evaluate_descent", "walk_descents")

def build():
    """the translation unit: constants and the descent_trial type copied verbatim from the sources, then the functions as written"""
    nn = units.src(NNLS_C); hh = units.src(CHOL_H)
    defs = re.findall(r"(?m)^#define\s+(?:MAX_TRIALS|N_RESOLVES|KKT_TOL)\s+.*$", nn)
    if len(defs) != 3: raise X.ExtractionError("nnls.c: the three tuning constants MAX_TRIALS / N_RESOLVES / KKT_TOL were not found")
    m = re.search(r"typedef struct \{.*?\} descent_trial;", hh, re.S); e = re.search(r"enum worker_thread_state \{[^}]*\};", hh)
    if not m or not e: raise X.ExtractionError("cholesky_solve.h: descent_trial / worker_thread_state not found")
    fs = [units.free_function(NNLS_C, n) for n in NNLS_FUNCS] + [units.free_function(CHOL_C, n) for n in CHOL_FUNCS]
    text = PRE + "\n".join(defs) + "\n" + X.strip_comments(m.group(0)) + "\n" + e.group(0) + "\n" + PROTOS + "".join(f.text(None) for f in fs)
    prog = G.Program.compile(text, vlib.workdir(), "c11_nnls")
    return prog, {f.name: E.param_names(f.header, f.name) for f in fs}, fs

# ---------------------------------------------------------------------------------------------- exact linear algebra
def solve_exact(M, rhs):
    """Gaussian elimination over Q; M symmetric positive definite (or any regular matrix); returns None if singular"""
    n = len(M); T = [list(M[i]) + [rhs[i]] for i in range(n)]
    for c in range(n):
        p = next((r for r in range(c, n) if T[r][c] != 0), None)
        if p is None: return None
        T[c], T[p] = T[p], T[c]
        for r in range(n):
            if r != c and T[r][c] != 0:
                f = T[r][c] / T[c][c]
                for j in range(c, n + 1): T[r][j] -= f * T[c][j]
    return [T[i][n] / T[i][i] for i in range(n)]

def is_spd(A):
    n = len(A); L = [[Fr(0)] * n for _ in range(n)]; D = [Fr(0)] * n           # LDL' over Q: all pivots positive
    for j in range(n):
        D[j] = A[j][j] - sum(L[j][k] * L[j][k] * D[k] for k in range(j))
        if D[j] <= 0: return False
        for i in range(j + 1, n): L[i][j] = (A[i][j] - sum(L[i][k] * L[j][k] * D[k] for k in range(j))) / D[j]
    return True

def nnls_oracle(A, b):
    """the unique minimiser of 1/2 x'Ax - b'x over x >= 0: the active set whose reduced solution is feasible with non-negative multipliers"""
    n = len(A)
    for mask in range(1 << n):
        Fs = [i for i in range(n) if mask >> i & 1]
        xf = solve_exact([[A[i][j] for j in Fs] for i in Fs], [b[i] for i in Fs]) if Fs else []
        if xf is None or any(v < 0 for v in xf): continue
        x = [Fr(0)] * n
        for i, v in zip(Fs, xf): x[i] = v
        g = [sum(A[i][j] * x[j] for j in range(n)) - b[i] for i in range(n)]
        if all(g[i] >= 0 for i in range(n) if i not in Fs): return x
    return None

# ---------------------------------------------------------------------------------------------- hooks: cholmod as an assumed contract
class Sp:
    def __init__(self, n, m, ent): self.n = n; self.m = m; self.ent = ent
class WorkerYield(Exception): pass
class WorkerExit(Exception): pass

def install(it, nthreads, fl_mode, sched="forward"):
    reg = {}; freg = {}; keep = []; st = dict(workers=[], in_worker=False, solves=0, rowadd=0, rowdel=0, recompute=0, factorize=0, descents=0)
    def materialise(o, S):
        """compressed-column arrays of the stored entries (packed, sorted): what get_column reads through A->p, A->i, A->x"""
        cols = {}
        for (r, c), v in S.ent.items(): cols.setdefault(c, []).append((r, v))
        pp = [0]; ii = []; xx = []
        for c in range(S.m):
            for r, v in sorted(cols.get(c, [])): ii.append(r); xx.append(F(v))
            pp.append(len(ii))
        o.cells[0].update(nzmax=max(len(ii), 1), p=G.Ptr(it.array("Ap", pp), 0), i=G.Ptr(it.array("Ai", ii or [0]), 0), x=G.Ptr(it.array("Ax", xx or [F(0)]), 0), nz=G.NULL, packed=1, sorted=1)
    def mk(S, stype):
        o = it.new_obj("sparse", 1); o.cells[0] = dict(nrow=S.n, ncol=S.m, stype=stype); reg[id(o)] = S; keep.append(o); materialise(o, S); return G.Ptr(o, 0)
    def h_allocate_sparse(it_, a):
        # an empty packed matrix whose arrays the caller fills (get_column): its entries are read back from the arrays
        nrow, ncol, nzmax = a[0], a[1], a[2]; o = it.new_obj("sparse", 1); S = Sp(nrow, ncol, None); reg[id(o)] = S; keep.append(o)
        o.cells[0] = dict(nrow=nrow, ncol=ncol, nzmax=nzmax, stype=a[5], packed=1 if a[4] else 0, sorted=1 if a[3] else 0, p=G.Ptr(it.new_obj("Rp", ncol + 1), 0), i=G.Ptr(it.new_obj("Ri", max(nzmax, 1)), 0),
                          x=G.Ptr(it.new_obj("Rx", max(nzmax, 1)), 0), nz=G.NULL)
        return G.Ptr(o, 0)
    def get(p):
        if not isinstance(p, G.Ptr) or p.obj is None or id(p.obj) not in reg or not p.obj.live: raise G.MemError("cholmod call on a freed / foreign sparse matrix")
        S = reg[id(p.obj)]; d = p.obj.cells[0]
        if S.ent is None or getattr(S, "raw", False):
            S.raw = True; ent = {}; pc, ic, xc = d["p"].obj.cells, d["i"].obj.cells, d["x"].obj.cells
            for c in range(S.m):
                lo, hi = pc[c], pc[c + 1]
                if not (isinstance(lo, int) and isinstance(hi, int) and 0 <= lo <= hi <= d["nzmax"]): raise G.ExecError("sparse matrix with unset / inconsistent column pointers handed to cholmod")
                for q in range(lo, hi):
                    if not isinstance(ic[q], int) or xc[q] is None: raise G.ExecError("sparse matrix with unset entries handed to cholmod")
                    if not 0 <= ic[q] < S.n: raise G.MemError("sparse matrix with a row index outside the matrix handed to cholmod")
                    if (ic[q], c) in ent: raise G.ExecError("sparse matrix with a duplicate entry handed to cholmod")
                    ent[(ic[q], c)] = xc[q].num
            S.ent = ent
        return S, d["stype"]
    def full(S, stype):
        if stype == 0: return dict(S.ent)
        out = {}
        for (r, c), v in S.ent.items():
            if (stype > 0 and r <= c) or (stype < 0 and r >= c):
                out[(r, c)] = v
                if r != c: out[(c, r)] = v
        return out
    def dense(p):
        if not isinstance(p, G.Ptr) or p.obj is None or not p.obj.live: raise G.MemError("cholmod call on a freed dense matrix")
        return p.obj.cells[0]
    def new_dense(nrow, ncol, vals):
        o = it.new_obj("dense", 1); o.cells[0] = dict(nrow=nrow, ncol=ncol, x=G.Ptr(it.array("densex", list(vals) if nrow * ncol else [None]), 0)); return G.Ptr(o, 0)
    def dvals(d):
        v = d["x"].obj.cells[:d["nrow"] * d["ncol"]]
        if any(x is None for x in v): raise G.ExecError("dense matrix with unset entries used by cholmod")
        return [x.num for x in v]
    def h_free(it_, a):
        pp = a[0]; p = pp.obj.cells[pp.off]
        if isinstance(p, G.Ptr) and p.obj is not None:
            if not p.obj.live: raise G.MemError("double free of a cholmod object")
            p.obj.live = False
        pp.obj.cells[pp.off] = G.NULL; return 1
    def h_drop(it_, a):
        tol = a[0].num; S, stp = get(a[1])
        ent = {k: v for k, v in S.ent.items() if abs(v) > tol and (stp == 0 or (stp > 0 and k[0] <= k[1]) or (stp < 0 and k[0] >= k[1]))}
        S.ent = ent; materialise(a[1].obj, S); return 1
    def idx(p, n):
        v = p.obj.cells[p.off:p.off + n] if n else []
        if any(not isinstance(x, int) for x in v): raise G.ExecError("index set with unset entries handed to cholmod")
        return v
    def h_submatrix(it_, a):
        S, stp = get(a[0])
        if stp != 0: raise G.ExecError("cholmod_submatrix on a matrix declared symmetric (cholmod refuses this: returns NULL)")
        rs = list(range(S.n)) if a[2] < 0 else idx(a[1], a[2])            # rsize < 0: all rows
        cs = list(range(S.m)) if a[4] < 0 else idx(a[3], a[4])
        if any(not 0 <= r < S.n for r in rs) or any(not 0 <= c < S.m for c in cs): raise G.MemError("cholmod_submatrix: index outside the matrix")
        return mk(Sp(len(rs), len(cs), {(i, j): S.ent[(r, c)] for i, r in enumerate(rs) for j, c in enumerate(cs) if (r, c) in S.ent}), 0)
    def h_sdmult(it_, a):
        S, stp = get(a[0]); ent = full(S, stp); al = a[2].obj.cells[a[2].off].num; be = a[3].obj.cells[a[3].off].num
        Xd, Yd = dense(a[4]), dense(a[5]); xv = dvals(Xd)
        if a[1] != 0: ent = {(c, r): v for (r, c), v in ent.items()}; S = Sp(S.m, S.n, ent)
        if Xd["nrow"] != S.m or Yd["nrow"] != S.n: raise G.ExecError("cholmod_sdmult: dimensions differ (A %dx%d, X %d, Y %d)" % (S.n, S.m, Xd["nrow"], Yd["nrow"]))
        yv = dvals(Yd) if be != 0 else [Fr(0)] * S.n
        out = [be * y for y in yv]
        for (r, c), v in ent.items(): out[r] += al * v * xv[c]
        for i, v in enumerate(out): Yd["x"].obj.cells[i] = F(v)
        return 1
    # ---- factor: a simplicial LDL' factorisation kept in the arrays photospline's recompute_factor reads and writes (p, i, x, nz, next, ColCount, Perm).
    # What a factor MEANS is always read back from those arrays: the matrix P'(L D L')P.  cholmod's own operations (assumed contract) are done on that matrix
    # and the arrays rewritten.  A 'pattern' factor (after analyze / change_factor(PATTERN)) has Perm and ColCount only.
    def fac(p):
        if not isinstance(p, G.Ptr) or p.obj is None or id(p.obj) not in freg or not p.obj.live: raise G.MemError("cholmod call on a freed / foreign factor")
        return freg[id(p.obj)], p.obj.cells[0]
    def set_flops(c, n):
        cc = c.obj.cells[c.off]
        if fl_mode == "updates": cc["fl"] = F(10 ** 9); cc["lnz"] = F(1)          # the work estimate always prefers single-row updates
        elif fl_mode == "recompute": cc["fl"] = F(0); cc["lnz"] = F(n * (n + 1) // 2)  # ... never does (rank-1 changes still use them)
        else: cc["fl"] = F(n * n * n // 3 + 1); cc["lnz"] = F(n * (n + 1) // 2)
    def permuted(ent, perm): n = len(perm); return [[ent.get((perm[i], perm[j]), Fr(0)) for j in range(n)] for i in range(n)]
    def symbolic(Mp):
        """structural pattern of L (rows below the diagonal per column) by symbolic elimination"""
        n = len(Mp); pat = [set(i for i in range(j + 1, n) if Mp[i][j] != 0) for j in range(n)]
        for j in range(n):
            rows = sorted(pat[j])
            for u in range(len(rows)):
                for v in range(u + 1, len(rows)): pat[rows[u]].add(rows[v])
        return [sorted(q) for q in pat]
    def ldl(Mp):
        n = len(Mp); L = [[Fr(0)] * n for _ in range(n)]; D = [Fr(0)] * n
        for j in range(n):
            D[j] = Mp[j][j] - sum(L[j][k] * L[j][k] * D[k] for k in range(j))
            if D[j] <= 0: return None, None
            for i in range(j + 1, n): L[i][j] = (Mp[i][j] - sum(L[i][k] * L[j][k] * D[k] for k in range(j))) / D[j]
        return L, D
    def store(d, Mp):
        """write the LDL' factorisation of the (permuted) matrix into fresh arrays: monotonic, each column exactly as long as its pattern"""
        n = len(Mp); L, D = ldl(Mp)
        if L is None: raise G.ExecError("cholmod: matrix not positive definite")
        pat = symbolic(Mp); pp = [0]; ii = []; xx = []; nzv = []
        for j in range(n):
            ii.append(j); xx.append(F(D[j]))
            for r in pat[j]: ii.append(r); xx.append(F(L[r][j]))
            nzv.append(1 + len(pat[j])); pp.append(len(ii))
        nxt = [j + 1 for j in range(n)] + [-1, 0]                       # next[n] = tail, next[n+1] = head
        d.update(p=G.Ptr(it.array("Lp", pp), 0), i=G.Ptr(it.array("Li", ii or [0]), 0), x=G.Ptr(it.array("Lx", xx or [F(0)]), 0), nz=G.Ptr(it.array("Lnz", nzv or [0]), 0), next=G.Ptr(it.array("Lnext", nxt), 0), xtype=1)
        d["ColCount"].obj.cells[:n] = nzv
    def load(f, d):
        """the (permuted) matrix L D L' the arrays stand for"""
        n = f["n"]
        if d.get("xtype") != 1 or d["p"].obj is None: raise G.ExecError("numeric use of a factor that holds a pattern only")
        pc, ic, xc, nzc = d["p"].obj.cells, d["i"].obj.cells, d["x"].obj.cells, d["nz"].obj.cells
        L = [[Fr(0)] * n for _ in range(n)]; D = [None] * n
        for j in range(n):
            lo, cnt = pc[j], nzc[j]
            if not (isinstance(lo, int) and isinstance(cnt, int) and cnt >= 1 and 0 <= lo and lo + cnt <= len(ic)): raise G.ExecError("factor column %d with unset / inconsistent pointers" % j)
            if ic[lo] != j or xc[lo] is None: raise G.ExecError("factor column %d does not start with its diagonal entry" % j)
            D[j] = xc[lo].num; seen_rows = set()
            for q in range(lo + 1, lo + cnt):
                r = ic[q]
                if not isinstance(r, int) or xc[q] is None: raise G.ExecError("factor column %d has unset entries" % j)
                if not j < r < n or r in seen_rows: raise G.ExecError("factor column %d has row %s (outside the lower triangle, or twice)" % (j, r))
                seen_rows.add(r); L[r][j] = xc[q].num
            if D[j] <= 0: raise G.ExecError("factor with a non-positive pivot")
        for j in range(n): L[j][j] = Fr(1)
        return [[sum(L[i][k] * D[k] * L[j][k] for k in range(min(i, j) + 1)) for j in range(n)] for i in range(n)]
    def new_factor(n, perm, Mp_pattern, c):
        o = it.new_obj("factor", 1); pat = symbolic(Mp_pattern)
        o.cells[0] = dict(n=n, Perm=G.Ptr(it.array("Perm", list(perm) or [0]), 0), ColCount=G.Ptr(it.array("ColCount", [1 + len(q) for q in pat] or [0]), 0), p=G.NULL, i=G.NULL, x=G.NULL, nz=G.NULL, next=G.NULL, xtype=0)
        freg[id(o)] = dict(n=n, perm=list(perm)); keep.append(o); set_flops(c, n); return G.Ptr(o, 0)
    def h_analyze(it_, a):
        # a fill-reducing ordering is some permutation: identity, or the reversal (regime "updates"), so that the permutation handling of modify_factor_p / recompute_factor is exercised
        S, stp = get(a[0]); n = S.n; perm = list(range(n)) if fl_mode != "updates" else list(range(n - 1, -1, -1))
        return new_factor(n, perm, permuted(full(S, stp), perm), a[1])
    def h_analyze_p(it_, a):
        S, stp = get(a[0]); n = S.n; perm = idx(a[1], n); st["recompute"] += 1            # only recompute_factor analyses with a given permutation
        if sorted(perm) != list(range(n)): raise G.ExecError("cholmod_analyze_p: the user permutation is not a permutation")
        if not (isinstance(a[2], G.Ptr) and a[2].obj is None): raise G.ExecError("cholmod_analyze_p with a column subset: not modelled")
        return new_factor(n, perm, permuted(full(S, stp), perm), a[4])
    def h_factorize(it_, a):
        S, stp = get(a[0]); f, d = fac(a[1]); st["factorize"] += 1
        if stp == 0: raise G.ExecError("cholmod_factorize on an unsymmetric matrix factors A*A', not A")
        if S.n != f["n"]: raise G.ExecError("cholmod_factorize: the factor was analysed for another size")
        store(d, permuted(full(S, stp), f["perm"])); return 1
    def h_change_factor(it_, a):
        to_xtype, to_ll, to_super, to_packed, to_mono = a[:5]; f, d = fac(a[5]); n = f["n"]
        if to_ll or to_super: raise G.ExecError("change_factor to LL' / supernodal: not modelled")
        if to_xtype == 0: d.update(p=G.NULL, i=G.NULL, x=G.NULL, nz=G.NULL, next=G.NULL, xtype=0); return 1
        if to_xtype != 1: raise G.ExecError("change_factor to an unexpected type")
        if d.get("xtype") == 1: return 1                                    # already simplicial numeric LDL'
        cc = d["ColCount"].obj.cells[:n]
        if any(not isinstance(v, int) or v < 1 for v in cc): raise G.ExecError("change_factor: column counts unset or below 1")
        pp = [0]
        for j in range(n): pp.append(pp[-1] + cc[j])
        ii = [None] * pp[-1]; xx = [None] * pp[-1]
        for j in range(n): ii[pp[j]] = j; xx[pp[j]] = F(1)
        d.update(p=G.Ptr(it.array("Lp", pp), 0), i=G.Ptr(it.array("Li", ii or [0]), 0), x=G.Ptr(it.array("Lx", xx or [F(0)]), 0), nz=G.Ptr(it.array("Lnz", [1] * n or [0]), 0),
                 next=G.Ptr(it.array("Lnext", [j + 1 for j in range(n)] + [-1, 0]), 0), xtype=1)
        return 1
    def h_realloc_col(it_, a):
        j, need = a[0], a[1]; f, d = fac(a[2]); n = f["n"]; pc, nxt, nzc = d["p"].obj.cells, d["next"].obj.cells, d["nz"].obj.cells
        if not 0 <= j < n: raise G.MemError("reallocate_column outside the factor")
        oi, ox = d["i"].obj.cells, d["x"].obj.cells; end = pc[n]; keepn = nzc[j]
        if need < keepn: raise G.ExecError("reallocate_column below the current length of the column")
        ni = list(oi) + [None] * need; nx = list(ox) + [None] * need
        ni[end:end + keepn] = oi[pc[j]:pc[j] + keepn]; nx[end:end + keepn] = ox[pc[j]:pc[j] + keepn]
        d["i"] = G.Ptr(it.array("Li", ni), 0); d["x"] = G.Ptr(it.array("Lx", nx), 0)
        # unlink j and append it before the tail
        prev = next((q for q in list(range(n)) + [n + 1] if nxt[q] == j), None)
        if prev is None: raise G.ExecError("reallocate_column: column not in the list")
        if nxt[j] != n:
            nxt[prev] = nxt[j]; last = next(q for q in list(range(n)) + [n + 1] if nxt[q] == n); nxt[last] = j; nxt[j] = n
        pc[j] = end; pc[n] = end + need; return 1
    # rowadd / rowdel receive positions in the factor's ordering
    def h_rowdel(it_, a):
        f, d = fac(a[2]); st["rowdel"] += 1; Mp = load(f, d); k = a[0]
        if not 0 <= k < f["n"]: raise G.MemError("cholmod_rowdel: row outside the factor")
        for j in range(f["n"]): Mp[k][j] = Mp[j][k] = Fr(0)
        Mp[k][k] = Fr(1); store(d, Mp); return 1
    def h_rowadd(it_, a):
        f, d = fac(a[2]); S, stp = get(a[1]); st["rowadd"] += 1; Mp = load(f, d); k = a[0]
        if not 0 <= k < f["n"]: raise G.MemError("cholmod_rowadd: row outside the factor")
        if S.n != f["n"] or S.m != 1: raise G.ExecError("cholmod_rowadd: the new row must be n-by-1")
        if any(Mp[k][j] != (1 if j == k else 0) for j in range(f["n"])): raise G.ExecError("cholmod_rowadd: row %d of the factor is not an identity row" % k)
        for (r, c), v in S.ent.items(): Mp[k][r] = Mp[r][k] = v
        if ldl(Mp)[0] is None: raise G.ExecError("cholmod_rowadd: updated matrix not positive definite")
        store(d, Mp); return 1
    def h_solve(it_, a):
        f, d = fac(a[1]); B = dense(a[2]); st["solves"] += 1; n = f["n"]
        if a[0] != 0: raise G.ExecError("cholmod_solve: only CHOLMOD_A is modelled")
        if B["nrow"] != n: raise G.ExecError("cholmod_solve: right-hand side has %d rows, the factor %d" % (B["nrow"], n))
        Mp = load(f, d); perm = f["perm"]; bv = dvals(B)
        xp = solve_exact(Mp, [bv[perm[i]] for i in range(n)]); x = [None] * n
        for i in range(n): x[perm[i]] = xp[i]
        return new_dense(n, 1, [F(v) for v in x])
    def h_qr(it_, a):
        # assumed: SuiteSparseQR backslash returns the least-squares solution of a full-column-rank system (exact: normal equations)
        S, stp = get(a[0]); ent = full(S, stp); B = dense(a[1]); bv = dvals(B); st["solves"] += 1
        if B["nrow"] != S.n: raise G.ExecError("SuiteSparseQR backslash: right-hand side has %d rows, the matrix %d" % (B["nrow"], S.n))
        N = [[Fr(0)] * S.m for _ in range(S.m)]; r = [Fr(0)] * S.m; rows = {}
        for (i, j), v in ent.items(): rows.setdefault(i, []).append((j, v))
        for i, lst in rows.items():
            for j, v in lst:
                r[j] += v * bv[i]
                for j2, v2 in lst: N[j][j2] += v * v2
        x = solve_exact(N, r)
        if x is None: raise G.ExecError("SuiteSparseQR backslash on a rank-deficient matrix: not modelled")
        return new_dense(S.m, 1, [F(v) for v in x])
    def h_bzero(it_, a):
        p, nbytes = a
        for q in range(nbytes // 8): p.obj.cells[p.off + q] = F(0)
        return None
    def h_exit(it_, a): raise G.ExecError("the solver called exit(%s)" % a[0])
    it.hooks.update(SuiteSparseQR_C_backslash_default=h_qr, bzero=h_bzero, exit=h_exit, fprintf=lambda it_, a: 0)
    it.set_global("stderr", G.NULL)
    # ---- libc
    def h_qsort(it_, a):
        base, n, cmpf = a[0], a[1], a[3]
        name = cmpf.obj.cells[0] if isinstance(cmpf, G.Ptr) and cmpf.obj is not None else None
        if name not in ("intcmp", "double_rcmp"): raise G.ExecError("qsort with an unknown comparator")
        import functools
        cells = base.obj.cells; vals = cells[base.off:base.off + n]
        def cmp(u, v):
            tmp = it_.array("qs", [u, v]); return it_.call(name, [G.Ptr(tmp, 0), G.Ptr(tmp, 1)])
        vals.sort(key=functools.cmp_to_key(cmp)); cells[base.off:base.off + n] = vals; return None
    def h_memcpy(it_, a):
        d, s, nbytes = a
        if isinstance(s.obj.cells[s.off], dict): d.obj.cells[d.off] = dict(s.obj.cells[s.off]); return d      # one struct
        n = nbytes // 8
        if d.off + n > len(d.obj.cells) or s.off + n > len(s.obj.cells): raise G.MemError("memcpy outside its objects")
        d.obj.cells[d.off:d.off + n] = s.obj.cells[s.off:s.off + n]; return d
    def h_realloc(it_, a):
        p, n = a; o = it_.new_obj("realloc", max(n, 1))
        if isinstance(p, G.Ptr) and p.obj is not None:
            k = min(len(p.obj.cells), len(o.cells)); o.cells[:k] = p.obj.cells[:k]; p.obj.live = False
        return G.Ptr(o, 0)
    def h_free_libc(it_, a):
        p = a[0]
        if isinstance(p, G.Ptr) and p.obj is not None:
            if not p.obj.live: raise G.MemError("double free")
            p.obj.live = False
        return None
    # ---- threads: workers run to completion whenever the coordinator waits
    def run_workers():
        # schedule: which of the workers that were told to RUN get the processor before the coordinator looks again
        order = list(st["workers"])
        if sched in ("reverse", "one-at-a-time-reverse"): order.reverse()
        ran = 0
        for w in order:
            d = w.obj.cells[w.off]
            if sched.startswith("one-at-a-time") and ran: break          # the coordinator wakes up after a single report and has to wait again
            if d.get("state") == 1 and not d.get("vp_dead"):
                ran += 1
                st["in_worker"] = True
                try: it.call("evaluate_descent", [w])
                except WorkerYield: pass
                except WorkerExit: d["vp_dead"] = True
                finally: st["in_worker"] = False
                st["descents"] += 1
    def h_create(it_, a):
        fn = a[2]; name = fn.obj.cells[0] if isinstance(fn, G.Ptr) and fn.obj is not None else None
        if name != "evaluate_descent": raise G.ExecError("pthread_create with an unexpected start routine")
        st["workers"].append(a[3]); a[0].obj.cells[a[0].off] = dict(v=len(st["workers"])); return 0
    def h_wait(it_, a):
        if st["in_worker"]: raise WorkerYield()
        before = [w.obj.cells[w.off].get("state") for w in st["workers"]]
        run_workers()
        if before == [w.obj.cells[w.off].get("state") for w in st["workers"]]: raise G.ExecError("walk_descents waits although no worker can run (deadlock)")
        return 0
    def h_unlock(it_, a):
        return 0
    def h_join(it_, a):
        for w in st["workers"]:
            d = w.obj.cells[w.off]
            if not d.get("vp_dead"):
                if d.get("state") != 2: raise G.ExecError("join of a worker that was not told to terminate")
                st["in_worker"] = True
                try: it.call("evaluate_descent", [w])
                except WorkerExit: d["vp_dead"] = True
                except WorkerYield: raise G.ExecError("worker waits again after TERMINATE")
                finally: st["in_worker"] = False
        return 0
    def h_exit(it_, a): raise WorkerExit()
    def h_destroy(it_, a):
        st["workers"] = [w for w in st["workers"] if not w.obj.cells[w.off].get("vp_dead")]
        if st["workers"]: raise G.ExecError("thread attributes destroyed while workers are alive")
        return 0
    ok = lambda it_, a: 0
    it.hooks.update(cholmod_l_zeros=lambda it_, a: new_dense(a[0], a[1], [F(0)] * (a[0] * a[1])), cholmod_l_allocate_dense=lambda it_, a: new_dense(a[0], a[1], [None] * (a[0] * a[1])),
                    cholmod_l_copy_dense=lambda it_, a: new_dense(dense(a[0])["nrow"], dense(a[0])["ncol"], dense(a[0])["x"].obj.cells[:dense(a[0])["nrow"] * dense(a[0])["ncol"]]),
                    cholmod_l_free_dense=h_free, cholmod_l_free_sparse=h_free, cholmod_l_free_factor=h_free, cholmod_l_drop=h_drop, cholmod_l_submatrix=h_submatrix, cholmod_l_sdmult=h_sdmult,
                    cholmod_l_analyze=h_analyze, cholmod_l_factorize=h_factorize, cholmod_l_solve=h_solve, cholmod_l_rowadd=h_rowadd, cholmod_l_rowdel=h_rowdel, cholmod_l_allocate_sparse=h_allocate_sparse, cholmod_l_analyze_p=h_analyze_p, cholmod_l_change_factor=h_change_factor, cholmod_l_reallocate_column=h_realloc_col,
                    qsort=h_qsort, memcpy=h_memcpy, malloc=lambda it_, a: G.Ptr(it_.new_obj("malloc", max(a[0], 1)), 0), realloc=h_realloc, free=h_free_libc, printf=ok, clock=ok,
                    ceil=lambda it_, a: F(-((-a[0].num.numerator) // a[0].num.denominator)), get_nthreads=lambda it_, a: nthreads, vp_nan=lambda it_, a: "nan",
                    sched_setaffinity=ok, pthread_attr_init=ok, pthread_attr_setdetachstate=ok, pthread_attr_destroy=h_destroy, pthread_mutex_init=ok, pthread_cond_init=ok, pthread_mutex_destroy=ok,
                    pthread_cond_destroy=ok, pthread_mutex_lock=ok, pthread_mutex_unlock=h_unlock, pthread_cond_wait=h_wait, pthread_cond_broadcast=ok, pthread_create=h_create, pthread_join=h_join, pthread_exit=h_exit)
    def h_assert(it_, a): raise G.ExecError("assert() of the solver failed")
    it.hooks["vp_assert_fail"] = h_assert
    return mk, st

# ---------------------------------------------------------------------------------------------- systems
MY = {}
def systems(thorough):
    """(label, A, b): symmetric positive definite A = M'M (+ shift), integer / rational / degenerate / badly scaled data"""
    out = []; rnd = random.Random(20251003)
    def add(label, M, y, shift=0):
        n = len(M[0]); A = [[sum(M[k][i] * M[k][j] for k in range(len(M))) + (shift if i == j else 0) for j in range(n)] for i in range(n)]
        b = [sum(M[k][i] * y[k] for k in range(len(M))) for i in range(n)]
        if is_spd(A):
            out.append((label, A, b))
            if shift == 0: MY[label] = (M, y)          # the least-squares form min |Mx - y| has these normal equations only without the shift
    # the system found by the native search (integers): block3 stopped after a partial step of its line search
    out.append(("found-5x5-integers", [[Fr(v) for v in r] for r in ((10, -4, 7, 4, 8), (-4, 20, 2, 10, -8), (7, 2, 13, 4, 8), (4, 10, 4, 13, -1), (8, -8, 8, -1, 10))], [Fr(v) for v in (-2, 14, 7, 7, -1)]))
    # found by the same search (binary64 data, taken exactly): block3 alternates between two active sets until its iteration cap
    cyc = ((0.22757560742104921, -0.4496684378593937, -0.37462439262358227), (-0.4496684378593937, 1.7366713343614655, 0.85094720615973707), (-0.37462439262358227, 0.85094720615973707, 0.64388880436200457))
    out.append(("found-3x3-cycle", [[Fr(v) for v in r] for r in cyc], [Fr(v) for v in (0.29655509445213535, -0.28689576355138036, -0.47879771435334972)]))
    # found by the thorough tier: block3 read H1[nH1] (uninitialised) while making H1 and H2 disjoint
    out.append(("found-4x4-h1-overread", [[Fr(v) for v in r] for r in ((17, -6, 4, 0), (-6, 13, -6, 2), (4, -6, 5, -5), (0, 2, -5, 9))], [Fr(v) for v in (6, -17, 7, -1)]))
    count = 12000 if thorough else 400
    k = 0
    while len(out) < count + 3:
        k += 1; n = 1 + k % 5 + (k % 7 == 0) + (k % 11 == 0); m = n + k % 3; kind = ("int", "rat", "sparse", "scaled", "degenerate", "nearzero", "correlated")[k % 7]
        if kind == "int": M = [[Fr(rnd.randint(-2, 2)) for _ in range(n)] for _ in range(m)]; y = [Fr(rnd.randint(-3, 3)) for _ in range(m)]
        elif kind == "rat": M = [[Fr(rnd.randint(-9, 9), rnd.randint(1, 7)) for _ in range(n)] for _ in range(m)]; y = [Fr(rnd.randint(-9, 9), rnd.randint(1, 5)) for _ in range(m)]
        elif kind == "sparse": M = [[Fr(rnd.randint(-3, 3)) if rnd.random() < 0.5 else Fr(0) for _ in range(n)] for _ in range(m)]; y = [Fr(rnd.randint(-3, 3)) for _ in range(m)]
        elif kind == "scaled":
            sc = [Fr(10) ** rnd.randint(-3, 3) for _ in range(n)]; M = [[Fr(rnd.randint(-5, 5), 3) * sc[j] for j in range(n)] for _ in range(m)]; y = [Fr(rnd.randint(-5, 5)) for _ in range(m)]
        elif kind == "nearzero":
            # the unconstrained optimum has components of size 1e-10 .. 1e-13 of either sign next to ordinary ones (inside / around the solver's own tolerance)
            M = [[Fr(rnd.randint(-2, 2)) for _ in range(n)] for _ in range(m)]
            x0 = [rnd.choice((Fr(1), Fr(2), Fr(0), Fr(-2, 10 ** 11), Fr(3, 10 ** 11), Fr(-1, 10 ** 12), Fr(-5, 10 ** 10), Fr(1, 10 ** 13))) for _ in range(n)]
            y = [sum(M[r][j] * x0[j] for j in range(n)) for r in range(m)]
        elif kind == "correlated":
            # nearly collinear columns (a base column plus small integer perturbations), regularised by 1e-4 I: the systems on which plain block pivoting cycles
            base = [Fr(rnd.randint(1, 5)) for _ in range(m)]
            M = [[base[r] + Fr(rnd.randint(-2, 2), 10) for _ in range(n)] for r in range(m)]; y = [Fr(rnd.randint(-5, 5)) for _ in range(m)]
            before = len(out); add("%s-%dx%d-#%d" % (kind, m, n, k), M, y, shift=Fr(1, 10 ** 4)); continue
        else:
            # degenerate: the unconstrained optimum has components exactly zero / ties: y built from a non-negative x0 with zeros
            M = [[Fr(rnd.randint(-2, 2)) for _ in range(n)] for _ in range(m)]; x0 = [Fr(rnd.randint(0, 2)) if rnd.random() < 0.6 else Fr(0) for _ in range(n)]
            y = [sum(M[r][j] * x0[j] for j in range(n)) for r in range(m)]
        before = len(out); add("%s-%dx%d-#%d" % (kind, m, n, k), M, y, shift=0)
        if len(out) == before and kind in ("sparse", "int", "degenerate", "nearzero"): add("%s-%dx%d-#%d+I" % (kind, m, n, k), M, y, shift=1)
    return out

class NoiseInterp(G.Interp):
    """exact rationals, except that a floating-point sum or difference of two non-zero numbers that cancels EXACTLY comes out as sign * 2^-53 * |operand|
    instead of 0: the size of the rounding noise double arithmetic leaves at such a cancellation, with the sign chosen adversarially (both signs are run).
    Decisions of the solver that hinge on an exact zero (a coordinate that reaches the bound at the end of a step) are the ones rounding can flip."""
    noise_sign = 0
    def fop(self, op, x, y):
        r = G.Interp.fop(self, op, x, y)
        if self.noise_sign and op in ("+", "-") and r.num == 0 and x.num is not None and x.num != 0:
            v = self.noise_sign * abs(x.num) / 2 ** 53; return G.FV(v, v)
        return r

def solve_with(solver, A, b, nthreads=1, fl_mode="default"):
    """run the extracted solver exactly on the dense symmetric system (A, b); returns the vector of rationals (used by C10 on the systems a monotonic fit hands over)"""
    prog, params = PROG; n = len(A)
    it = G.Interp(prog, X14.RatDom(), max_steps=20000000); it.prog_params = params
    mk, st = install(it, nthreads, fl_mode)
    S = mk(Sp(n, n, {(i, j): A[i][j] for i in range(n) for j in range(n) if A[i][j] != 0}), 0)
    o = it.new_obj("dense", 1); o.cells[0] = dict(nrow=n, ncol=1, x=G.Ptr(it.array("Atb", [F(v) for v in b]), 0))
    cc = it.array("common", [dict(status=0, fl=F(0), lnz=F(0), modfl=F(0), nmethods=9, postorder=1, method=G.Ptr(it.array("methods", [dict(ordering=q) for q in range(10)]), 0))])
    if solver == "cholesky_solve": r = it.call(solver, [S, G.Ptr(o, 0), G.Ptr(cc, 0), 0, nthreads - 1])       # (AtA, Atb, c, verbose, n_resolves)
    else: r = it.call(solver, [S, G.Ptr(o, 0), 0, G.Ptr(cc, 0)])
    return [v.num for v in r.obj.cells[0]["x"].obj.cells[:n]]

SCHEDULES = ("forward", "reverse", "one-at-a-time", "one-at-a-time-reverse")
def schedule_case(args):
    """nnls_normal_block3 under several worker schedules: the returned vector must be the same (C12's 'same result under every schedule', on the exact execution)"""
    label, A, b, nthreads, fl_mode = args; t0 = time.time(); n = len(A); res = {}
    tag = "%s [nnls_normal_block3, %d workers, work estimate: %s]" % (label, nthreads, fl_mode)
    try:
        prog, params = PROG
        for sc in SCHEDULES:
            it = G.Interp(prog, X14.RatDom(), max_steps=8000000); it.prog_params = params
            mk, st = install(it, nthreads, fl_mode, sched=sc)
            S = mk(Sp(n, n, {(i, j): A[i][j] for i in range(n) for j in range(n) if A[i][j] != 0}), 0)
            o = it.new_obj("dense", 1); o.cells[0] = dict(nrow=n, ncol=1, x=G.Ptr(it.array("Atb", [F(v) for v in b]), 0))
            cc = it.array("common", [dict(status=0, fl=F(0), lnz=F(0), modfl=F(0), nmethods=9, postorder=1, method=G.Ptr(it.array("methods", [dict(ordering=q) for q in range(10)]), 0))])
            r = it.call("nnls_normal_block3", [S, G.Ptr(o, 0), 0, G.Ptr(cc, 0)])
            res[sc] = ([v.num for v in r.obj.cells[0]["x"].obj.cells[:n]], st["descents"])
        same = all(res[sc][0] == res["forward"][0] for sc in SCHEDULES)
        return [("%s: O5 the same vector under every worker schedule (%s)" % (tag, ", ".join(SCHEDULES)), same, "; ".join("%s: %s" % (sc, [str(v) for v in res[sc][0]]) for sc in SCHEDULES)[:600], time.time() - t0, max(v[1] for v in res.values()))]
    except G.ExecError as ex:
        return [("%s: O5 the same vector under every worker schedule" % tag, False, "%s: %s%s (schedules finished: %s)" % (type(ex).__name__, ex, getattr(ex, "loc", ""), list(res)), time.time() - t0, 0)]

def run_case(args):
    label, A, b, solver, nthreads, fl_mode = args; t0 = time.time(); n = len(A); out = []
    tag = "%s [%s, %d worker%s, work estimate: %s]" % (label, solver, nthreads, "" if nthreads == 1 else "s", fl_mode)
    def ob(name, ok, detail=""): out.append(("%s: %s" % (tag, name), ok, detail[:600], time.time() - t0))
    try:
        prog, params = PROG
        noise = 0
        if fl_mode.endswith("/noise+"): noise = 1; fl_mode = fl_mode[:-7]
        elif fl_mode.endswith("/noise-"): noise = -1; fl_mode = fl_mode[:-7]
        it = (NoiseInterp if noise else G.Interp)(prog, X14.RatDom(), max_steps=4000000); it.prog_params = params; it.noise_sign = noise
        mk, st = install(it, nthreads, fl_mode)
        S = mk(Sp(n, n, {(i, j): A[i][j] for i in range(n) for j in range(n) if A[i][j] != 0}), 0)
        o = it.new_obj("dense", 1); o.cells[0] = dict(nrow=n, ncol=1, x=G.Ptr(it.array("Atb", [F(v) for v in b]), 0)); B = G.Ptr(o, 0)
        cc = it.array("common", [dict(status=0, fl=F(0), lnz=F(0), modfl=F(0), nmethods=9, postorder=1, method=None)])
        cm = it.array("methods", [dict(ordering=q) for q in range(10)])
        cc.cells[0]["method"] = G.Ptr(cm, 0)
        try:
            if solver == "nnls_lawson_hanson": r = it.call(solver, [S, B, F(Fr(1, 10 ** 9)), 0, 0, 0, 1, 0, G.Ptr(cc, 0)])      # pre-formulated normal equations, tolerance 1e-9, no iteration cap
            elif solver == "nnls_lawson_hanson/ls":
                M, y = MY[label]; S = mk(Sp(len(M), n, {(i, j): M[i][j] for i in range(len(M)) for j in range(n) if M[i][j] != 0}), 0)
                o2 = it.new_obj("dense", 1); o2.cells[0] = dict(nrow=len(M), ncol=1, x=G.Ptr(it.array("y", [F(v) for v in y]), 0))
                r = it.call("nnls_lawson_hanson", [S, G.Ptr(o2, 0), F(Fr(1, 10 ** 9)), 0, 0, 0, 0, 0, G.Ptr(cc, 0)])
            else: r = it.call(solver, [S, B, 0, G.Ptr(cc, 0)])
        except G.ExecError as ex:
            ob("O1 the solver returns", False, "%s: %s%s" % (type(ex).__name__, ex, getattr(ex, "loc", ""))); return out
        ob("O1 the solver returns", True)
        x = [v.num for v in r.obj.cells[0]["x"].obj.cells[:n]]
        eps = Fr(2) ** -52
        tol = n * eps * 10 ** 5 if solver == "nnls_normal_block3" else Fr(1, 10 ** 9) if solver.startswith("nnls_lawson_hanson") else Fr(1, 10 ** 6)
        neg_allowed = Fr(0) if solver == "nnls_normal_block3" or solver.startswith("nnls_lawson_hanson") else tol
        if noise: neg_allowed = max(neg_allowed, tol)             # with noise a component may come out as -1e-17: inside the tolerance the property allows
        ob("O2 every component is non-negative (%s)" % ("exactly" if neg_allowed == 0 else "up to KKT_TOL"), all(v >= -neg_allowed for v in x), "x = %s" % [str(v) for v in x])
        g = [sum(A[i][j] * x[j] for j in range(n)) - b[i] for i in range(n)]
        scale = max([abs(v) for v in b] + [Fr(1)])
        bad = [(i, str(x[i]), float(g[i])) for i in range(n) if (x[i] > tol and abs(g[i]) > tol * scale) or (x[i] <= tol and g[i] < -tol * scale)]
        ob("O3 Karush-Kuhn-Tucker conditions within the stopping tolerance", not bad, "violated at (index, x_i, gradient_i): %s; x = %s" % (bad[:4], [float(v) for v in x]))
        xo = nnls_oracle(A, b)
        if xo is not None:
            # distance to the exact minimiser bounded through the smallest pivot: |x - x*| <= cond * tol; here: a generous fixed factor
            err = max(abs(u - v) for u, v in zip(x, xo)); lim = Fr(1, 1000) * (1 + max(abs(v) for v in xo))
            ob("O4 agrees with the unique constrained minimiser (active-set enumeration)", err <= lim, "max |x - x*| = %g; x = %s; x* = %s" % (float(err), [float(v) for v in x], [float(v) for v in xo]))
        ob("O0 bookkeeping: solves=%d rowadd=%d rowdel=%d recompute=%d factorize=%d descents=%d" % (st["solves"], st["rowadd"], st["rowdel"], st["recompute"], st["factorize"], st["descents"]), True)
    except Exception as ex:
        out.append(("%s: execution [%s]" % (tag, str(ex)[:80]), False, "%s: %s" % (type(ex).__name__, ex), time.time() - t0))
    return out

def bookkeeping_job(N=5):
    mf = units.free_function("src/fitter/cholesky_solve.c", "modify_factor_p")
    pre = r'''
#include <stddef.h>
#include <stdbool.h>
#include <stdlib.h>
typedef long clock_t;
#define CLOCKS_PER_SEC 1000000
typedef struct cholmod_common_struct { int status; } cholmod_common;
typedef struct cholmod_sparse_struct { size_t nrow, ncol; int stype; } cholmod_sparse;
typedef struct cholmod_factor_struct { size_t n; void* Perm; } cholmod_factor;
#define VP_N %d
clock_t clock(void) { return 0; }
int printf(const char* f, ...) { return 0; }
/* ghost record of what cholmod is asked to do */
int vp_del[VP_N], vp_add[VP_N], vp_scratch, vp_recomputed; long vp_colF[VP_N]; long vp_ncolF[VP_N];
cholmod_sparse vp_col, vp_sub; cholmod_factor vp_fac; long vp_perm[VP_N];
int cholmod_l_rowdel(size_t k, cholmod_sparse* R, cholmod_factor* L, cholmod_common* c) { __CPROVER_assert(k < VP_N && L != NULL, "rowdel inside the factor"); vp_del[k]++; return 1; }
int cholmod_l_rowadd(size_t k, cholmod_sparse* R, cholmod_factor* L, cholmod_common* c) { __CPROVER_assert(k < VP_N && L != NULL && R == &vp_col, "rowadd inside the factor, with the column just extracted"); vp_add[k]++; return 1; }
long vp_last_k; long vp_last_nF;
cholmod_sparse* get_column(cholmod_sparse* A, long k, long* iPerm, long* Fset, long nF, cholmod_common* c) { vp_last_k = k; vp_last_nF = nF; __CPROVER_assert(nF >= 1 && Fset[nF - 1] == k, "the new column is restricted to a free set that already contains it"); return &vp_col; }
int cholmod_l_free_sparse(cholmod_sparse** A, cholmod_common* c) { *A = NULL; return 1; }
int cholmod_l_free_factor(cholmod_factor** L, cholmod_common* c) { *L = NULL; return 1; }
cholmod_factor* cholmod_l_analyze(cholmod_sparse* A, cholmod_common* c) { vp_fac.n = A->nrow; vp_fac.Perm = vp_perm; return &vp_fac; }
int cholmod_l_factorize(cholmod_sparse* A, cholmod_factor* L, cholmod_common* c) { vp_scratch++; return 1; }
long vp_subF[VP_N]; long vp_subn;
cholmod_sparse* cholmod_l_submatrix(cholmod_sparse* A, long* r, long nr, long* cset, long nc, int v, int s, cholmod_common* c) {
	__CPROVER_assert(A->stype == 0 && r == cset && nr == nc && nr >= 0 && nr <= VP_N, "submatrix of the unsymmetric view, same rows and columns"); vp_subn = nr;
	for (long q = 0; q < nr; q++) vp_subF[q] = r[q];
	vp_sub.nrow = nr; vp_sub.ncol = nc; vp_sub.stype = 0; return &vp_sub; }
long vp_recF[VP_N]; long vp_recn;
cholmod_factor* recompute_factor(cholmod_sparse* A, cholmod_factor* L, long* iPerm, long* F, unsigned long nF, cholmod_common* c) {
	__CPROVER_assert(L != NULL && iPerm != NULL && nF <= VP_N, "recompute_factor arguments"); vp_recomputed++; vp_recn = nF; for (unsigned long q = 0; q < nF; q++) vp_recF[q] = F[q]; return L; }
/* qsort: ascending sort of long elements (the comparator of the source reads them through int pointers: values < 2^31) */
void qsort(void* base, size_t n, size_t sz, int (*cmp)(const void*, const void*)) { long* a = base; __CPROVER_assert(sz == sizeof(long) && n <= VP_N, "qsort of long elements");
	for (size_t i = 1; i < n; i++) { long v = a[i]; size_t j = i; while (j > 0 && a[j - 1] > v) { a[j] = a[j - 1]; j--; } a[j] = v; } }
static int intcmp(const void* xa, const void* xb);
cholmod_factor* modify_factor_p(cholmod_sparse* A, cholmod_factor* L, long* F, long* nF_, long* G, long* nG_, long* H1, long* nH1_, long* H2, long* nH2_, bool update, bool verbose, cholmod_common* c);
static int intcmp(const void* xa, const void* xb) { return 0; }
''' % N
    har = r'''
void h_mf(void) {
	long n; __CPROVER_assume(n >= 1 && n <= VP_N);
	bool inF[VP_N], sel[VP_N];
	long F[VP_N], G[VP_N], H1[VP_N], H2[VP_N];
	long nF = 0, nG = 0, nH1 = 0, nH2 = 0;
	for (long i = 0; i < n; i++) { if (inF[i]) { F[nF++] = i; if (sel[i]) H1[nH1++] = i; } else { G[nG++] = i; if (sel[i]) H2[nH2++] = i; } }
	for (long i = 0; i < VP_N; i++) { vp_del[i] = 0; vp_add[i] = 0; vp_perm[i] = i; }
	cholmod_sparse A; A.nrow = n; A.ncol = n; A.stype = 1;
	cholmod_factor L0; bool haveL, full, perm; cholmod_factor* L = NULL;
	if (haveL) { L = &L0; L0.n = full ? n : nF; L0.Perm = perm ? vp_perm : NULL; }
	bool update; cholmod_common c;
	bool ready = haveL && (long)L0.n == n;   /* update_ready of the source: the factor covers the whole matrix */
	cholmod_factor* R = modify_factor_p(&A, L, F, &nF, G, &nG, H1, &nH1, H2, &nH2, update, 0, &c);
	/* postconditions */
	__CPROVER_assert(nH1 == 0 && nH2 == 0, "pending changes are consumed");
	__CPROVER_assert(nF + nG == n && nF >= 0 && nG >= 0, "F and G still partition the coefficients (sizes)");
	long cF = 0, cG = 0;
	for (long i = 0; i < n; i++) { bool wantF = inF[i] ? !sel[i] : sel[i];
		if (wantF) { __CPROVER_assert(cF < nF && F[cF] == i, "F == (F minus H1) plus H2, ascending"); cF++; }
		else { __CPROVER_assert(cG < nG && G[cG] == i, "G == (G minus H2) plus H1, ascending"); cG++; }
		if (update && ready) { __CPROVER_assert(vp_del[i] == (inF[i] && sel[i]), "exactly the rows of H1 are deleted from the factor"); __CPROVER_assert(vp_add[i] == (!inF[i] && sel[i]), "exactly the rows of H2 are added to the factor"); }
		else __CPROVER_assert(vp_del[i] == 0 && vp_add[i] == 0, "no single-row update of a factor that does not cover the whole matrix"); }
	__CPROVER_assert(cF == nF && cG == nG, "nothing else in F or G");
	__CPROVER_assert(A.stype == 1, "the matrix is handed back declared symmetric");
	if (!update) { __CPROVER_assert(vp_scratch == 1 && vp_subn == nF && R == &vp_fac, "factorised from scratch on the new free set"); for (long q = 0; q < nF; q++) __CPROVER_assert(vp_subF[q] == F[q], "the from-scratch factor is that of A[F,F]"); }
	if (update && !ready) { __CPROVER_assert(vp_recomputed == 1 && vp_recn == nF && R == &vp_fac, "a factor of the whole matrix is recomputed for the new free set"); for (long q = 0; q < nF; q++) __CPROVER_assert(vp_recF[q] == F[q], "recompute_factor gets the new free set"); }
	if (update && ready) __CPROVER_assert(R == L && vp_scratch == 0 && vp_recomputed == 0, "the updated factor is returned");
	__CPROVER_assert(0, "canary: reachable after the call");
}
'''
    tu = pre + mf.text(None) + har
    job = vlib.Job("C11-modify_factor_p-bookkeeping", tu, "h_mf", enforce=None, loop_contracts=False, expect_fail=[r"^h_mf\.assertion\.15$"], must_have=[r"h_mf\.assertion", r"\.unwind\."],
                        cbmc_flags=["--unwind", str(N + 2), "--unwinding-assertions", "--no-malloc-may-fail", "--object-bits", "12"], timeout=900, split=8, backend="cbmc-sat-bounded-unwinding",
                        bounded="every partition of at most %d coefficients into F and G, every pair of subsets H1 of F and H2 of G, update / no update, no factor / factor of the free set / factor of the whole matrix, with / without permutation; loops unwound %d times with unwinding assertions" % (N, N + 2),
                        note="set bookkeeping of modify_factor_p as pre/postconditions around the real function; cholmod and recompute_factor as recording stubs")
    job.check_flags = ["--bounds-check", "--pointer-check"]
    return mf, job

def main():
    global PROG
    thorough = vlib.TIER == "thorough"
    rep = vlib.Report("C11", level="exploration")
    prog, params, fns = build(); PROG = (prog, params)
    for f in fns: rep.functions.append(f.info())
    sysl = systems(thorough)
    cases = []
    for q, (label, A, b) in enumerate(sysl):
        cases.append((label, A, b, "nnls_normal_block3", 1 + q % 3, ("default", "updates", "recompute")[q % 3]))
        if label.startswith("found-"):
            cases += [(label, A, b, "nnls_normal_block3", nt, fm) for nt in (1, 2, 3) for fm in ("default", "updates", "recompute") if (label, A, b, "nnls_normal_block3", nt, fm) not in cases]
        elif thorough or q % 2 == 0: cases.append((label, A, b, "nnls_normal_block3", 1 + (q + 1) % 3, ("default", "updates", "recompute")[(q + 1) % 3]))
        if thorough or q % 2 == 1 or label.startswith("found-"):
            # the same code with rounding-sized noise at exact cancellations, both signs (see NoiseDom)
            cases += [(label, A, b, "nnls_normal_block3", 1 + q % 3, ("default", "updates", "recompute")[q % 3] + sg) for sg in ("/noise+", "/noise-")]
        cases.append((label, A, b, "nnls_normal_block", 1, "default"))
        cases.append((label, A, b, "nnls_normal_block_updown", 1, ("default", "updates", "recompute")[(q + 2) % 3]))
        cases.append((label, A, b, "nnls_lawson_hanson", 1, "default"))
        if thorough or q % 4 == 1 or label.startswith("found-"):
            for sg in ("/noise+", "/noise-"):
                cases += [(label, A, b, "nnls_normal_block", 1, "default" + sg), (label, A, b, "nnls_normal_block_updown", 1, ("default", "updates", "recompute")[(q + 2) % 3] + sg), (label, A, b, "nnls_lawson_hanson", 1, "default" + sg)]
        if label in MY and (thorough or q % 2): cases.append((label, A, b, "nnls_lawson_hanson/ls", 1, "default"))
    t0 = time.time()
    scases = [(label, A, b, 2 + q % 3, ("default", "updates", "recompute")[q % 3]) for q, (label, A, b) in enumerate(sysl) if thorough or q % 3 == 0 or label.startswith("found-")]
    with mp.Pool(min(vlib.NCORES, 16)) as pool:
        res = pool.map(run_case, cases, chunksize=1)
        sres = pool.map(schedule_case, scases, chunksize=1)
    sflat = [o for r in sres for o in r]
    rep.add_group("E3-rational (exact execution under four worker schedules: all workers / one worker per wake-up of the coordinator, forward / reverse order)", len(sflat), sum(1 for o in sflat if o[1]), time.time() - t0,
                  bounded="%d systems, 2-4 workers" % len(scases), name="C11-schedules")
    for o in sflat:
        if not o[1]: rep.add_violation("C11-schedules", re.sub(r"[^\w\-\+\.\[\],:#]", "_", o[0])[:200], o[0] + ": " + o[2], trace=o[2])
    if not any(o[4] > 0 for o in sflat): rep.undecided.append("vacuity: no schedule run reached the line search")
    flat = [o for r in res for o in r if not o[0].split(": ", 1)[1].startswith("O0")]
    bylabel = {(c[0], c[3]): c for c in cases}; native = {}
    def replay(tagged):
        """the same system handed to the real solver (double arithmetic, real cholmod); at most 16 native replays per run"""
        native["n"] = native.get("n", 0) + 1
        if native["n"] > 17: return dict(replayed=False, note="only the first 16 violations of a run are replayed natively")
        m = re.match(r"(.*?) \[(\w+)[,/]", tagged)
        if not m or (m.group(1), m.group(2)) not in bylabel: return None
        if "exe" not in native:
            wd = vlib.workdir(); exe = os.path.join(wd, "replay_nnls")
            rc, o, w = vlib.sh("gcc -O1 -g -I%s/include -I/usr/include/suitesparse -I%s/src/fitter %s/tools/replay/replay_nnls.c %s/src/fitter/nnls.c %s/src/fitter/cholesky_solve.c %s/src/fitter/splineutil.c -lcholmod -lspqr -lm -lpthread -o %s"
                               % (vlib.REPO, vlib.REPO, vlib.VERIF, vlib.REPO, vlib.REPO, vlib.REPO, exe), timeout=600)
            native["exe"] = exe if rc == 0 else None
        if not native["exe"]: return dict(replayed=False, note="the native replay harness did not build")
        label, A, b, solver = bylabel[(m.group(1), m.group(2))][:4]
        argsv = " ".join(str(v) for r in A for v in r) + " " + " ".join(str(v) for v in b)
        rc, out, w = vlib.sh("VERB=1 timeout -s KILL 60 %s %s %d %s 2>&1 | tail -8; exit ${PIPESTATUS[0]}" % (native["exe"], solver, len(A), argsv), timeout=90)
        return dict(replayed=(rc == 1), input="replay_nnls %s %d %s" % (solver, len(A), argsv), observed=("exit %d\n" % rc) + out[-1500:], command="tools/replay/replay_nnls.c linked with src/fitter/{nnls,cholesky_solve,splineutil}.c and the real cholmod")
    for name, sel in (("C11-block3", "nnls_normal_block3"), ("C11-block", "[nnls_normal_block,"), ("C11-updown", "[nnls_normal_block_updown,"), ("C11-lawson-hanson", "[nnls_lawson_hanson")):
        grp = [o for o in flat if sel in o[0]]
        rep.add_group("E3-rational (exact execution of the GOTO program; cholmod as assumed contract; workers run to completion)", len(grp), sum(1 for o in grp if o[1]),
                      time.time() - t0, bounded="%d symmetric positive-definite systems, 1..%d unknowns; 1-3 workers; three work-estimate regimes of modify_factor" % (len(sysl), max(len(s[1]) for s in sysl)), name=name)
        for o in grp:
            if not o[1]: rep.add_violation(name, re.sub(r"[^\w\-\+\.\[\],:#]", "_", o[0])[:200], o[0] + ": " + o[2], trace=o[2], replay=replay(o[0]))
        rep.samples += [o[0] for o in grp[:2]]
    # ---- conformance of the assumed contracts: the real library (double arithmetic, real cholmod, real recompute_factor / get_column, real threads) on the same systems
    t1 = time.time(); replay("%s [nnls_normal_block3," % sysl[0][0])                     # builds the harness
    nat = []
    if native.get("exe"):
        bf = os.path.join(vlib.workdir(), "nnls_batch.txt"); order = [(label, A, b, sv) for (label, A, b) in sysl if not label.startswith(("scaled", "correlated")) for sv in ("nnls_normal_block3", "nnls_normal_block", "nnls_normal_block_updown", "nnls_lawson_hanson")]
        with open(bf, "w") as f:
            for label, A, b, sv in order: f.write("%s %d %s %s\n" % (sv, len(A), " ".join(str(v) for r in A for v in r), " ".join(str(v) for v in b)))
        rc, out, w = vlib.sh("timeout -s KILL 600 %s --batch %s" % (native["exe"], bf), timeout=700)
        lines = [l for l in out.splitlines() if l.startswith("x") or l.startswith("NULL")]
        with mp.Pool(min(vlib.NCORES, 16)) as pool: xos = pool.starmap(nnls_oracle, [(A, b) for (label, A, b) in sysl], chunksize=8)
        xo_of = {label: xo for (label, A, b), xo in zip(sysl, xos)}
        if rc != 0 or len(lines) != len(order): rep.undecided.append("the native batch run did not complete (exit %s, %d of %d results)" % (rc, len(lines), len(order)))
        else:
            for (label, A, b, sv), line in zip(order, lines):
                xo = xo_of[label]; tagn = "%s [%s]: the real library agrees with the exact minimiser" % (label, sv)
                if line.startswith("NULL"): nat.append((tagn, False, "the solver returned NULL", (label, sv))); continue
                # criterion: the KKT conditions in double arithmetic within 1e-6 * (1 + max|b|) (what tools/replay/replay_nnls.c tests) and agreement of x itself.
                # The badly scaled systems (condition numbers up to 1e13) are NOT part of this group: what double arithmetic may lose there is 'a tolerance tied to
                # the conditioning' that the property does not quantify; the first version of this group included them and raised false alarms on four such systems
                # at the thorough tier (Lawson-Hanson and block3 results off by the conditioning).  They stay in the exact groups.
                xv = [float(v) for v in line.split()[1:]]; n = len(A); Af = [[float(v) for v in r] for r in A]; bf = [float(v) for v in b]; sc = 1 + max(abs(v) for v in bf)
                g = [sum(Af[i][j] * xv[j] for j in range(n)) - bf[i] for i in range(n)]
                kkt = [i for i in range(n) if xv[i] < -1e-6 or (xv[i] > 1e-6 and abs(g[i]) > 1e-6 * sc) or (xv[i] <= 1e-6 and g[i] < -1e-6 * sc)]
                err = max(abs(u - float(v)) for u, v in zip(xv, xo)); lim = 1e-5 * (1 + max(abs(float(v)) for v in xo))
                okx = err <= lim
                nat.append((tagn, not kkt and okx, "KKT violated at %s (gradient %s); max |x - x*| = %g (limit %g); x = %s; x* = %s" % (kkt, g, err, lim, xv, [float(v) for v in xo]), (label, sv)))
        rep.add_group("native run of the real library against the exact minimiser (conformance of the assumed contracts; BOUNDED, double arithmetic)", len(nat), sum(1 for o in nat if o[1]), time.time() - t1,
                      bounded="the %d of these systems that are neither badly scaled nor nearly singular, all four solvers (Lawson-Hanson on the pre-formulated normal equations)" % len([1 for q in sysl if not q[0].startswith(("scaled", "correlated"))]), name="C11-native")
        for o in nat:
            if not o[1]:
                rp = replay("%s [%s," % o[3])
                # the one class recorded as a known finding: block3 reaches its iteration cap in double arithmetic although the exact execution of the same system converges
                cls = " [iteration cap reached in double arithmetic]" if o[3][1] == "nnls_normal_block3" and rp and "Failed to converge" in rp.get("observed", "") else ""
                rep.add_violation("C11-native", re.sub(r"[^\w\-\+\.\[\],:#]", "_", o[0] + cls)[:220], o[0] + cls + ": " + o[2], trace=o[2], replay=rp)
    else: rep.undecided.append("the native harness did not build")
    # ---- E1 (CBMC, bounded by unwinding): the set bookkeeping of modify_factor_p for EVERY configuration of at most N coefficients
    mfun, mjob = bookkeeping_job(6 if thorough else 5)
    vlib.run_jobs([mjob], 1); rep.add_jobs([mjob])
    book = [o[0] for r in res for o in r if "O0 bookkeeping" in o[0]]
    tot = {}
    for s in book:
        for k, v in re.findall(r"(\w+)=(\d+)", s): tot[k] = tot.get(k, 0) + int(v)
    for k in ("solves", "rowadd", "rowdel", "recompute", "factorize", "descents"):
        if not tot.get(k): rep.undecided.append("vacuity: no execution reached %s" % k)
    rep.samples.append("paths exercised: %s" % tot)
    rep.extra["evaluations"] = len(cases) + len(SCHEDULES) * len(scases) + len(nat)
    rep.extra["distinct_nontrivial"] = len([1 for c in cases if len(c[1]) >= 2]) + len(SCHEDULES) * len([1 for c in scases if len(c[1]) >= 2])
    rep.extra["rule"] = ("one evaluation = one execution of one solver on one system (exact execution from the extracted code in one regime / worker count / schedule / noise sign, or one native run of the real library); "
                         "non-trivial = the system has at least two unknowns; systems are distinct by construction (seeded generator, labels carry the draw number)")
    rep.assume("PARTIAL and BOUNDED: decided for nnls_normal_block3 (the solver fitting uses), nnls_normal_block, nnls_normal_block_updown and nnls_lawson_hanson (normal-equation and least-squares form, tolerance 1e-9, no iteration cap) on the enumerated systems only",
               "cholmod (submatrix, sdmult, drop, analyze, factorize, rowadd, rowdel, solve) and SuiteSparseQR's backslash (least-squares solution of a full-column-rank system) are an assumed contract: exact sparse algebra, a factor is the factorisation of its matrix",
               "recompute_factor and get_column run as written: a cholmod_factor is a simplicial LDL' factorisation kept in the arrays (p, i, x, nz, next, ColCount, Perm) that recompute_factor reads and writes, a cholmod_sparse carries its compressed-column arrays; cholmod's own operations on them (analyze, analyze_p, factorize, change_factor, reallocate_column, rowadd, rowdel, solve) are the assumed contract",
               "the worker threads of walk_descents are run to completion one after the other when the coordinator waits (protocol: C12)",
               "machine arithmetic treated as mathematical: every decision of the solvers is taken on exact rationals; rounding and conditioning are not modelled, except that every solver is also run with noise of size 2^-53 * |operand| and either sign at every exact cancellation (a test of robustness, not a model of IEEE arithmetic)",
               "qsort: the comparator of the source is called on the elements; intcmp reads long elements through int pointers (values < 2^31)",
               "termination is decided only for the enumerated systems (step limit of the interpreter; the solver's own iteration cap is visible as a KKT failure)")
    rep.trust("tools/gotoexec.py", "goto-cc front end", "fractions.Fraction")
    rep.finish(None)

if __name__ == "__main__":
    main()
