#!/usr/bin/env python3
"""validates MANIFEST.json and every evidence file against the schemas in /root/.vp (run with python3-vt)"""
import json, sys, os, jsonschema
V = os.path.dirname(os.path.dirname(os.path.abspath(__file__)))
m = json.load(open(os.path.join(V, "MANIFEST.json")))
jsonschema.validate(m, json.load(open("/root/.vp/MANIFEST.schema.json")))
es = json.load(open("/root/.vp/EVIDENCE.schema.json")); bad = 0
props = [json.loads(l)["id"] for l in open(os.path.join(V, "properties.jsonl"))]
claimed = [c["property_id"] for c in m["checks"]]; na = [c["property_id"] for c in m["not_applicable"]]
if sorted(claimed + na) != sorted(props): print("properties not partitioned into checks / not_applicable:", sorted(set(props) - set(claimed + na)), sorted(set(claimed) & set(na))); bad += 1
for c in m["checks"]:
    p = os.path.join(V, c["evidence_file"])
    if not os.path.exists(p): print("missing", p); bad += 1; continue
    e = json.load(open(p))
    try: jsonschema.validate(e, es)
    except Exception as ex: print("INVALID", p, str(ex)[:200]); bad += 1; continue
    print("%s tier=%s level=%s obligations=%s discharged=%s violations=%s wall=%ss" % (c["property_id"], e["tier"], e["level"], e["coverage"].get("obligations"), e["coverage"].get("discharged"), e["violations"], e["wall_s"]))
sys.exit(1 if bad else 0)
