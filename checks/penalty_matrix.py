"""The assembled penalty matrix, exactly.  add_penalty_term / calc_penalty / divided_diffs (glam.c), kronecker_product
and cholmod_tril (splineutil.c) are executed from CBMC's GOTO program over exact rationals with cholmod replaced by
exact sparse algebra (symmetric-storage semantics included).  Obligation (C09): for a non-monotonic fit the matrix is
    P = sum_i lambda_i * ( I x ... x D_i' D_i x ... x I ),   D_i = the p_i-th derivative-coefficient operator (textbook formula)
i.e. the quadratic form c'Pc is 'smoothing strength times the sum of squares of the B-spline coefficients of the
penaltyOrder-th partial derivative'.  Obligation (C10): for a fit that is monotonic in dimension m, the solver works in
T-spline coordinates c = (I x L x I) t, so the matrix must be (I x L x I)' P (I x L x I)."""
import sys, os, time, itertools
from fractions import Fraction as Fr
from tools import vlib, units, gotoexec as G, e3lib as E
import c14_exact as X14
F = lambda q: G.FV(Fr(q), Fr(q))
PROG = None

PRE = r'''
#include <stdint.h>
#include <stddef.h>
#include <stdbool.h>
typedef struct cholmod_common_struct { int status; } cholmod_common;
typedef struct cholmod_sparse_struct { size_t nrow, ncol; int stype; } cholmod_sparse;
typedef struct cholmod_dense_struct { size_t nrow, ncol; void* x; } cholmod_dense;
typedef struct cholmod_triplet_struct { size_t nrow, ncol, nzmax, nnz; void *i, *j, *x; int stype; } cholmod_triplet;
#define CHOLMOD_REAL 1
cholmod_dense* cholmod_l_zeros(size_t, size_t, int, cholmod_common*); cholmod_sparse* cholmod_l_dense_to_sparse(cholmod_dense*, int, cholmod_common*);
int cholmod_l_free_dense(cholmod_dense**, cholmod_common*); int cholmod_l_free_sparse(cholmod_sparse**, cholmod_common*); int cholmod_l_free_triplet(cholmod_triplet**, cholmod_common*);
cholmod_sparse* cholmod_l_transpose(cholmod_sparse*, int, cholmod_common*); cholmod_sparse* cholmod_l_ssmult(cholmod_sparse*, cholmod_sparse*, int, int, int, cholmod_common*);
cholmod_triplet* cholmod_l_allocate_triplet(size_t, size_t, size_t, int, int, cholmod_common*); cholmod_sparse* cholmod_l_triplet_to_sparse(cholmod_triplet*, size_t, cholmod_common*);
cholmod_triplet* cholmod_l_sparse_to_triplet(cholmod_sparse*, cholmod_common*); cholmod_sparse* cholmod_l_speye(size_t, size_t, int, cholmod_common*);
cholmod_sparse* cholmod_l_add(cholmod_sparse*, cholmod_sparse*, double*, double*, int, int, cholmod_common*);
'''

def build():
    fs = [units.free_function("src/fitter/splineutil.c", n) for n in ("cholmod_tril", "kronecker_product")] + [units.free_function("src/fitter/glam.c", n) for n in ("divided_diffs", "calc_penalty", "add_penalty_term")]
    protos = "cholmod_sparse* calc_penalty(uint64_t* nsplines, double* knots, uint32_t ndim, uint32_t dim, uint32_t order, uint32_t porder, int mono, cholmod_common* c);\n"
    prog = G.Program.compile(PRE + protos + "".join(f.text(None) for f in fs), vlib.workdir(), "penalty_matrix")
    return prog, {f.name: E.param_names(f.header, f.name) for f in fs}, fs

class Sp:
    def __init__(self, n, m, ent): self.n = n; self.mm = m; self.ent = ent

def install(it):
    reg = {}; keep = []
    def mk(S, stype):
        o = it.new_obj("sparse", 1); o.cells[0] = dict(nrow=S.n, ncol=S.mm, stype=stype); reg[id(o)] = S; keep.append(o); return G.Ptr(o, 0)
    def get(p):
        if p.obj is None or id(p.obj) not in reg or not p.obj.live: raise G.MemError("cholmod call on a freed / foreign sparse matrix")
        return reg[id(p.obj)], p.obj.cells[0]["stype"]
    def full(S, stype):
        if stype == 0: return dict(S.ent)
        out = {}
        for (r, c), v in S.ent.items():
            if (stype > 0 and r <= c) or (stype < 0 and r >= c):
                out[(r, c)] = v
                if r != c: out[(c, r)] = v
        return out
    def tri(ent, stype): return {k: v for k, v in ent.items() if v != 0 and (stype == 0 or (stype > 0 and k[0] <= k[1]) or (stype < 0 and k[0] >= k[1]))}
    def h_zeros(it_, a):
        o = it_.new_obj("dense", 1); x = it_.new_obj("densex", a[0] * a[1], F(0)); o.cells[0] = dict(nrow=a[0], ncol=a[1], x=G.Ptr(x, 0)); return G.Ptr(o, 0)
    def h_d2s(it_, a):
        d = a[0].obj.cells[0]; x = d["x"].obj.cells; nr, nc = d["nrow"], d["ncol"]
        return mk(Sp(nr, nc, {(r, c): x[c * nr + r].num for c in range(nc) for r in range(nr) if x[c * nr + r].num != 0}), 0)
    def h_free(it_, a):
        pp = a[0]; p = pp.obj.cells[pp.off]
        if p is not None and p.obj is not None:
            if not p.obj.live: raise G.MemError("double free of a cholmod object")
            p.obj.live = False
        pp.obj.cells[pp.off] = G.NULL; return 1
    def h_transpose(it_, a):
        S, st = get(a[0]); return mk(Sp(S.mm, S.n, {(c, r): v for (r, c), v in S.ent.items()}), -st)
    def h_ssmult(it_, a):
        (A, sa), (B, sb), stype = get(a[0]), get(a[1]), a[2]
        fa, fb = full(A, sa), full(B, sb)
        if A.mm != B.n: raise G.ExecError("cholmod_ssmult: inner dimensions differ")
        rows = {}
        for (r, c), v in fb.items(): rows.setdefault(r, []).append((c, v))
        out = {}
        for (r, k), v in fa.items():
            for (c, w) in rows.get(k, []): out[(r, c)] = out.get((r, c), Fr(0)) + v * w
        return mk(Sp(A.n, B.mm, tri(out, stype)), stype)          # stype > 0: only the upper triangle of the product is kept and declared symmetric
    def h_alloc_trip(it_, a):
        nrow, ncol, nzmax, stype = a[0], a[1], a[2], a[3]; o = it_.new_obj("triplet", 1)
        o.cells[0] = dict(nrow=nrow, ncol=ncol, nzmax=nzmax, nnz=0, stype=stype, i=G.Ptr(it_.new_obj("ti", nzmax), 0), j=G.Ptr(it_.new_obj("tj", nzmax), 0), x=G.Ptr(it_.new_obj("tx", nzmax), 0)); return G.Ptr(o, 0)
    def h_t2s(it_, a):
        t = a[0].obj.cells[0]; m = {}; st = t["stype"]
        if t["nnz"] > t["nzmax"]: raise G.MemError("triplet over-filled")
        for q in range(t["nnz"]):
            r, c, v = t["i"].obj.cells[q], t["j"].obj.cells[q], t["x"].obj.cells[q]
            if r is None or c is None or v is None: raise G.ExecError("triplet entry %d not filled" % q)
            if not (0 <= r < t["nrow"] and 0 <= c < t["ncol"]): raise G.MemError("triplet entry (%s,%s) outside %dx%d" % (r, c, t["nrow"], t["ncol"]))
            if (st > 0 and r > c) or (st < 0 and r < c): r, c = c, r          # cholmod: entries in the ignored triangle are transposed into the stored one
            m[(r, c)] = m.get((r, c), Fr(0)) + v.num
        return mk(Sp(t["nrow"], t["ncol"], {k: v for k, v in m.items() if v != 0}), st)
    def h_s2t(it_, a):
        S, st = get(a[0]); ent = sorted(tri(S.ent, st).items(), key=lambda kv: (kv[0][1], kv[0][0])); n = len(ent); o = it_.new_obj("triplet", 1)
        o.cells[0] = dict(nrow=S.n, ncol=S.mm, nzmax=n, nnz=n, stype=st, i=G.Ptr(it_.array("ti", [k[0] for k, v in ent] or [0]), 0), j=G.Ptr(it_.array("tj", [k[1] for k, v in ent] or [0]), 0), x=G.Ptr(it_.array("tx", [F(v) for k, v in ent] or [F(0)]), 0)); return G.Ptr(o, 0)
    def h_speye(it_, a): return mk(Sp(a[0], a[1], {(k, k): Fr(1) for k in range(min(a[0], a[1]))}), 0)
    def h_add(it_, a):
        (A, sa), (B, sb) = get(a[0]), get(a[1]); al = a[2].obj.cells[a[2].off].num; be = a[3].obj.cells[a[3].off].num
        if (A.n, A.mm) != (B.n, B.mm): raise G.ExecError("cholmod_add: shapes differ")
        if sa == sb: ea, eb, st = tri(A.ent, sa), tri(B.ent, sb), sa
        else: ea, eb, st = full(A, sa), full(B, sb), 0                     # mixed symmetry: both converted to unsymmetric
        out = {}
        for k, v in ea.items(): out[k] = out.get(k, Fr(0)) + al * v
        for k, v in eb.items(): out[k] = out.get(k, Fr(0)) + be * v
        return mk(Sp(A.n, A.mm, {k: v for k, v in out.items() if v != 0}), st)
    it.hooks.update(cholmod_l_zeros=h_zeros, cholmod_l_dense_to_sparse=h_d2s, cholmod_l_free_dense=h_free, cholmod_l_free_sparse=h_free, cholmod_l_free_triplet=h_free,
                    cholmod_l_transpose=h_transpose, cholmod_l_ssmult=h_ssmult, cholmod_l_allocate_triplet=h_alloc_trip, cholmod_l_triplet_to_sparse=h_t2s, cholmod_l_sparse_to_triplet=h_s2t,
                    cholmod_l_speye=h_speye, cholmod_l_add=h_add)
    return mk, get, full

def deriv_operator(t, k, p, nspl):
    """textbook: c^(q)_i = (k-q+1) (c^(q-1)_i - c^(q-1)_{i-1}) / (t_{i+k-q+1} - t_i); rows of the p-th operator, row j <-> c^(p)_{j+p}"""
    rows = {i: {i: Fr(1)} for i in range(nspl)}                        # c^(0)_i as linear forms in c
    for q in range(1, p + 1):
        new = {}
        for i in range(q, nspl):
            den = t[i + k - q + 1] - t[i]; f = Fr(k - q + 1) / den
            row = {}
            for c_, v in rows[i].items(): row[c_] = row.get(c_, Fr(0)) + f * v
            for c_, v in rows[i - 1].items(): row[c_] = row.get(c_, Fr(0)) - f * v
            new[i] = row
        rows = new
    return [[rows[j + p].get(c_, Fr(0)) for c_ in range(nspl)] for j in range(nspl - p)]

def kron_dict(A, na, B, nb):
    return {(ra * nb + rb, ca * nb + cb): va * vb for (ra, ca), va in A.items() for (rb, cb), vb in B.items()}

def matrix_case(args):
    orders, nspls, porders, lambdas, monodim = args; t0 = time.time(); nd = len(orders)
    tag = "penalty matrix orders=%s nsplines=%s penalty orders=%s smoothing=%s monotonic dimension=%s" % (list(orders), list(nspls), list(porders), [str(l) for l in lambdas], "none" if monodim is None else monodim)
    if monodim is not None and any(lambdas[d] != 0 and porders[d] <= orders[d] for d in range(nd) if d != monodim): tag += " [smoothing on a non-monotonic dimension]"
    try:
        prog, params = PROG
        it = G.Interp(prog, X14.RatDom()); it.prog_params = params; mk, get, full = install(it)
        ts = [[Fr(d, 5) + sum(Fr(1 + ((m + d) * m) % 3, 2) for m in range(1, q + 1)) for q in range(nspls[d] + orders[d] + 1)] for d in range(nd)]
        N = 1
        for n in nspls: N *= n
        c = it.array("c", [{"status": 0}])
        pen = mk(Sp(N, N, {}), 0)                                           # cholmod_l_spzeros(sidelen, sidelen, ...) as in fit()
        ns = it.array("nsplines", list(nspls))
        for d in range(nd):
            pen = it.call("add_penalty_term", [G.Ptr(ns, 0), G.Ptr(it.array("knots%d" % d, [F(v) for v in ts[d]]), 0), nd, d, orders[d], porders[d], F(lambdas[d]), 1 if d == monodim else 0, pen, G.Ptr(c, 0)])
        S, st = get(pen); got = {k: v for k, v in full(S, st).items() if v != 0}
        # required matrix
        want = {}
        for d in range(nd):
            if lambdas[d] == 0 or porders[d] > orders[d]: continue
            D = deriv_operator(ts[d], orders[d], porders[d], nspls[d])
            DtD = {}
            for r in range(nspls[d]):
                for cc in range(nspls[d]):
                    v = sum(D[j][r] * D[j][cc] for j in range(len(D)))
                    if v != 0: DtD[(r, cc)] = v
            K = {(0, 0): Fr(1)}; n = 1
            for e in range(nd):
                Fm = DtD if e == d else {(q, q): Fr(1) for q in range(nspls[e])}
                K = kron_dict(K, n, Fm, nspls[e]); n *= nspls[e]
            for k, v in K.items(): want[k] = want.get(k, Fr(0)) + lambdas[d] * v
        if monodim is not None:
            L = {(r, cc): Fr(1) for r in range(nspls[monodim]) for cc in range(r + 1)}
            Lf = {(0, 0): Fr(1)}; n = 1
            for e in range(nd):
                Fm = L if e == monodim else {(q, q): Fr(1) for q in range(nspls[e])}
                Lf = kron_dict(Lf, n, Fm, nspls[e]); n *= nspls[e]
            def mul(A, B):
                rows = {}
                for (r, cc), v in B.items(): rows.setdefault(r, []).append((cc, v))
                out = {}
                for (r, k), v in A.items():
                    for (cc, w) in rows.get(k, []): out[(r, cc)] = out.get((r, cc), Fr(0)) + v * w
                return out
            LfT = {(cc, r): v for (r, cc), v in Lf.items()}
            want = mul(mul(LfT, want), Lf)
        want = {k: v for k, v in want.items() if v != 0}
        ok = got == want
        det = ""
        if not ok:
            diff = [k for k in set(got) | set(want) if got.get(k, 0) != want.get(k, 0)]
            det = "%d of %d entries differ, e.g. entry %s: assembled %s, required %s" % (len(diff), N * N, diff[0], got.get(diff[0], 0), want.get(diff[0], 0))
        return [(tag + (": assembled matrix == sum_i lambda_i (I x D_i'D_i x I)" if monodim is None else ": assembled matrix == T-spline transform (I x L x I)' P (I x L x I) of the B-spline penalty"), ok, det, time.time() - t0)]
    except Exception as ex:
        return [(tag + " execution [%s]" % str(ex)[:90], False, "%s: %s" % (type(ex).__name__, ex), time.time() - t0)]

def cases(monotonic, thorough):
    h = Fr(1, 2)
    if not monotonic:
        out = [((2,), (5,), (2,), (Fr(3, 2),), None), ((0,), (4,), (0,), (Fr(2),), None), ((3,), (6,), (1,), (Fr(1, 3),), None), ((1, 2), (3, 4), (1, 2), (h, Fr(2)), None),
               ((2, 1), (4, 3), (2, 0), (Fr(1), Fr(5)), None), ((1, 2), (3, 4), (2, 2), (Fr(1), Fr(1)), None)]
        if thorough: out += [((1, 0, 2), (3, 2, 4), (1, 0, 1), (Fr(1), Fr(2), Fr(3)), None), ((3, 3), (5, 5), (3, 2), (h, h), None)]
        return out
    out = [((2,), (5,), (1,), (Fr(1),), 0), ((3,), (6,), (2,), (Fr(7, 2),), 0), ((1, 2), (3, 4), (1, 1), (Fr(1), Fr(0)), 0), ((1, 2), (3, 4), (1, 2), (Fr(0), Fr(0)), 1),
           # smoothing on a dimension other than the monotonic one:
           ((1, 2), (3, 4), (1, 1), (Fr(1), Fr(1)), 0), ((1, 2), (3, 4), (1, 1), (Fr(0), Fr(1)), 0), ((2, 1), (4, 3), (2, 1), (Fr(1), Fr(0)), 1)]
    if thorough: out += [((1, 1, 1), (3, 3, 3), (1, 1, 1), (Fr(1), Fr(1), Fr(1)), 1)]
    return out

def add(rep, thorough, monotonic, name):
    import multiprocessing as mp
    global PROG
    prog, params, fs = build(); PROG = (prog, params)
    for f in fs: rep.functions.append(f.info())
    tasks = cases(monotonic, thorough); t0 = time.time()
    with mp.Pool(min(vlib.NCORES, 8)) as pool:
        res = pool.map(matrix_case, tasks, chunksize=1)
    flat = [o for r in res for o in r]
    rep.add_group("E3-rational (exact execution of add_penalty_term/calc_penalty/divided_diffs/kronecker_product/cholmod_tril from the GOTO program; cholmod = exact sparse algebra incl. symmetric storage)",
                  len(flat), sum(1 for o in flat if o[1]), time.time() - t0, bounded="enumerated small problems (1-3 dimensions, nsplines 2..6), knots irregular rationals", name=name)
    for o in flat:
        if not o[1]: rep.add_violation(name, o[0].replace(" ", "_")[:200], o[0] + ": " + o[2], trace=o[2])
    rep.samples += [o[0] for o in flat[:2]]
