#!/usr/bin/env python3
"""C20 (partial): a table object stays valid and leak-free across operation histories, including failing operations.

Every whole-function extraction of splinetable<Alloc> members - read_fits / read_fits_core (with its scope guard),
write_fits / write_fits_core, fit, convolve, permuteDimensions, write_key, remove_key, release, ~splinetable - is compiled
into ONE translation unit sharing one set of member variables (tools/tableprog.py) and executed from CBMC's GOTO program
over histories of operations on one or two objects that share a model disk.  After EVERY operation:
  * the operation ran without a memory error;
  * the object is valid: empty (ndim == 0, no table array allocated) or a well-formed table (the C07 postcondition);
  * a failed operation (exception) left the object unchanged or empty;
  * a populated table is never silently abandoned: every block obtained from the object's allocator is either reachable
    from the object or has been returned (with its size) - checked by comparing the allocator's live set with the blocks
    reachable from the members; a read into a populated table must be refused;
and at the end the destructor returns every block exactly once.
Moves: the move constructor and move assignment are extracted too (R36; the other object's members are a second set of variables).
Comparison: operator== is extracted too (R37).
NOT covered: the memory back end, injected
allocation failure (exceptions are a ghost flag, R7; catch(...) handlers are dropped, R22), convolve / evaluation with
invalid arguments."""
import sys, os, time, json, itertools, random, copy, multiprocessing as mp
sys.path.insert(0, os.path.dirname(os.path.dirname(os.path.abspath(__file__))))
from fractions import Fraction as Fr
from tools import vlib, units, gotoexec as G, e3lib as E, fitshooks as H, tableprog as T
from specs import fitsmodel as M
import c14_exact as X14, c07, c13_fit
PROG = None; CONSTS = None

def file_table(k):
    orders, nks = [((2,), (8,)), ((1, 2), (5, 7))][k]; nd = len(orders); knots = []
    for d in range(nd):
        t = [Fr(d - 2, 3)]
        for m in range(1, nks[d]): t.append(t[-1] + Fr(1 + ((m + d) * (m + 1)) % 3, 2))
        knots.append(t)
    naxes = [nks[d] - orders[d] - 1 for d in range(nd)]; n = 1
    for a in naxes: n *= a
    return dict(orders=list(orders), knots=knots, coeffs=[Fr(((i * 7 + 3) % 11) - 4, 4) for i in range(n)], extents=[(knots[d][orders[d]], knots[d][naxes[d]]) for d in range(nd)],
                periods=None, aux=[("GEOMETRY", "2"), ("LONGER KEY NAME", "it's text")][:k + 1])

def make_disk():
    d = T.Disk()
    d.files["A"] = M.spline_file(**file_table(0)); d.files["B"] = M.spline_file(**file_table(1))
    bad = M.spline_file(**file_table(1)); bad.hdus = [h for h in bad.hdus if not any(c.startswith("EXTNAME = 'KNOTS1") for c in h.cards)]; d.files["bad"] = bad
    bad2 = M.spline_file(**file_table(0)); M.replace_card(bad2.hdus[0], "ORDER0", M.card("ORDER0", 4)); d.files["bad2"] = bad2
    return d

def state(it, al):
    g = lambda n: it.globals[n].cells[0]
    nd = g("ndim")
    aux = []
    try:
        na = g("naux")
        if na:
            ap = g("aux")
            for i in range(na):
                e = ap.obj.cells[ap.off + i]; aux.append((H.cstring(e.obj.cells[e.off]), H.cstring(e.obj.cells[e.off + 1])))
    except Exception as ex: return ("broken", ["key store: %s" % ex])
    if nd == 0:
        nonnull = [n for n in ("order", "knots", "nknots", "extents", "periods", "coefficients", "naxes", "strides") if isinstance(g(n), G.Ptr) and g(n).obj is not None]
        if nonnull: return ("broken", ["ndim == 0 but %s still allocated" % ", ".join(nonnull)])
        return ("empty", aux)
    bad, t = c07.wellformed(it)
    if bad or t is None: return ("broken", bad)
    return ("table", dict(order=t["order"], knots=t["knots"], coefficients=t.get("coefficients"), extents=t["extents"], periods=t.get("periods"), naxes=t["naxes"], aux=aux))

def reachable(it):
    g = lambda n: it.globals[n].cells[0]; out = set()
    def add(p):
        if isinstance(p, G.Ptr) and p.obj is not None: out.add(id(p.obj)); return True
        return False
    for n in ("order", "nknots", "periods", "coefficients", "naxes", "strides"): add(g(n))
    nd = g("ndim")
    if add(g("knots")):
        for c in g("knots").obj.cells:
            if c is not None: add(c)
    if add(g("extents")):
        c = g("extents").obj.cells[0]
        if c is not None: add(c)
    if add(g("aux")):
        for e in g("aux").obj.cells:
            if e is not None and add(e):
                for c in e.obj.cells:
                    if c is not None: add(c)
    return out

def call_fit(it, kind):
    pb = c13_fit.base_problem(1 if kind in ("ok1", "badargs", "fail") else 2)
    if kind == "badargs": pb["weights"].pop()
    it.fit_result = 1 if kind == "fail" else 0
    F = lambda q: G.FV(Fr(q), Fr(q)); ndd = pb["nd"]
    A = lambda name, vals: G.Ptr(it.array(name, vals), 0)
    data_i = it.array("data_i", [A("idx%d" % d, list(pb["idx"][d])) for d in range(ndd)])
    coords = A("coords", [A("coord%d" % d, [F(v) for v in c]) for d, c in enumerate(pb["coords"])])
    knots = A("knotsarg", [A("knotvec%d" % d, [F(v) for v in k]) for d, k in enumerate(pb["knots"])])
    it.call("fit", [pb["rows"], ndd, G.Ptr(data_i, 0), A("ranges", list(pb["ranges"])), A("weights", [F(v) for v in pb["weights"]]), len(pb["weights"]), coords, len(pb["coords"]), A("coord_sizes", [len(c) for c in pb["coords"]]),
                    A("orders", list(pb["orders"])), ndd, knots, ndd, A("knot_sizes", [len(k) for k in pb["knots"]]), A("smoothing", [F(v) for v in pb["smoothing"]]), len(pb["smoothing"]),
                    A("penalty", list(pb["penalty"])), len(pb["penalty"]), (1 << 32) - 1, False])
    it.fit_result = 0
    return ndd

def hsh(h): return __import__("zlib").crc32(repr(h).encode())      # deterministic across processes (str hashes are salted)
def cstr(it, s): return G.Ptr(it.array("str", [ord(c) for c in s] + [0]), 0)

OPS = [("read", "A"), ("read", "B"), ("read", "bad"), ("read", "bad2"), ("read", "none"), ("read", "out"), ("fit", "ok1"), ("fit", "ok2"), ("fit", "badargs"), ("fit", "fail"),
       ("key", "NOTE", "a'b"), ("key", "NOTE", "a longer value 42"), ("key", "ORDER7", "x"), ("rmkey", "NOTE"), ("rmkey", "GEOMETRY"), ("convolve", 0, 3), ("convolve", 1, 2), ("permute", "rev"), ("permute", "bad"), ("write", "out")]
MOVE_OPS = [(0, "moveassign", 1), (1, "moveassign", 0), (0, "movector", 1), (1, "movector", 0), (0, "moveassign", 0), (0, "equals", 1), (1, "equals", 0), (0, "equals", 0)]

def run_history(arg):
    hist, fail_at = arg if (len(arg) == 2 and isinstance(arg[0], tuple) and arg[0] and isinstance(arg[0][0], tuple)) else (arg, None)
    t0 = time.time(); tag = "history " + " ; ".join("o%d.%s(%s)" % (o[0], o[1], ",".join(str(x) for x in o[2:])) for o in hist); bad = []
    if fail_at is not None: tag += " with allocation %d failing" % fail_at
    try:
        prog, params = PROG; disk = make_disk(); faults = H.AllocFaults(fail_at)
        objs = [T.new_object(prog, params, CONSTS, disk, X14.RatDom(), faults) for _ in range(1 + max(max(o[0], o[2] if o[1] in ("moveassign", "movector", "equals") else 0) for o in hist))]
        for step, op in enumerate(hist):
            it, al = objs[op[0]]; kind = op[1]; before = state(it, al); it.globals["vp_thrown"].cells[0] = 0
            faults.enabled = kind in ("read", "fit", "convolve"); faults.fired = False      # the functions extracted with R31 (allocation may throw)
            # write_key's update of an existing key: its one allocation sits in a try block kept by R22e (the append path and remove_key have their try blocks stripped: no injection there)
            if kind == "key" and any(k_ == op[2] for k_, v_ in (before[1] if before[0] == "empty" else before[1].get("aux", []) if before[0] == "table" else [])): faults.enabled = True
            where = "step %d %s" % (step, "o%d.%s(%s)" % (op[0], kind, ",".join(str(x) for x in op[2:])))
            expect = None          # "ok" / "fail" / None
            try:
                if kind == "read":
                    it.call("read_fits", [cstr(it, op[2])])
                    if before[0] == "table": expect = "fail"
                    elif op[2] in ("A", "B"): expect = "ok"
                    elif op[2] in ("bad", "bad2", "none"): expect = "fail"
                    elif op[2] == "out" and "out" not in disk.files: expect = "fail"
                elif kind == "fit":
                    call_fit(it, op[2]); expect = "fail" if op[2] in ("badargs", "fail") else (None if before[0] == "table" else "ok")
                elif kind == "key":
                    it.call("write_key", [cstr(it, op[2]), cstr(it, op[3]), len(op[3])]); expect = "fail" if op[2].startswith("ORDER") else "ok"
                elif kind == "rmkey": it.call("remove_key", [cstr(it, op[2])])
                elif kind == "convolve":
                    if before[0] != "table" or op[2] >= len(before[1]["order"]): continue            # outside convolve()'s domain
                    n = op[3]; y = it.array("conv_knots", [G.FV(v, v) for v in [Fr(-1, 2) + Fr(i, n - 1) + Fr(i * i, 100) for i in range(n)]])
                    it.call("convolve", [op[2], G.Ptr(y, 0), n]); expect = "ok"
                elif kind == "permute":
                    nd = len(before[1]["order"]) if before[0] == "table" else 0
                    perm = list(reversed(range(nd))) if op[2] == "rev" else ([0] * max(nd, 1) if nd != 1 else [1])
                    it.call("permuteDimensions", [G.Ptr(it.array("perm", perm or [0]), 0), len(perm)]); expect = "ok" if (op[2] == "rev" and nd) else ("fail" if op[2] == "bad" and nd else None)
                elif kind == "equals":
                    src = op[2]; its, als = objs[src]; names = ("ndim", "naux") + T.MEMBERS
                    for n in names: it.globals["vp_other_" + n].cells[0] = its.globals[n].cells[0]
                    r = it.call("vp_equals", []); other = state(its, als)
                    def same(a, b):
                        if a[0] != b[0]: return False
                        if a[0] == "empty": return True
                        x, y = a[1], b[1]; return x["order"] == y["order"] and x["naxes"] == y["naxes"] and x["knots"] == y["knots"] and x["coefficients"] == y["coefficients"]
                    if bool(r) != same(before, other): bad.append("%s: operator== returns %s for %s tables" % (where, bool(r), "equal" if same(before, other) else "different")); break
                elif kind in ("moveassign", "movector"):
                    src = op[2]; its, als = objs[src]; names = ("ndim", "naux") + T.MEMBERS
                    if kind == "movector":
                        if src == op[0]: continue
                        it.call("vp_destructor", [])          # the target object of the history is destroyed, a new one is move-constructed in its place
                        if al.live: bad.append("%s: destructor of the replaced object leaves %d blocks" % (where, len(al.live))); break
                        before = ("empty", [])
                    src_before = state(its, als)
                    it.globals["vp_other_is_this"].cells[0] = (src == op[0])
                    for n in names: it.globals["vp_other_" + n].cells[0] = (it if src == op[0] else its).globals[n].cells[0]
                    it.allocators_swapped = False
                    it.call("vp_move_construct" if kind == "movector" else "vp_move_assign", [])
                    if src != op[0]:
                        for n in names: its.globals[n].cells[0] = it.globals["vp_other_" + n].cells[0]
                        if kind == "movector": al.live, als.live = als.live, {}; al.cur, als.cur = als.cur, 0            # allocator(std::move(other.allocator)); other.allocator = Alloc()
                        elif it.allocators_swapped: al.live, als.live = als.live, al.live; al.cur, als.cur = als.cur, al.cur
                        after_t = state(it, al); after_s = state(its, als)
                        if after_t != src_before: bad.append("%s: the target does not hold the table that was moved into it" % where); break
                        if not (after_s[0] == "empty" and after_s[1] == []): bad.append("%s: the moved-from table is not empty (%s)" % (where, after_s[0] if after_s[0] != "table" else "it holds a table of orders %s" % after_s[1]["order"])); break
                        lv = set(als.live.keys()); rc_ = reachable(its)
                        if lv - rc_: bad.append("%s: %d blocks of the moved-from object are live but unreachable" % (where, len(lv - rc_))); break
                        if rc_ - lv: bad.append("%s: the moved-from object references blocks its allocator does not own" % where); break
                    expect = "ok"
                elif kind == "write":
                    it.call("write_fits", [cstr(it, op[2])]); expect = "ok" if before[0] == "table" else "fail"
            except G.ExecError as ex:
                bad.append("%s: %s: %s" % (where, type(ex).__name__, ex)); break
            faults.enabled = False
            thrown = bool(it.globals["vp_thrown"].cells[0]); after = state(it, al)
            if faults.fired:
                expect = "fail"; where += " [std::bad_alloc injected]"
            if after[0] == "broken": bad.append("%s leaves an invalid object: %s" % (where, "; ".join(after[1])[:300])); break
            if thrown and not (after == before or (after[0] == "empty" and after[1] == [])) and not (after[0] == "empty" and before[0] == "empty"):
                bad.append("%s failed but left the object neither unchanged nor empty" % where); break
            if expect == "ok" and thrown: bad.append("%s was refused" % where); break
            if expect == "fail" and not thrown: bad.append("%s was accepted" % where); break
            if kind == "read" and before[0] == "table" and after != before: bad.append("%s: a read changed a populated table" % where); break
            if kind == "read" and not thrown and op[2] in ("A", "B"):
                want = file_table(0 if op[2] == "A" else 1)
                if after[0] != "table" or after[1]["order"] != want["orders"] or after[1]["knots"] != want["knots"] or after[1]["coefficients"] != want["coeffs"]: bad.append("%s: table differs from the file's" % where); break
            live = set(al.live.keys()); reach = reachable(it)
            if live - reach: bad.append("%s: %d allocator blocks (%d bytes) are live but no longer reachable from the object: storage silently abandoned (leak)" % (where, len(live - reach), sum(al.live[i][1] for i in live - reach))); break
            if reach - live: bad.append("%s: the object references %d blocks that are not live allocations of its allocator" % (where, len(reach - live))); break
        if not bad:
            for k, (it, al) in enumerate(objs):
                try: it.call("vp_destructor", [])
                except G.ExecError as ex: bad.append("destructor of o%d: %s: %s" % (k, type(ex).__name__, ex)); continue
                if al.live: bad.append("destructor of o%d leaves %d blocks (%d bytes) allocated" % (k, len(al.live), al.cur))
        return [(tag, not bad, "; ".join(bad)[:600], time.time() - t0, faults.count)]
    except Exception as ex:
        import traceback
        return [(tag + " execution", False, "%s: %s %s" % (type(ex).__name__, ex, traceback.format_exc()[-300:]), time.time() - t0)]

def build_native():
    """the native replay harness needs the C fitter (fit() is part of the histories)"""
    wd = vlib.workdir(); objs = []
    for f in ("glam", "nnls", "cholesky_solve", "splineutil"):
        rc, o, w = vlib.sh("gcc -c -O1 -I%s/include -I/usr/include/suitesparse %s/src/fitter/%s.c -o %s/%s.o" % (vlib.REPO, vlib.REPO, f, wd, f), timeout=600)
        if rc != 0: return None, None
        objs.append("%s/%s.o" % (wd, f))
    exe = os.path.join(wd, "replay_history")
    rc, o, w = vlib.sh("g++ -std=c++11 -g -O1 -fsanitize=address,undefined -DPHOTOSPLINE_INCLUDES_SPGLAM -I%s/include -I/usr/include/suitesparse %s/tools/replay/replay_history.cpp %s/src/core/*.cpp %s -lcfitsio -lcholmod -lspqr -lsuitesparseconfig -llapack -lblas -lpthread -o %s" % (vlib.REPO, vlib.VERIF, vlib.REPO, " ".join(objs), exe), timeout=900)
    if rc != 0: return None, None
    ddir = os.path.join(wd, "disk"); os.makedirs(ddir, exist_ok=True)
    for n, f in make_disk().files.items(): open(os.path.join(ddir, n + ".fits"), "wb").write(f.to_bytes())
    return exe, ddir

def main():
    global PROG, CONSTS
    thorough = vlib.TIER == "thorough"
    rep = vlib.Report("C20", level="exploration")
    prog, params, fns = T.build(vlib.workdir()); PROG = (prog, params); CONSTS = units.cfitsio_constants()
    for n in ("read_fits", "read_fits_core", "read_fits_core_body", "write_fits", "write_fits_core", "release", "vp_destructor", "fit", "convolve", "permuteDimensions", "write_key", "remove_key"):
        if n in fns: rep.functions.append(fns[n].info())
    ops0 = [(0,) + o for o in OPS]
    hists = [tuple(h) for L in (1, 2) for h in itertools.product(ops0, repeat=L)]
    core = [(0, "read", "A"), (0, "read", "bad"), (0, "fit", "ok1"), (0, "fit", "fail"), (0, "key", "NOTE", "a'b"), (0, "convolve", 0, 3), (0, "permute", "rev"), (0, "write", "out"), (1, "read", "out"), (1, "read", "B"), (1, "fit", "ok2")]
    hists += [tuple(h) for h in itertools.product(core, repeat=3)]
    # moves between the two objects, after every pair of states the core operations reach
    prep = [(0, "read", "A"), (0, "fit", "ok2"), (0, "key", "NOTE", "a'b"), (1, "read", "B"), (1, "fit", "ok1"), (1, "key", "NOTE", "a longer value 42")]
    for L in (0, 1, 2):
        for pre in itertools.product(prep, repeat=L):
            for mv in MOVE_OPS: hists.append(tuple(pre) + (mv,)); hists.append(tuple(pre) + (mv, (mv[0], "convolve", 0, 3), (mv[2], "read", "A"), (0, "equals", 1)))
    if thorough: hists += [tuple(h) for h in itertools.product(core, repeat=4)]
    rnd = random.Random(vlib.SEED + 20); ops01 = ops0 + [(1,) + o for o in OPS] + MOVE_OPS
    for _ in range(400 if not thorough else 6000): hists.append(tuple(rnd.choice(ops01) for _ in range(rnd.randint(4, 25 if thorough else 12))))
    hists = list(dict.fromkeys(hists)); t0 = time.time()
    with mp.Pool(min(vlib.NCORES, 16)) as pool:
        res = pool.map(run_history, [(h, None) for h in hists], chunksize=8)
        # every position of one injected allocation failure (std::bad_alloc from allocate<T>) in read / fit / convolve / update of an existing key
        inj = []
        for h, r in zip(hists, res):
            if len(r[0]) > 4 and r[0][1] and (len(h) <= 2 or (len(h) == 3 and (thorough or hsh(h) % 4 == 0)) or (len(h) > 3 and thorough and hsh(h) % 10 == 0)):
                inj += [(h, j) for j in range(r[0][4])]
        res2 = pool.map(run_history, inj, chunksize=16)
    hists_all = hists + [h for h, j in inj]; res = res + res2
    flat = [o for r in res for o in r]
    rep.add_group("E3 execution of operation histories over the unified GOTO program of the extracted splinetable members (BOUNDED)", len(flat), sum(1 for o in flat if o[1]), time.time() - t0,
                  bounded=("%d of these runs have one injected std::bad_alloc (every allocation position of the histories of length <= 2 and of a sample of the longer ones); " % len(inj)) + "all histories of length <= 2 over %d operations on one object, all of length 3%s over %d core operations on two objects sharing a disk, %d random histories of length 4..%d over both objects (seed %d)" % (len(OPS), "/4" if thorough else "", len(core), 6000 if thorough else 400, 25 if thorough else 12, vlib.SEED), name="C20-histories")
    viol = [(h, o) for h, r in zip(hists_all, res) for o in r if not o[1]]
    if viol:
        exe, ddir = build_native()
        for h, o in viol[:40]:
            rp = None
            if exe:
                mfa = __import__("re").search(r"with allocation (\d+) failing", o[0])
                toks = ("failalloc:%s " % mfa.group(1) if mfa else "") + " ".join(__import__("shlex").quote("%d:%s" % (op[0], ":".join(str(x) for x in op[1:]))) for op in h)
                rc, out, w = vlib.sh("ASAN_OPTIONS=detect_leaks=0:allocator_may_return_null=1 timeout -s KILL 120 %s %s %s 2>&1 | grep -v '^Factorize\\|^Solve\\|^Done\\|^Calculat\\|^Comput\\|^Array\\|^NNLS\\|^Reformat\\|^Process\\|^Convolv\\|^\\s*$' | tail -40; exit ${PIPESTATUS[0]}" % (exe, ddir, toks), timeout=200)
                rp = dict(replayed=(rc == 1 or "ERROR: AddressSanitizer" in out or "runtime error" in out or rc in (134, 139)), input="replay_history <model disk> " + toks, observed=("exit %d\n" % rc) + out[-3000:], command="tools/replay/replay_history.cpp (real library, counting allocator, ASan/UBSan)")
            rep.add_violation("C20-histories", o[0].replace(" ", "_")[:170], o[0][:300] + ": " + o[2], trace=o[2], replay=rp)
        for h, o in viol[40:]: rep.add_violation("C20-histories", o[0].replace(" ", "_")[:170], o[0][:300] + ": " + o[2], trace=o[2], replay=dict(replayed=False, note="only the first 40 violating histories are replayed natively"))
    rep.samples += [o[0][:200] for o in flat[40:43]]
    rep.extra["evaluations"] = len(hists); rep.extra["distinct_nontrivial"] = len([h for h in hists if len(h) >= 2])
    rep.extra["rule"] = "one evaluation = one operation history executed from the extracted code with validity, failure-atomicity and allocator-reachability checked after every operation and the destructor at the end; non-trivial = at least two operations; histories are distinct tuples"
    rep.assume("PARTIAL: the memory back end and the stacking constructor are NOT covered; operator== IS (judged against field-by-field equality of orders, axis lengths, knots and coefficients); moves between the two objects ARE (move constructor, move assignment, self-move; the allocator member travels with the storage: the ownership of the live blocks is moved / swapped by the check exactly where the code moves / swaps the allocator); allocation failure is injected only in read_fits_core, fit, convolve (R31: allocate<T> may throw) and in write_key's update of an existing key (R22e: the try block whose handler only throws keeps its meaning); in the rest of the key-store functions (write_key's append path, remove_key) the catch(...) handlers are dropped (R22) and permuteDimensions / write_fits_core use new[] only - no failure is injected there; exceptions are a ghost flag + early return (R7)",
               "BOUNDED: enumerated / random histories over a fixed alphabet: reads of two valid files, two corrupt files, a missing file and a file written earlier in the history; fits (1-d, 2-d, invalid arguments, fitter failure); key insertion / rejection / removal; convolution (valid arguments only); valid and invalid permutations; writes",
               "cfitsio (specs/fitsmodel.py), the C fitter (glamfit_complex returns success after writing the coefficients, or a failure code without writing), cholmod and convoluted_blossom are assumed contracts supplied by the interpreter",
               "the oracle for outcomes: reads of valid files into empty tables, fits of valid problems into empty tables, valid keys, valid convolutions / permutations and writes of populated tables must succeed; reads into populated tables, corrupt / missing files, invalid fit arguments, fitter failure, reserved keys, invalid permutations and writes of empty tables must fail; a fit into a populated table may refuse or replace")
    rep.trust("tools/gotoexec.py", "goto-cc front end", "tools/extract.py rules", "specs/fitsmodel.py", "tools/tableprog.py hooks")
    def replayer(v): return None
    rep.finish(None)

if __name__ == "__main__":
    main()
