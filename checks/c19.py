#!/usr/bin/env python3
"""C19: estimateMemory(file, n_conv_knots, dim) bounds the bytes simultaneously requested from the table's allocator
while the table is read from that file and convolved as declared.

estimateMemory, readOrder, countAuxKeywords, reservedFitsKeyword, read_fits_core (fitsio.h / fitsio.cpp) and the whole
convolve() (convolve.h) are extracted mechanically and executed from CBMC's GOTO program; allocate<T>(n)/deallocate(p,n)
are the interpreter's byte-counting allocator, cfitsio is the model of specs/fitsmodel.py (assumed contract, checked by
C07's conformance obligations).  Obligation per (file, kernel size, dimension): peak live bytes <= estimate.
Cross-check of the machinery itself: the same file is read and convolved natively through a counting allocator
(tools/replay/replay_estimate.cpp) and both the estimate and the peak must agree BYTE FOR BYTE with the interpreter.
Values of the convolution are abstracted (convoluted_blossom is hooked to 0): convolve() never branches on them."""
import sys, os, time, json, itertools, random, multiprocessing as mp
sys.path.insert(0, os.path.dirname(os.path.dirname(os.path.abspath(__file__))))
from fractions import Fraction as Fr
from tools import vlib, units, gotoexec as G, e3lib as E, fitshooks as H
from specs import fitsmodel as M
import c14_exact as X14
FPROG = None; CPROG = None; CONSTS = None; SIZEOF = None; NATIVE = None

def tables(thorough):
    shapes = [((2,), (8,), 0), ((0,), (3,), 3), ((1, 2), (5, 7), 1), ((3, 0, 1), (9, 4, 6), 2), ((2,), (70,), 0), ((3, 2), (40, 30), 5), ((1, 1, 1), (12, 9, 14), 50), ((5,), (100,), 12), ((2, 1, 2), (10, 8, 9), 0), ((5, 1, 2), (20, 8, 22), 2)]
    if thorough: shapes += [((2, 2, 2, 2), (7, 8, 7, 9), 4), ((1, 0, 2, 1, 1), (5, 3, 7, 4, 5), 0), ((1, 1, 1, 1, 1, 1), (4, 4, 5, 4, 4, 5), 7), ((4,), (300,), 30), ((2, 3), (90, 25), 20), ((0, 5), (25, 40), 1)]
    out = []
    for si, (orders, nks, naux) in enumerate(shapes):
        nd = len(orders); knots = []
        for d in range(nd):
            t = [Fr(d - 2, 3)]
            for m in range(1, nks[d]): t.append(t[-1] + Fr(1 + ((m + d) * (m + 1)) % 3, 2))
            knots.append(t)
        naxes = [nks[d] - orders[d] - 1 for d in range(nd)]; n = 1
        for a in naxes: n *= a
        coeffs = [Fr(((i * 7 + 3) % 11) - 4, 4) for i in range(n)]
        ext = [(knots[d][orders[d]], knots[d][naxes[d]]) for d in range(nd)]
        aux = []
        for k in range(naux):
            L = [1, 8, 20, 40, 60][k % 5]
            if L <= 8: key = ("K%d" % k + "ABCDEFGH")[:L] if L > 1 else "ABCDEFGHIJKLMNOPQRSTUVWXYZ"[k % 26]
            else: key = ("LONG KEY %d " % k + "X" * 70)[:L]
            room = 80 - (11 if L <= 8 else 9 + L + 3) - 1
            val = ("v" * 70)[:max(0, [0, 3, room, room // 2][k % 4])]
            aux.append((key, val))
        seen = set(); aux = [a for a in aux if not (a[0] in seen or seen.add(a[0]))]
        out.append(("table%d orders=%s nknots=%s naux=%d" % (si, list(orders), list(nks), len(aux)), dict(orders=list(orders), knots=knots, coeffs=coeffs, extents=ext, periods=None if si % 2 else [0.0] * nd, aux=aux)))
    return out

def kernel(n): return [Fr(-1, 2) + Fr(i, n - 1) + Fr(i * i, 100) for i in range(n)]

def run_case(args):
    tag, desc, n, dim, path = args; t0 = time.time(); out = []
    def ob(name, ok, detail=""): out.append(("%s [%s]" % (name, tag), ok, detail[:600], time.time() - t0))
    try:
        fits = M.spline_file(**desc)
        fprog, fparams = FPROG; cprog, cparams = CPROG
        it = G.Interp(fprog, X14.RatDom()); it.prog_params = fparams
        al = H.Alloc(); al.install(it); H.install_algorithms(it)
        for g in ("ndim", "naux"): it.set_global(g, 0)
        for g in ("order", "knots", "nknots", "extents", "periods", "coefficients", "naxes", "strides", "aux"): it.set_global(g, G.NULL)
        it.set_global("vp_thrown", 0); it.set_global("vp_sizeof_splinetable", SIZEOF); it.set_global("vp_guard_armed", False)
        it.set_global("vp_this_naxes_p", G.Ptr(it.globals["naxes"], 0))
        S = M.Session(fits); H.install_cfitsio(it, S, CONSTS)
        name = it.array("path", [ord(c) for c in "file"] + [0])
        est = it.call("estimateMemory", [G.Ptr(name, 0), n, dim])
        if it.globals["vp_thrown"].cells[0]: ob("estimateMemory succeeds on a valid file", False, "estimateMemory threw"); return out, None
        S2 = M.Session(fits); H.install_cfitsio(it, S2, CONSTS)
        ret = it.call("read_fits_core", [1])
        if it.globals["vp_thrown"].cells[0] or not ret: ob("valid file is read", False, "the reader reported failure"); return out, None
        peak_read = al.peak
        if n > 1:
            ic = G.Interp(cprog, X14.RatDom()); ic.prog_params = cparams; log = []
            X14.install_storage_hooks(ic, log); al.install(ic); ic.set_global("vp_thrown", 0); ic.set_global("vp_guard_armed", False)
            ic.hooks["convoluted_blossom"] = lambda it_, a: G.FV(Fr(0), Fr(0))
            gf = lambda g: it.globals[g].cells[0]
            for g, src in (("ndim", "ndim"), ("order", "order"), ("knots", "knots"), ("nknots", "nknots"), ("extents", "extents"), ("vp_this_naxes", "naxes"), ("vp_this_strides", "strides"), ("vp_this_coefficients", "coefficients")):
                ic.set_global(g, gf(src))
            y = ic.array("conv_knots", [G.FV(v, v) for v in kernel(n)])
            ic.call("convolve", [dim, G.Ptr(y, 0), n])
        peak = al.peak
        ob("peak bytes requested from the allocator <= estimateMemory", peak <= est, "peak %d bytes (after reading: %d) > estimate %d" % (peak, peak_read, est))
        return out, dict(estimate=est, peak_read=peak_read, peak=peak)
    except Exception as ex:
        ob("execution", False, "%s: %s" % (type(ex).__name__, ex)); return out, None

def native(args):
    path, n, dim = args
    rc, o, w = vlib.sh("timeout -s KILL 120 %s %s %d %d" % (NATIVE, path, n, dim), timeout=200)
    try: return json.loads(o.strip().splitlines()[-1])
    except Exception: return dict(error="exit %d: %s" % (rc, o[-300:]))

def main():
    global FPROG, CPROG, CONSTS, SIZEOF, NATIVE
    thorough = vlib.TIER == "thorough"
    rep = vlib.Report("C19", level="exploration")
    NATIVE = os.path.join(vlib.workdir(), "replay_estimate")
    rc, o, w = vlib.sh("g++ -std=c++11 -g -O1 -I%s/include %s/tools/replay/replay_estimate.cpp %s/src/core/*.cpp -lcfitsio -o %s" % (vlib.REPO, vlib.VERIF, vlib.REPO, NATIVE), timeout=900)
    if rc != 0: raise RuntimeError("native counting-allocator harness does not build: " + o[-600:])
    fs = units.fits_functions(); CONSTS = units.cfitsio_constants()
    fprog = G.Program.compile(units.fits_prelude() + "".join(f.text(None) for f in fs.values()), vlib.workdir(), "fits")
    FPROG = (fprog, {f.name: E.param_names(f.header, f.name) for f in fs.values()})
    cp, cparams, cv = X14.build_whole_program(); CPROG = (cp, cparams)
    for k in ("estimateMemory", "readOrder", "countAuxKeywords", "reservedFitsKeyword", "read_fits_core", "read_fits_core_wrapper"):
        if k in fs: rep.functions.append(fs[k].info())
    rep.functions.append(cv.info())
    fdir = os.path.join(vlib.workdir(), "files"); os.makedirs(fdir, exist_ok=True)
    cases = []
    for ti, (tname, desc) in enumerate(tables(thorough)):
        path = os.path.join(fdir, "t%02d.fits" % ti); open(path, "wb").write(M.spline_file(**desc).to_bytes())
        nd = len(desc["orders"]); cases.append(("%s, no convolution" % tname, desc, 1, 0, path))
        ncoef = len(desc["coeffs"])
        for dim in range(nd):
            for n in ((2, 3, 5, 8) if not thorough else (2, 3, 4, 5, 6, 7, 8)):
                if ncoef * n > (40000 if not thorough else 150000): continue
                cases.append(("%s, %d kernel knots along dimension %d" % (tname, n, dim), desc, n, dim, path))
    # sizeof(splinetable<Alloc>) as the native harness instantiates it
    first = native((cases[0][4], 1, 0))
    if "sizeof" not in first: raise RuntimeError("native harness failed: %r" % (first,))
    SIZEOF = first["sizeof"]
    t0 = time.time()
    with mp.Pool(min(vlib.NCORES, 16)) as pool: res = pool.map(run_case, cases, chunksize=1)
    flat = [o for r, _ in res for o in r]
    rep.add_group("E3 execution of the GOTO program of the extracted size model, reader and convolve() with a byte-counting allocator (BOUNDED)", len(flat), sum(1 for o in flat if o[1]), time.time() - t0,
                  bounded="%d (file, kernel size, dimension) cases over %d tables (1..%d dimensions, orders 0..5, 0..50 auxiliary keys of all lengths), kernels of 2..8 knots" % (len(cases), len(tables(thorough)), 6 if thorough else 3), name="C19-bound")
    t1 = time.time()
    with mp.Pool(min(vlib.NCORES, 16)) as pool: nat = pool.map(native, [(c[4], c[2], c[3]) for c in cases], chunksize=1)
    agree = []
    for c, (r, m), nv in zip(cases, res, nat):
        if m is None: continue
        if "error" in nv: agree.append((c[0], False, "native harness: " + nv["error"])); continue
        d = []
        if nv["estimate"] != m["estimate"]: d.append("estimate: interpreter %d, native %d" % (m["estimate"], nv["estimate"]))
        if nv["peak"] != m["peak"] or nv["peak_read"] != m["peak_read"]: d.append("peak: interpreter %d (read %d), native %d (read %d)" % (m["peak"], m["peak_read"], nv["peak"], nv["peak_read"]))
        if nv["size_mismatches"] or nv["leaked"]: d.append("native allocator: %d size mismatches, %d bytes leaked" % (nv["size_mismatches"], nv["leaked"]))
        agree.append((c[0], not d, "; ".join(d)))
    rep.add_group("agreement of the interpreter with the real library through a counting allocator (estimate and peak byte for byte)", len(agree), sum(1 for a in agree if a[1]), time.time() - t1, bounded="the same cases", name="C19-native-agreement")
    bad_agree = [a for a in agree if not a[1]]
    if bad_agree:
        for a in bad_agree[:10]: print("DISAGREEMENT %s :: %s" % (a[0], a[2]))
        raise RuntimeError("interpreter and real library disagree on %d cases (first: %s :: %s): the extraction or the cfitsio model is out of date" % (len(bad_agree), bad_agree[0][0], bad_agree[0][2]))
    byname = {c[0]: (c, nv) for c, nv in zip(cases, nat)}
    for o in flat:
        if o[1]: continue
        tag = o[0][o[0].index("[") + 1:-1]; c, nv = byname[tag]
        keep = os.path.join(vlib.REPLAY_DIR, "C19_" + "".join(ch if ch.isalnum() else "_" for ch in c[0].split(",")[0])[:80] + ".fits"); os.makedirs(vlib.REPLAY_DIR, exist_ok=True)
        if not os.path.exists(keep): open(keep, "wb").write(open(c[4], "rb").read())
        replayed = "estimate" in nv and nv["peak"] > nv["estimate"]
        rp = dict(replayed=replayed, input="%s %d %d" % (keep, c[2], c[3]), observed=json.dumps(nv), command="tools/replay/replay_estimate.cpp <file> <n_conv_knots> <dim> (real library, counting allocator)")
        rep.add_violation("C19-bound", o[0].replace(" ", "_")[:160], o[0][:300] + ": " + o[2], trace=o[2], replay=rp)
    slack = [m["estimate"] - m["peak"] for r, m in res if m]
    rep.samples += [o[0][:200] for o in flat[:3]] + ["smallest slack estimate - peak over all cases: %d bytes; largest peak: %d bytes" % (min(slack), max(m["peak"] for r, m in res if m))]
    rep.extra["evaluations"] = len(cases); rep.extra["distinct_nontrivial"] = len([c for c in cases if c[2] > 1])
    rep.extra["rule"] = "one evaluation = one (file, kernel size, dimension): estimate, read and convolution executed from the extracted code with byte accounting; non-trivial = with a convolution"
    rep.assume("BOUNDED: enumerated tables and kernels; cfitsio is an assumed contract (specs/fitsmodel.py, conformance checked in C07)",
               "the values computed by convolve() are abstracted (convoluted_blossom hooked to 0): its allocation sequence does not depend on them; knot values only decide the order of the merged knot vector",
               "only requests through allocate<T>(n) / deallocate(p, n) count (the property speaks about the table's allocator): new[] scratch arrays, std::vector temporaries and cfitsio's own buffers are not counted, nor is alignment padding an arena may add",
               "sizeof(splinetable<Alloc>) is taken from the native harness (CountingAlloc<void>)")
    rep.trust("tools/gotoexec.py", "goto-cc front end", "tools/extract.py rules", "specs/fitsmodel.py")
    rep.finish(None)

if __name__ == "__main__":
    main()
