#!/usr/bin/env python3
"""C04 and the lookup part of C05: contract of splinetable::searchcenters."""
import sys, os
sys.path.insert(0, os.path.dirname(os.path.dirname(os.path.abspath(__file__))))
from tools import vlib, units, native
from specs import searchcenters as S, table as T

def jobs(nan_ok, configs, tag):
    f = units.member_function(units.EVAL_H, "searchcenters", "bool")
    js = []
    for (N, ND) in configs:
        ct, nreal, labels = S.contract(N, ND, nan_ok)
        tu = T.PRELUDE + ct + f.text(S.loop_contracts(N, ND, nan_ok)) + S.harness()
        js.append(vlib.Job("%s-searchcenters-N%d-ndim%d" % (tag, N, ND), tu, "h_searchcenters", enforce="searchcenters",
                           expect_fail=S.canary_patterns(nreal, labels),
                           must_have=[r"searchcenters\.loop_invariant_step", r"searchcenters\.loop_decreases", r"searchcenters\.postcondition"],
                           timeout=3000, split=16, split_procs=8,
                           backend="cbmc-sat-contracts(array<=N)", bounded=None,
                           note="all loops closed by invariant+decreases (no unwinding); nknots<=%d, ndim==%d; x %s" % (N, ND, "any IEEE double incl. NaN" if nan_ok else "any non-NaN double")))
    return f, js

def replayer(nan_ok):
    """contract obligation failed -> look for a concrete input with the explicit
    bounded harness, then run the real library on it."""
    def rp(v):
        f = units.member_function(units.EVAL_H, "searchcenters", "bool")
        tu = T.PRELUDE + f.text(None) + S.replay_harness(12, nan_ok)
        j = vlib.Job("replay-search", tu, "h_replay", loop_contracts=False, cbmc_flags=["--unwind", "14"], timeout=600)
        j.run()
        fails = [n for (n, d) in j.failed() if "replay" in d or True]
        last = None
        for n, d in j.failed():
            tr = j.trace_for(n)
            inp = S.replay_input_from_trace(tr)
            if not inp: continue
            exe = native.build_driver("replay_lookup", ["src/core/bspline.cpp"])
            rc, out = native.run_driver(exe, inp, "lookup")
            confirmed = rc != 0
            last = dict(replayed=confirmed, input=inp, driver="tools/replay/replay_lookup.cpp (ASan+UBSan, real searchcenters and evaluation entry points)",
                        exit_code=rc, observed=out[-3000:], bounded_obligation=n + ": " + d)
            if confirmed: return last
        if last: return last
        return dict(replayed=False, note="bounded explicit harness (nknots<=12, ndim=1) found no concrete failing input")
    return rp

def common_assumptions(rep, f, nan_ok):
    rep.functions.append(f.info())
    rep.assume("array-length bound: nknots[d] <= N per dimension (N in job names); ndim enumerated (one job per value), not symbolic",
               "knot storage modelled as exactly N doubles per dimension (reads beyond index N-1 are caught, reads in [nknots,N) only when nknots==N)",
               "sortedness enters through consequences of 'non-decreasing' (adjacent pairs; knots[naxes]<=knots[q] for q>=naxes; knots[q]<=knots[order] for q<=order): weaker than sortedness, so the result holds for every sorted knot vector",
               "extraction R1 (member function -> C function over file-scope table members), R3 (functional casts), comments dropped; allocator fancy pointers taken to be raw pointers",
               "producers (read_fits, fit, convolve, permuteDimensions) establish well_formed: not checked here",
               "do-while loop contracts: CBMC checks the invariant on re-entry (after the first iteration when the loop continues)")
    rep.trust("cbmc 6.11.0 / goto-instrument --dfcc contract instrumentation", "MiniSat back end", "tools/extract.py rewrite rules")

if __name__ == "__main__":
    which = sys.argv[1]
    thorough = vlib.TIER == "thorough"
    if which == "C04":
        cfg = [(64, 1), (16, 2), (16, 3)] if not thorough else [(128, 1), (32, 2), (32, 3), (16, 4)]
        f, js = jobs(False, cfg, "C04")
        vlib.run_jobs(js, nproc=len(js))
        rep = vlib.Report("C04"); rep.add_jobs(js); common_assumptions(rep, f, False)
        rep.assume("call operator (operator()) is three lines of C++ glue: 'if(!searchcenters) return 0; return ndsplineeval(x,centers,0)'; checked syntactically by checks/glue.py clause in C03, not here")
        rep.finish(replayer(False))
    if which == "C05probe":
        f, js = jobs(True, [(16, 1)], "C05")
        vlib.run_jobs(js, nproc=len(js))
        rep = vlib.Report("C05"); rep.add_jobs(js); common_assumptions(rep, f, True)
        rep.finish(replayer(True))
