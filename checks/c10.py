#!/usr/bin/env python3
"""C10 (PARTIAL - the structural half): a monotonic fit is the cumulative sum of non-negative increments.
Decided here, on the real code executed from CBMC's GOTO program:
 (1) cholmod_tril(dim) (splineutil.c) is the lower-triangular matrix of ones (the T-spline basis change);
 (2) the conversion block at the end of glamfit_complex (sliced verbatim) turns increments into running sums along the
     monotonic dimension - and only along it - for every choice of monotonic dimension (term identity: out[..j..] is the
     left fold of the increments 0..j), hence non-decreasing coefficients whenever the increments are >= 0;
 (3) (C09 check) the penalty of the monotonic dimension is multiplied by the same T-spline matrix;
 (4) (C12 worker check) every trial solution a worker reports is projected to be non-negative.
NOT decided: that the non-negative least-squares solver returns the constrained optimum / leaves inactive constraints
alone (cholmod numerics, factor up/down-dating) - assumed."""
import sys, os, re, time, itertools, multiprocessing as mp
sys.path.insert(0, os.path.dirname(os.path.dirname(os.path.abspath(__file__))))
from fractions import Fraction as Fr
from tools import vlib, units, gotoexec as G, e3lib as E, extract as X
PROG = None

def cumsum_slice():
    s = X.strip_comments(units.src("src/fitter/glam.c"))
    a = s.find("if (monodim != PHOTOSPLINE_GLAM_NO_MONODIM) {", s.find("out_coefficients[i] = ((double *)(coefficients->x))[i];"))
    if a < 0: raise X.ExtractionError("glamfit_complex: T-spline conversion block not found")
    blank = X.blank_comments_and_strings(s)
    b0 = blank.index("{", a); b1 = X.match_close(blank, b0, "{", "}")
    body = s[a:b1 + 1]
    fn = ("#include <stdint.h>\n#include <stddef.h>\n#define PHOTOSPLINE_GLAM_NO_MONODIM ((uint32_t)-1)\n"
          "void vp_cumsum_slice(uint32_t ndim, const uint64_t* naxes, float* out_coefficients, uint32_t monodim)\n{\n\tlong i, j, k;\n" + body + "\n}\n")
    return body, fn

def build():
    tr = units.free_function("src/fitter/splineutil.c", "cholmod_tril")
    body, fn = cumsum_slice()
    pre = ("#include <stddef.h>\ntypedef struct cholmod_dense_struct { size_t nrow, ncol, nzmax, d; void *x, *z; int xtype, dtype; } cholmod_dense;\n"
           "typedef long cholmod_sparse; typedef long cholmod_common;\n#define CHOLMOD_REAL 1\n"
           "cholmod_dense* cholmod_l_zeros(size_t, size_t, int, cholmod_common*); cholmod_sparse* cholmod_l_dense_to_sparse(cholmod_dense*, int, cholmod_common*); int cholmod_l_free_dense(cholmod_dense**, cholmod_common*);\n")
    p1 = G.Program.compile(pre + tr.text(None), vlib.workdir(), "c10_tril")
    p2 = G.Program.compile(fn, vlib.workdir(), "c10_cumsum")
    return (p1, {"cholmod_tril": E.param_names(tr.header, "cholmod_tril")}), (p2, {"vp_cumsum_slice": ["vp_cumsum_slice::ndim", "vp_cumsum_slice::naxes", "vp_cumsum_slice::out_coefficients", "vp_cumsum_slice::monodim"]}), tr, body

def tril_case(dim):
    t0 = time.time(); tag = "cholmod_tril(%d)" % dim
    try:
        import c14_exact
        (prog, params), _ = PROG
        it = G.Interp(prog, c14_exact.RatDom()); it.prog_params = params; seen = {}
        def h_zeros(it_, a):
            o = it_.new_obj("dense", 1); x = it_.new_obj("x", a[0] * a[1], G.FV(Fr(0), Fr(0))); o.cells[0] = dict(nrow=a[0], ncol=a[1], x=G.Ptr(x, 0)); return G.Ptr(o, 0)
        def h_sp(it_, a):
            d = a[0].obj.cells[0]; seen["m"] = (d["nrow"], d["ncol"], [c.num for c in d["x"].obj.cells]); return G.Ptr(it_.array("sparse", [1]), 0)
        it.hooks.update(cholmod_l_zeros=h_zeros, cholmod_l_dense_to_sparse=h_sp, cholmod_l_free_dense=lambda it_, a: 1)
        c = it.array("c", [0]); it.call("cholmod_tril", [dim, G.Ptr(c, 0)])
        nrow, ncol, x = seen["m"]
        want = [Fr(1) if r >= cc else Fr(0) for cc in range(dim) for r in range(dim)]    # column-major
        ok = (nrow, ncol) == (dim, dim) and x == want
        return [(tag + " is the lower-triangular matrix of ones (column-major dense, then sparsified)", ok, "" if ok else str(x), time.time() - t0)]
    except Exception as ex:
        return [(tag + " execution [%s]" % str(ex)[:80], False, "%s: %s" % (type(ex).__name__, ex), time.time() - t0)]

def cumsum_case(args):
    naxes, monodim = args; t0 = time.time(); nd = len(naxes)
    tag = "T-spline -> B-spline conversion naxes=%s monotonic dimension=%s" % (list(naxes), "none" if monodim is None else monodim)
    try:
        _, (prog, params) = PROG
        dom = G.TermDom(); it = G.Interp(prog, dom); it.prog_params = params
        n = 1
        for a in naxes: n *= a
        strides = [1] * nd
        for d in range(nd - 2, -1, -1): strides[d] = strides[d + 1] * naxes[d + 1]
        co = it.array("coef", [it.fsym("inc%d" % i, i % 3) for i in range(n)])
        it.call("vp_cumsum_slice", [nd, G.Ptr(it.array("naxes", list(naxes)), 0), G.Ptr(co, 0), (1 << 32) - 1 if monodim is None else monodim])
        bad = []
        for idx in itertools.product(*[range(a) for a in naxes]):
            pos = sum(i * s for i, s in zip(idx, strides))
            if monodim is None: want = dom.symbol("inc%d" % pos)
            else:
                want = None
                for j in range(idx[monodim] + 1):
                    p2 = pos - (idx[monodim] - j) * strides[monodim]
                    want = dom.symbol("inc%d" % p2) if want is None else dom.add(dom.symbol("inc%d" % p2), want) if False else (dom.symbol("inc%d" % p2) if want is None else dom.add(want, dom.symbol("inc%d" % p2)))
            got = co.cells[pos].sym
            # float += float : (cur + prev) -> the code adds the already accumulated predecessor to the current increment
            if got != want:
                # accept the code's association (increment + running sum): same multiset of increments, still a running sum
                alt = None
                if monodim is not None:
                    alt = dom.symbol("inc%d" % (pos - idx[monodim] * strides[monodim]))
                    for j in range(1, idx[monodim] + 1): alt = dom.add(dom.symbol("inc%d" % (pos - (idx[monodim] - j) * strides[monodim])), alt)
                if got != alt: bad.append("coefficient %s is %s" % (list(idx), dom.show(got, 4)))
        return [(tag + ": every coefficient is the running sum of the increments along that dimension only", not bad, "; ".join(bad[:3]), time.time() - t0)]
    except Exception as ex:
        return [(tag + " execution [%s]" % str(ex)[:80], False, "%s: %s" % (type(ex).__name__, ex), time.time() - t0)]

def main():
    global PROG
    thorough = vlib.TIER == "thorough"
    rep = vlib.Report("C10")
    p1, p2, tr, body = build(); PROG = (p1, p2)
    rep.functions.append(tr.info())
    rep.functions.append(dict(function="glamfit_complex [T-spline -> B-spline conversion block]", file="src/fitter/glam.c", sha_extracted=X.sha(body), rules_fired={"slice": 1}))
    shapes = [((4,), 0), ((4,), None), ((3, 4), 0), ((3, 4), 1), ((2, 3, 4), 0), ((2, 3, 4), 1), ((2, 3, 4), 2), ((3, 2), None)] + ([((2, 2, 3, 2), 2), ((5, 3), 0), ((1, 4), 1), ((4, 1), 1)] if thorough else [((1, 4), 1)])
    t0 = time.time()
    with mp.Pool(min(vlib.NCORES, 8)) as pool:
        r1 = pool.map(tril_case, list(range(1, 7 if not thorough else 10)), chunksize=1); ta = time.time() - t0; tb0 = time.time()
        r2 = pool.map(cumsum_case, shapes, chunksize=1); tb = time.time() - tb0
    for name, results, backend, wall in (("C10-tril", r1, "E3 exact execution of the GOTO program, cholmod hooked", ta), ("C10-cumulative-sum", r2, "E3-term (free-term identity over the GOTO program of the sliced block)", tb)):
        flat = [o for r in results for o in r]
        rep.add_group(backend, len(flat), sum(1 for o in flat if o[1]), wall, bounded="enumerated sizes / shapes; coefficient values opaque symbols", name=name)
        for o in flat:
            if not o[1]: rep.add_violation(name, o[0].replace(" ", "_")[:160], o[0] + ": " + o[2], trace=o[2])
        rep.samples += [o[0] for o in flat[:2]]
    import penalty_matrix
    penalty_matrix.add(rep, thorough, monotonic=True, name="C10-penalty-matrix")
    import glam_exact
    glam_exact.add(rep, thorough, monotonic=True, name="C10-glamfit-exact")
    rep.assume("PARTIAL (structural half of C10): NOT decided - that nnls_normal_block3 returns non-negative increments and the constrained optimum (cholmod numerics, F/G/H bookkeeping), and the second clause of C10 (inactive constraint => same coefficients as the unconstrained fit)",
               "given non-negative, non-NaN increments the running sums are non-decreasing also in float arithmetic (round-to-nearest addition of a non-negative number never decreases a value): a standard IEEE fact, not re-proved here",
               "second clause (inactive constraint => same coefficients): its necessary condition 'the monotonic fit minimises the same objective, written in T-spline coordinates' is decided exactly for the penalty: assembled matrix == (I x L x I)' P (I x L x I); the data term is decided too (C10-glamfit-exact: the WHOLE glamfit_complex executed exactly - the system handed to nnls_normal_block3 is (I x L x I)' N (I x L x I) + penalty with N the weighted normal matrix, and the coefficients written out are the running sums of the solver's result along the monotonic dimension)",
               "the penalty-side T-spline conversion is also an obligation of the C09 check (calc_penalty mono=1); the non-negativity of every reported trial solution is an obligation of the C12 worker harness",
               "the basis-side conversion inside glamfit_complex (basis x tril) is part of C10-glamfit-exact (cholmod = exact sparse algebra supplied by the interpreter; the NNLS solver is an assumed contract: it is handed the right problem, its answer is not judged)")
    rep.trust("tools/gotoexec.py", "goto-cc front end", "tools/extract.py")
    rep.finish(None)

if __name__ == "__main__":
    main()
