#!/bin/bash
# usage: checks/run.sh <property id> [quick|thorough]
cd "$(dirname "$0")/.." || exit 2
export VERIF_TIER="${2:-${VERIF_TIER:-quick}}"
case "$1" in
  C01) exec python3-vt checks/c01.py ;;
  C02) exec python3-vt checks/c02.py ;;
  C03) exec python3-vt checks/c03.py ;;
  C04) exec python3-vt checks/lookup.py C04 ;;
  C05) exec python3-vt checks/c05.py ;;
  C09) exec python3-vt checks/c09.py ;;
  C10) exec python3-vt checks/c10.py ;;
  C15) exec python3-vt checks/c15.py ;;
  C17) exec python3-vt checks/c17.py ;;
  C12) exec python3-vt checks/c12.py ;;
  C13) exec python3-vt checks/c13.py ;;
  C14) exec python3-vt checks/c14.py ;;
  *) echo "unknown property $1"; exit 2 ;;
esac
