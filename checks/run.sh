#!/bin/bash
# usage: checks/run.sh <property id> [quick|thorough]
cd "$(dirname "$0")/.." || exit 2
export VERIF_TIER="${2:-${VERIF_TIER:-quick}}"
# a check that aborts (extraction out of date, tool error, python exception) is UNDECIDED (exit 2), never a violation
run() {
  out=$(mktemp); "$@" > "$out" 2>&1; rc=$?; cat "$out"
  if [ $rc -eq 1 ] && ! grep -q '^VIOLATION ' "$out"; then echo "UNDECIDED: the check aborted before deciding (extraction out of date / tool error): $(tail -1 "$out" | cut -c1-200)"; rc=2; fi
  rm -f "$out"; exit $rc
}
case "$1" in
  C01) run python3-vt checks/c01.py ;;
  C02) run python3-vt checks/c02.py ;;
  C03) run python3-vt checks/c03.py ;;
  C04) run python3-vt checks/lookup.py C04 ;;
  C05) run python3-vt checks/c05.py ;;
  C06) run python3-vt checks/c06.py ;;
  C07) run python3-vt checks/c07.py ;;
  C08) run python3-vt checks/c08.py ;;
  C09) run python3-vt checks/c09.py ;;
  C10) run python3-vt checks/c10.py ;;
  C15) run python3-vt checks/c15.py ;;
  C16) run python3-vt checks/c16.py ;;
  C17) run python3-vt checks/c17.py ;;
  C18) run python3-vt checks/c18.py ;;
  C19) run python3-vt checks/c19.py ;;
  C20) run python3-vt checks/c20.py ;;
  C11) run python3-vt checks/c11.py ;;
  C12) run python3-vt checks/c12.py ;;
  C13) run python3-vt checks/c13.py ;;
  C14) run python3-vt checks/c14.py ;;
  *) echo "unknown property $1"; exit 2 ;;
esac
