#!/bin/bash
# runs every claimed check (tier $1, default quick) against /repo and prints one summary line each
cd "$(dirname "$0")/.." || exit 2
tier=${1:-quick}
for p in C01 C02 C03 C04 C05 C06 C07 C08 C09 C10 C11 C12 C13 C14 C15 C16 C17 C18 C19 C20; do
  s=$(date +%s); checks/run.sh $p $tier > /tmp/runall_$p.log 2>&1; rc=$?
  echo "$p rc=$rc $(( $(date +%s) - s ))s :: $(grep -c '^VIOLATION' /tmp/runall_$p.log) violations, $(grep -c '^KNOWN-FINDING' /tmp/runall_$p.log) known :: $(tail -1 /tmp/runall_$p.log | cut -c1-120)"
done
