#!/usr/bin/env python3
"""C13 (C half): penalty construction is memory-safe for every penalty order."""
import sys, os
sys.path.insert(0, os.path.dirname(os.path.dirname(os.path.abspath(__file__))))
from tools import vlib, units
from specs import penalty as P
GLAM = "src/fitter/glam.c"

def jobs(thorough):
    OMAX, NSMAX, NDMAX, PMAX = (8, 24, 3, 12) if not thorough else (12, 64, 4, 16)
    dd = units.free_function(GLAM, "divided_diffs")
    cp = units.free_function(GLAM, "calc_penalty")
    ap = units.free_function(GLAM, "add_penalty_term")
    pre = P.PRELUDE % ((NSMAX + 1) * (PMAX + 1), vlib.VERIF)
    js = []
    tu = pre + P.divided_diffs_contract(OMAX) + dd.text(P.divided_diffs_loops()) + r'''
void h_divided_diffs(void){ size_t ks, os; __CPROVER_assume(ks <= 4096 && os <= 64); double* knots = malloc(ks*8); double* out = malloc(os*8);
  int order, porder, j; divided_diffs(order, porder, j, knots, out); __CPROVER_assert(0, "canary: reachable after call"); }
'''
    js.append(vlib.Job("C13-divided_diffs", tu, "h_divided_diffs", enforce_rec="divided_diffs", expect_fail=[r"^h_divided_diffs\.assertion\.1$"],
                       must_have=[r"divided_diffs\.precondition", "loop_invariant_step"], timeout=900, cc_flags=["-I/usr/include/suitesparse"],
                       backend="cbmc-sat-contracts", note="recursion closed by --enforce-contract-rec, loop by invariant; order<=%d, 0<=porder<=order (weakest safety precondition)" % OMAX))
    tu = pre + P.divided_diffs_contract(OMAX) + P.calc_penalty_contract(OMAX, NSMAX, NDMAX) + dd.text(P.divided_diffs_loops()) + cp.text(P.calc_penalty_loops()) + r'''
void h_calc_penalty(void){ size_t ks; __CPROVER_assume(ks <= 4096); double* knots = malloc(ks*8); uint64_t* ns = malloc(%d*8); __CPROVER_assume(ns != NULL);
  uint32_t ndim, dim, order, porder; int mono; cholmod_common c; calc_penalty(ns, knots, ndim, dim, order, porder, mono, &c); __CPROVER_assert(0, "canary: reachable after call"); }
''' % NDMAX
    js.append(vlib.Job("C13-calc_penalty", tu, "h_calc_penalty", enforce="calc_penalty", replace=["divided_diffs"], expect_fail=[r"^h_calc_penalty\.assertion\.1$"],
                       must_have=[r"divided_diffs\.precondition", "loop_invariant_step", r"cholmod_l_triplet_to_sparse\.assertion"], timeout=1800, split=8,  cc_flags=["-I/usr/include/suitesparse"],
                       backend="cbmc-sat-contracts", note="divided_diffs replaced by its contract; cholmod functions are nondeterministic stubs (shapes only); nsplines[dim]<=%d" % NSMAX))
    tu = pre + P.calc_penalty_contract(OMAX, NSMAX, NDMAX) + P.add_penalty_term_contract(OMAX, NSMAX, NDMAX, PMAX) + ap.text(None) + r'''
void h_add_penalty_term(void){ uint64_t* ns; double* knots; uint32_t ndim, dim, order, porder; double scale; int mono; cholmod_sparse* pen; cholmod_common c;
  add_penalty_term(ns, knots, ndim, dim, order, porder, scale, mono, pen, &c); __CPROVER_assert(0, "canary: reachable after call"); }
'''
    js.append(vlib.Job("C13-add_penalty_term", tu, "h_add_penalty_term", enforce="add_penalty_term", replace=["calc_penalty"], loop_contracts=False,
                       expect_fail=[r"^h_add_penalty_term\.assertion\.1$", r"^add_penalty_term\.postcondition\.[34]$"],
                       must_have=[r"calc_penalty\.precondition"], timeout=900, cc_flags=["-I/usr/include/suitesparse"],
                       backend="cbmc-sat-contracts", note="entry point from fit.h; NO precondition porder<=order; calc_penalty replaced by its contract (requires porder<=order)"))
    # bsplinebasis (splineutil.c): the design matrix is filled inside the dense matrix cholmod hands out
    W = "__CPROVER_object_whole"
    NP, NS = (64, 32) if not thorough else (128, 48)
    bb = units.free_function("src/fitter/splineutil.c", "bsplinebasis"); bs = units.free_function("src/fitter/splineutil.c", "bspline")
    pre_b = r'''
#include <stddef.h>
#include <stdlib.h>
typedef struct cholmod_dense_struct { size_t nrow, ncol, nzmax, d; void *x, *z; int xtype, dtype; } cholmod_dense;
typedef struct cholmod_sparse_struct { size_t nrow, ncol; } cholmod_sparse; typedef struct cholmod_common_struct { int status; } cholmod_common;
#define CHOLMOD_REAL 1
cholmod_dense vp_dense; cholmod_sparse vp_sparse_result;
/* assumed contract of cholmod_l_allocate_dense: a dense nrow x ncol matrix with leading dimension d */
cholmod_dense* cholmod_l_allocate_dense(size_t nrow, size_t ncol, size_t d, int xtype, cholmod_common* c) {
	vp_dense.nrow = nrow; vp_dense.ncol = ncol; vp_dense.d = d; vp_dense.nzmax = ncol*d; vp_dense.x = malloc(ncol*d*sizeof(double)); __CPROVER_assume(vp_dense.x != NULL); return &vp_dense; }
cholmod_sparse* cholmod_l_dense_to_sparse(cholmod_dense* X, int values, cholmod_common* c) { return &vp_sparse_result; }
int cholmod_l_free_dense(cholmod_dense** X, cholmod_common* c) { *X = NULL; return 1; }
'''
    ct_bs = ("static double bspline(const double* knots, double x, int i, int n)\n"
             "__CPROVER_requires(n >= 0 && i >= 0)\n__CPROVER_requires(__CPROVER_r_ok(knots, ((size_t)i + (size_t)n + 2)*sizeof(double)))\n__CPROVER_assigns()\n__CPROVER_ensures(1)\n;\n")
    ct_bb = ("cholmod_sparse* bsplinebasis(const double* knots, size_t nknots, const double* x, size_t npts, int order, cholmod_common* c)\n"
             "__CPROVER_requires(order >= 0 && order <= 8 && nknots >= (size_t)order + 2 && nknots <= %d + (size_t)order + 1 && npts >= 1 && npts <= %d)\n"
             "__CPROVER_requires(__CPROVER_is_fresh(knots, nknots*sizeof(double)))\n__CPROVER_requires(__CPROVER_is_fresh(x, npts*sizeof(double)))\n"
             "__CPROVER_assigns(%s(&vp_dense))\n__CPROVER_ensures(__CPROVER_return_value != NULL)\n;\n" % (NS, NP, W))
    bloops = [("for", "__CPROVER_assigns(col, row, k, %s(basis->x))\n__CPROVER_loop_invariant(col >= 0 && (size_t)col <= nsplines && k == col*(int)npts && basis == &vp_dense && nsplines == nknots-order-1 && vp_dense.nzmax == nsplines*npts)\n__CPROVER_decreases(nsplines - (size_t)col)" % W),
              ("for", "__CPROVER_assigns(row, k, %s(basis->x))\n__CPROVER_loop_invariant(row >= 0 && (size_t)row <= npts && (size_t)col < nsplines && k == col*(int)npts + row && basis == &vp_dense)\n__CPROVER_decreases(npts - (size_t)row)" % W)]
    tu = pre_b + ct_bs + ct_bb + bs.text(None) + bb.text(bloops) + "void h_bsplinebasis(void){ const double *k, *x; size_t nk, np; int o; cholmod_common c; bsplinebasis(k, nk, x, np, o, &c); __CPROVER_assert(0, \"canary: reachable after call\"); }\n"
    js.append(vlib.Job("C13-bsplinebasis", tu, "h_bsplinebasis", enforce="bsplinebasis", replace=["bspline"], expect_fail=[r"^h_bsplinebasis\.assertion\.1$"],
                       must_have=["loop_invariant_step", r"bspline\.precondition"], timeout=1500, split=8, cbmc_flags=["--no-malloc-may-fail"], backend="cbmc-sat-contracts",
                       note="weakest safety precondition nknots >= order+2, abscissae readable for npts; loops closed by invariants (k == col*npts+row); npts<=%d, nsplines<=%d; the static recursive bspline replaced by its contract (reads knots[i..i+n+1])" % (NP, NS)))
    tu = pre_b + ct_bs + bs.text(None) + "void h_bspline_static(void){ size_t sz; __CPROVER_assume(sz <= 4096); double* k = malloc(sz*sizeof(double)); double x; int i, n; bspline(k, x, i, n); __CPROVER_assert(0, \"canary: reachable after call\"); }\n"
    js.append(vlib.Job("C13-bspline-static", tu, "h_bspline_static", enforce_rec="bspline", loop_contracts=False, expect_fail=[r"^h_bspline_static\.assertion\.1$"], must_have=[r"bspline\.precondition"],
                       timeout=600, backend="cbmc-sat-contracts", note="splineutil.c's own Cox-de Boor recursion; closed by --enforce-contract-rec"))
    return [dd, cp, ap, bb, bs], js

def replay_fitargs(v):
    """fit() argument obligations -> the real fit() natively (ASan/UBSan) for the inconsistent-argument cases"""
    wd = vlib.workdir(); R = vlib.REPO; exe = os.path.join(wd, "fitargs")
    if not os.path.exists(exe):
        cmds = ["gcc -c -O1 -g -fsanitize=address,undefined -fno-sanitize-recover=undefined -I%s/include -I/usr/include/suitesparse %s/src/fitter/%s.c -o %s/a_%s.o" % (R, R, f, wd, f) for f in ("glam", "splineutil", "nnls", "cholesky_solve")]
        cmds.append("g++ -std=c++11 -O1 -g -fsanitize=address,undefined -fno-sanitize-recover=undefined -DPHOTOSPLINE_INCLUDES_SPGLAM -I%s/include -I/usr/include/suitesparse %s/tools/replay/replay_fitargs.cpp %s/src/core/*.cpp "
                    "%s/a_glam.o %s/a_splineutil.o %s/a_nnls.o %s/a_cholesky_solve.o -lcfitsio -lcholmod -lspqr -lsuitesparseconfig -llapack -lblas -lpthread -lm -o %s" % (R, vlib.VERIF, R, wd, wd, wd, wd, exe))
        for c in cmds:
            rc, out, w = vlib.sh(c, timeout=600)
            if rc != 0: return dict(replayed=False, error="replay build failed: " + out[-600:])
    env = dict(os.environ); env["ASAN_OPTIONS"] = "detect_leaks=0"; outs = {}
    for mode in ("valid", "shortcoords", "fewknots", "fewknots2"):
        rc, out, w = vlib.sh("timeout 120 %s %s" % (exe, mode), timeout=130, env=env)
        outs[mode] = "exit %d: %s" % (rc, out[:600])
        if rc != 0:
            return dict(replayed=True, input="real splinetable::fit, 1-D order 2, case '%s'" % mode, driver="tools/replay/replay_fitargs.cpp (ASan+UBSan)", exit_code=rc, observed=out[:2500])
    return dict(replayed=False, note="native fit() rejects short coordinate vectors and too-short knot vectors and accepts the valid problem", observed=outs)

def replayer(v):
    if v["job"] == "C13-fit-arguments": return replay_fitargs(v)
    return replayer_penalty(v)

def replayer_penalty(v):
    """contract obligation failed -> run the real add_penalty_term (real cholmod) over the
    small grid of (order, penalty order) the property quantifies over, under ASan/UBSan"""
    exe = os.path.join(vlib.workdir(), "replay_penalty")
    if not os.path.exists(exe):
        R = vlib.REPO
        cmd = ("gcc -g -O1 -fsanitize=address,undefined -fno-sanitize-recover=undefined -I%s/include -I/usr/include/suitesparse "
               "%s/tools/replay/replay_penalty.c %s/src/fitter/glam.c %s/src/fitter/splineutil.c %s/src/fitter/nnls.c %s/src/fitter/cholesky_solve.c "
               "-lcholmod -lspqr -lsuitesparseconfig -llapack -lblas -lpthread -lm -o %s" % (R, vlib.VERIF, R, R, R, R, exe))
        rc, out, w = vlib.sh(cmd, timeout=600)
        if rc != 0: return dict(replayed=False, error="replay driver does not build: " + out[-800:])
    env = dict(os.environ); env["ASAN_OPTIONS"] = "detect_leaks=0"
    tried = 0
    for order in range(0, 5):
        for porder in range(0, order + 4):
            tried += 1
            rc, out, w = vlib.sh("%s %d %d %d" % (exe, order, porder, 2 * order + 6), timeout=60, env=env)
            if rc != 0:
                return dict(replayed=True, input=dict(order=order, penalty_order=porder, nknots=2 * order + 6, ndim=1, smoothing=1.0),
                            driver="tools/replay/replay_penalty.c (real glam.c + cholmod, ASan+UBSan)", exit_code=rc, observed=out[:2500])
    return dict(replayed=False, note="native grid order 0..4 x penalty order 0..order+3 (%d runs) shows no memory error" % tried)

if __name__ == "__main__":
    fns, js = jobs(vlib.TIER == "thorough")
    vlib.run_jobs(js, nproc=3)
    rep = vlib.Report("C13"); rep.add_jobs(js)
    import c13_fit
    c13_fit.add(rep, vlib.TIER == "thorough")
    for f in fns: rep.functions.append(f.info())
    rep.assume("C++ half: the whole template splinetable::fit is extracted (rules R7, R14-R19: containers -> (pointer,size), throw -> ghost flag + return, unique_ptr/allocate -> storage primitives) and executed from CBMC's GOTO program for valid problems and every single-fault variant of the arguments (ndim 1, 2), with add_penalty_term/glamfit_complex hooked to check their preconditions (BOUNDED: enumerated combinations); the C wrapper's non-zero return is not covered",
               "cholmod_l_allocate_triplet/triplet_to_sparse/ssmult/transpose/speye/add/free_*, cholmod_tril, kronecker_product: nondeterministic stubs (stubs/cholmod_stubs.h): return fresh objects of the requested capacity, contents unconstrained",
               "glamfit_complex itself is not under contract (cholmod calls); bsplinebasis' precondition 'abscissae readable for data->ranges[i]' is what fit() must establish (checked in the C13-fit-arguments group)",
               "glam.c functions are extracted verbatim (comments dropped, no rewrite rule fires); loop contracts inserted by ordinal",
               "a zero-length VLA (order == 0 in divided_diffs) is accepted by CBMC; UBSan's vla-bound would flag it")
    rep.trust("cbmc 6.11.0 / goto-instrument --dfcc", "MiniSat", "stubs/cholmod_stubs.h")
    rep.finish(replayer)
