#!/usr/bin/env python3
"""C13 (C half): penalty construction is memory-safe for every penalty order."""
import sys, os
sys.path.insert(0, os.path.dirname(os.path.dirname(os.path.abspath(__file__))))
from tools import vlib, units
from specs import penalty as P
GLAM = "src/fitter/glam.c"

def jobs(thorough):
    OMAX, NSMAX, NDMAX, PMAX = (8, 24, 3, 12) if not thorough else (12, 64, 4, 16)
    dd = units.free_function(GLAM, "divided_diffs")
    cp = units.free_function(GLAM, "calc_penalty")
    ap = units.free_function(GLAM, "add_penalty_term")
    pre = P.PRELUDE % ((NSMAX + 1) * (PMAX + 1), vlib.VERIF)
    js = []
    tu = pre + P.divided_diffs_contract(OMAX) + dd.text(P.divided_diffs_loops()) + r'''
void h_divided_diffs(void){ size_t ks, os; __CPROVER_assume(ks <= 4096 && os <= 64); double* knots = malloc(ks*8); double* out = malloc(os*8);
  int order, porder, j; divided_diffs(order, porder, j, knots, out); __CPROVER_assert(0, "canary: reachable after call"); }
'''
    js.append(vlib.Job("C13-divided_diffs", tu, "h_divided_diffs", enforce_rec="divided_diffs", expect_fail=[r"^h_divided_diffs\.assertion\.1$"],
                       must_have=[r"divided_diffs\.precondition", "loop_invariant_step"], timeout=900, cc_flags=["-I/usr/include/suitesparse"],
                       backend="cbmc-sat-contracts", note="recursion closed by --enforce-contract-rec, loop by invariant; order<=%d, 0<=porder<=order (weakest safety precondition)" % OMAX))
    tu = pre + P.divided_diffs_contract(OMAX) + P.calc_penalty_contract(OMAX, NSMAX, NDMAX) + dd.text(P.divided_diffs_loops()) + cp.text(P.calc_penalty_loops()) + r'''
void h_calc_penalty(void){ size_t ks; __CPROVER_assume(ks <= 4096); double* knots = malloc(ks*8); uint64_t* ns = malloc(%d*8); __CPROVER_assume(ns != NULL);
  uint32_t ndim, dim, order, porder; int mono; cholmod_common c; calc_penalty(ns, knots, ndim, dim, order, porder, mono, &c); __CPROVER_assert(0, "canary: reachable after call"); }
''' % NDMAX
    js.append(vlib.Job("C13-calc_penalty", tu, "h_calc_penalty", enforce="calc_penalty", replace=["divided_diffs"], expect_fail=[r"^h_calc_penalty\.assertion\.1$"],
                       must_have=[r"divided_diffs\.precondition", "loop_invariant_step", r"cholmod_l_triplet_to_sparse\.assertion"], timeout=1800, split=8,  cc_flags=["-I/usr/include/suitesparse"],
                       backend="cbmc-sat-contracts", note="divided_diffs replaced by its contract; cholmod functions are nondeterministic stubs (shapes only); nsplines[dim]<=%d" % NSMAX))
    tu = pre + P.calc_penalty_contract(OMAX, NSMAX, NDMAX) + P.add_penalty_term_contract(OMAX, NSMAX, NDMAX, PMAX) + ap.text(None) + r'''
void h_add_penalty_term(void){ uint64_t* ns; double* knots; uint32_t ndim, dim, order, porder; double scale; int mono; cholmod_sparse* pen; cholmod_common c;
  add_penalty_term(ns, knots, ndim, dim, order, porder, scale, mono, pen, &c); __CPROVER_assert(0, "canary: reachable after call"); }
'''
    js.append(vlib.Job("C13-add_penalty_term", tu, "h_add_penalty_term", enforce="add_penalty_term", replace=["calc_penalty"], loop_contracts=False,
                       expect_fail=[r"^h_add_penalty_term\.assertion\.1$", r"^add_penalty_term\.postcondition\.[34]$"],
                       must_have=[r"calc_penalty\.precondition"], timeout=900, cc_flags=["-I/usr/include/suitesparse"],
                       backend="cbmc-sat-contracts", note="entry point from fit.h; NO precondition porder<=order; calc_penalty replaced by its contract (requires porder<=order)"))
    return [dd, cp, ap], js

def replay_fitargs(v):
    """fit() argument obligations -> the real fit() natively (ASan/UBSan) for the inconsistent-argument cases"""
    wd = vlib.workdir(); R = vlib.REPO; exe = os.path.join(wd, "fitargs")
    if not os.path.exists(exe):
        cmds = ["gcc -c -O1 -g -fsanitize=address,undefined -fno-sanitize-recover=undefined -I%s/include -I/usr/include/suitesparse %s/src/fitter/%s.c -o %s/a_%s.o" % (R, R, f, wd, f) for f in ("glam", "splineutil", "nnls", "cholesky_solve")]
        cmds.append("g++ -std=c++11 -O1 -g -fsanitize=address,undefined -fno-sanitize-recover=undefined -DPHOTOSPLINE_INCLUDES_SPGLAM -I%s/include -I/usr/include/suitesparse %s/tools/replay/replay_fitargs.cpp %s/src/core/*.cpp "
                    "%s/a_glam.o %s/a_splineutil.o %s/a_nnls.o %s/a_cholesky_solve.o -lcfitsio -lcholmod -lspqr -lsuitesparseconfig -llapack -lblas -lpthread -lm -o %s" % (R, vlib.VERIF, R, wd, wd, wd, wd, exe))
        for c in cmds:
            rc, out, w = vlib.sh(c, timeout=600)
            if rc != 0: return dict(replayed=False, error="replay build failed: " + out[-600:])
    env = dict(os.environ); env["ASAN_OPTIONS"] = "detect_leaks=0"; outs = {}
    for mode in ("valid", "shortcoords", "fewknots", "fewknots2"):
        rc, out, w = vlib.sh("timeout 120 %s %s" % (exe, mode), timeout=130, env=env)
        outs[mode] = "exit %d: %s" % (rc, out[:600])
        if rc != 0:
            return dict(replayed=True, input="real splinetable::fit, 1-D order 2, case '%s'" % mode, driver="tools/replay/replay_fitargs.cpp (ASan+UBSan)", exit_code=rc, observed=out[:2500])
    return dict(replayed=False, note="native fit() rejects short coordinate vectors and too-short knot vectors and accepts the valid problem", observed=outs)

def replayer(v):
    if v["job"] == "C13-fit-arguments": return replay_fitargs(v)
    return replayer_penalty(v)

def replayer_penalty(v):
    """contract obligation failed -> run the real add_penalty_term (real cholmod) over the
    small grid of (order, penalty order) the property quantifies over, under ASan/UBSan"""
    exe = os.path.join(vlib.workdir(), "replay_penalty")
    if not os.path.exists(exe):
        R = vlib.REPO
        cmd = ("gcc -g -O1 -fsanitize=address,undefined -fno-sanitize-recover=undefined -I%s/include -I/usr/include/suitesparse "
               "%s/tools/replay/replay_penalty.c %s/src/fitter/glam.c %s/src/fitter/splineutil.c %s/src/fitter/nnls.c %s/src/fitter/cholesky_solve.c "
               "-lcholmod -lspqr -lsuitesparseconfig -llapack -lblas -lpthread -lm -o %s" % (R, vlib.VERIF, R, R, R, R, exe))
        rc, out, w = vlib.sh(cmd, timeout=600)
        if rc != 0: return dict(replayed=False, error="replay driver does not build: " + out[-800:])
    env = dict(os.environ); env["ASAN_OPTIONS"] = "detect_leaks=0"
    tried = 0
    for order in range(0, 5):
        for porder in range(0, order + 4):
            tried += 1
            rc, out, w = vlib.sh("%s %d %d %d" % (exe, order, porder, 2 * order + 6), timeout=60, env=env)
            if rc != 0:
                return dict(replayed=True, input=dict(order=order, penalty_order=porder, nknots=2 * order + 6, ndim=1, smoothing=1.0),
                            driver="tools/replay/replay_penalty.c (real glam.c + cholmod, ASan+UBSan)", exit_code=rc, observed=out[:2500])
    return dict(replayed=False, note="native grid order 0..4 x penalty order 0..order+3 (%d runs) shows no memory error" % tried)

if __name__ == "__main__":
    fns, js = jobs(vlib.TIER == "thorough")
    vlib.run_jobs(js, nproc=3)
    rep = vlib.Report("C13"); rep.add_jobs(js)
    import c13_fit
    c13_fit.add(rep, vlib.TIER == "thorough")
    for f in fns: rep.functions.append(f.info())
    rep.assume("C++ half: the whole template splinetable::fit is extracted (rules R7, R14-R19: containers -> (pointer,size), throw -> ghost flag + return, unique_ptr/allocate -> storage primitives) and executed from CBMC's GOTO program for valid problems and every single-fault variant of the arguments (ndim 1, 2), with add_penalty_term/glamfit_complex hooked to check their preconditions (BOUNDED: enumerated combinations); the C wrapper's non-zero return is not covered",
               "cholmod_l_allocate_triplet/triplet_to_sparse/ssmult/transpose/speye/add/free_*, cholmod_tril, kronecker_product: nondeterministic stubs (stubs/cholmod_stubs.h): return fresh objects of the requested capacity, contents unconstrained",
               "bsplinebasis/bspline in splineutil.c and glamfit_complex are not under contract here",
               "glam.c functions are extracted verbatim (comments dropped, no rewrite rule fires); loop contracts inserted by ordinal",
               "a zero-length VLA (order == 0 in divided_diffs) is accepted by CBMC; UBSan's vla-bound would flag it")
    rep.trust("cbmc 6.11.0 / goto-instrument --dfcc", "MiniSat", "stubs/cholmod_stubs.h")
    rep.finish(replayer)
