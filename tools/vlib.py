#!/usr/bin/env python3
"""Shared machinery: CBMC contract pipeline runner, result parsing, evidence,
known findings, exit policy (DESIGN.md sections 4, 9, 11)."""
import os, re, sys, json, time, shutil, tempfile, subprocess, atexit, hashlib
from concurrent.futures import ThreadPoolExecutor

VERIF = os.path.dirname(os.path.dirname(os.path.abspath(__file__)))
REPO = os.environ.get("VP_REPO", "/repo")
TIER = os.environ.get("VERIF_TIER", "quick")
SEED = int(os.environ.get("VERIF_SEED", "0") or 0)
NCORES = int(os.environ.get("VERIF_JOBS", "0") or 0) or (os.cpu_count() or 4)
MEM_KB = int(os.environ.get("VERIF_MEM_KB", str(14 * 1024 * 1024)))

# a run against a scratch copy of the repository (seeded change) must not overwrite the evidence of /repo
EVIDENCE_DIR = os.environ.get("VERIF_EVIDENCE_DIR", os.path.join(VERIF, "evidence"))
REPLAY_DIR = os.environ.get("VERIF_REPLAY_DIR", os.path.join(VERIF, "replays"))
_workdir = None
T_START = time.time()
def workdir():
    global _workdir
    if _workdir is None:
        base = os.environ.get("TMPDIR", "/tmp")
        _workdir = tempfile.mkdtemp(prefix="vp-photospline-", dir=base)
        if not os.environ.get("VERIF_KEEP"):
            atexit.register(lambda: shutil.rmtree(_workdir, ignore_errors=True))
    return _workdir

def sh(cmd, timeout=None, cwd=None, mem_kb=None, env=None):
    """Run a shell command; returns (rc, output, wall).  rc 124 on timeout."""
    t0 = time.time()
    pre = ""
    if mem_kb:
        pre = "ulimit -v %d; " % mem_kb
    try:
        p = subprocess.run(["bash", "-c", pre + cmd], cwd=cwd, stdout=subprocess.PIPE,
                           stderr=subprocess.STDOUT, timeout=timeout, env=env)
        return p.returncode, p.stdout.decode(errors="replace"), time.time() - t0
    except subprocess.TimeoutExpired as e:
        out = (e.stdout or b"").decode(errors="replace")
        return 124, out, time.time() - t0

RESULT_RE = re.compile(r"^\[(?P<name>[^\]]+)\] (?P<desc>.*): (?P<st>SUCCESS|FAILURE|UNKNOWN|ERROR)\s*$", re.M)

class Job:
    """One CBMC run: a generated translation unit + instrumentation + flags."""
    def __init__(self, name, source_text, entry, enforce=None, enforce_rec=None, replace=(),
                 loop_contracts=True, cbmc_flags=(), cc_flags=(), timeout=900,
                 expect_fail=(), backend="cbmc-sat-contracts", note="", bounded=None,
                 must_have=(), nondet_static=False, split=0, split_procs=None, unwind_fns=(), unwind_by_line=None, only=None):
        self.name = name; self.source_text = source_text; self.entry = entry
        self.enforce = enforce; self.enforce_rec = enforce_rec; self.replace = list(replace)
        self.loop_contracts = loop_contracts; self.cbmc_flags = list(cbmc_flags)
        self.cc_flags = list(cc_flags); self.timeout = timeout
        self.expect_fail = list(expect_fail)      # obligation-name regexes that MUST fail (vacuity canaries)
        self.backend = backend; self.note = note; self.bounded = bounded
        self.must_have = list(must_have)          # obligation-name regexes that must be present (e.g. loop_invariant_step)
        self.nondet_static = nondet_static
        self.split = split; self.split_procs = split_procs or NCORES; self.unwind_fns = list(unwind_fns); self.unwind_by_line = unwind_by_line; self.only = only
        self.check_flags = ["--bounds-check", "--pointer-check", "--signed-overflow-check", "--div-by-zero-check",
                            "--pointer-overflow-check"]
        # results
        self.status = None      # ok | timeout | error | undecided
        self.results = []       # (name, desc, status)
        self.log = ""; self.wall = 0.0; self.reason = ""

    def run(self):
        d = os.path.join(workdir(), re.sub(r"[^A-Za-z0-9_.-]", "_", self.name))
        os.makedirs(d, exist_ok=True)
        src = os.path.join(d, "tu.c")
        with open(src, "w") as f: f.write(self.source_text)
        t0 = time.time()
        log = []
        def step(cmd, to):
            rc, out, w = sh(cmd, timeout=to, cwd=d, mem_kb=MEM_KB)
            log.append("$ " + cmd + "\n" + out)
            return rc, out
        rc, out = step("goto-cc --function %s %s tu.c -o a.gb" % (self.entry, " ".join(self.cc_flags)), 120)
        if rc != 0:
            self.status = "error"; self.reason = "goto-cc failed (extracted text does not compile)"; return self._fin(log, t0)
        cur = "a.gb"
        if self.enforce or self.enforce_rec or self.replace or self.loop_contracts:
            cmd = "goto-instrument --dfcc %s" % self.entry
            if self.enforce: cmd += " --enforce-contract %s" % self.enforce
            if self.enforce_rec: cmd += " --enforce-contract-rec %s" % self.enforce_rec
            for r in self.replace: cmd += " --replace-call-with-contract %s" % r
            if self.loop_contracts: cmd += " --apply-loop-contracts"
            if self.nondet_static: cmd += " --nondet-static"
            cmd += " a.gb b.gb"
            rc, out = step(cmd, 300)
            if rc != 0:
                self.status = "error"; self.reason = "goto-instrument failed: " + out.strip().splitlines()[-1] if out.strip() else "goto-instrument failed"
                return self._fin(log, t0)
            cur = "b.gb"
        # safety checks are instrumented ONCE into the binary so that obligation names are stable
        rc, out = step("goto-instrument %s %s c.gb" % (" ".join(self.check_flags), cur), 300)
        if rc != 0:
            self.status = "error"; self.reason = "goto-instrument (checks) failed"; return self._fin(log, t0)
        cur = "c.gb"
        flags = ["--no-standard-checks", "--unwinding-assertions", "--slice-formula", "--trace"] + self.cbmc_flags
        if self.unwind_by_line:
            # per-loop bounds chosen from the loop's own header text (tight bounds keep symbolic execution small;
            # every bound is protected by an unwinding assertion)
            rc, out = step("cbmc --show-loops %s" % cur, 120)
            tu_lines = self.source_text.splitlines()
            us = []
            for m in re.finditer(r"^Loop (\S+):\n\s+file (\S+) line (\d+) function (\S+)", out, re.M):
                lid, fil, ln, fn = m.group(1), m.group(2), int(m.group(3)), m.group(4)
                text = tu_lines[ln - 1] if fil.endswith("tu.c") and ln - 1 < len(tu_lines) else ""
                if not fil.endswith("tu.c"):
                    try: text = open(fil).read().splitlines()[ln - 1]
                    except Exception: text = ""
                b = self.unwind_by_line(fn, text)
                if b: us.append("%s:%d" % (lid, b))
            if us: flags += ["--unwindset", ",".join(us)]
        if self.unwind_fns:
            # unwind only the named functions' remaining loops (library loops of the contract instrumentation are left alone)
            rc, out = step("cbmc --show-loops %s" % cur, 120)
            ids = re.findall(r"^Loop (\S+):", out, re.M)
            us = []
            for fn, k in self.unwind_fns:
                us += ["%s:%d" % (i, k) for i in ids if re.match(r"^%s(_wrapped_for_contract_checking)?\.\d+$" % re.escape(fn), i)]
            if not us:
                self.status = "error"; self.reason = "no loop found to unwind for %s" % self.unwind_fns; return self._fin(log, t0)
            flags += ["--unwindset", ",".join(us)]
        if (self.split and self.split > 1) or self.only:
            out, rc = self._run_split(d, cur, flags, log)
        else:
            rc, out = step("cbmc %s %s" % (" ".join(flags), cur), self.timeout)
        self.results = [(m.group("name"), m.group("desc"), m.group("st")) for m in RESULT_RE.finditer(out)]
        if rc == 124:
            self.status = "timeout"; self.reason = "solver time-out after %ds" % self.timeout
        elif rc in (0, 10) and ("VERIFICATION SUCCESSFUL" in out or "VERIFICATION FAILED" in out):
            self.status = "ok"
            if re.search(r"ignoring (forall|exists)", out):
                self.status = "undecided"; self.reason = "quantifier ignored by back end"
        else:
            self.status = "error"
            tail = out.strip().splitlines()[-3:]
            self.reason = "cbmc rc=%d: %s" % (rc, " | ".join(tail))
        return self._fin(log, t0)

    def _run_split(self, d, gb, flags, log):
        """Partition the obligations of one instrumented program over several
        cbmc processes (each decides its subset with --property; together they
        cover every obligation exactly once - checked)."""
        rc, out, w = sh("cbmc %s %s --show-properties --json-ui" % (" ".join(f for f in flags if f != "--trace"), gb), timeout=300, cwd=d, mem_kb=MEM_KB)
        try:
            js = json.loads(out)
            names = [p["name"] for e in js if isinstance(e, dict) and "properties" in e for p in e["properties"]]
        except Exception:
            log.append(out[-3000:]); return out, 1
        if self.only:
            names = [n for n in names if re.search(self.only, n)]      # obligation subset (stated in the job's note)
        if not names:
            log.append("no properties"); return out, 1
        k = max(1, min(self.split or 1, len(names)))
        chunks = [names[i::k] for i in range(k)]
        def one(idx):
            assert all(re.match(r"^[\w.$:-]+$", n) for n in chunks[idx]), "odd property name"
            props = " ".join("--property %s" % n for n in chunks[idx])
            with open(os.path.join(d, "props%d.txt" % idx), "w") as f: f.write(props)
            return sh("cbmc %s %s $(cat props%d.txt)" % (" ".join(flags), gb, idx), timeout=self.timeout, cwd=d, mem_kb=MEM_KB)
        with ThreadPoolExecutor(max_workers=max(1, min(k, self.split_procs))) as ex:
            res = list(ex.map(one, range(k)))
        allout = []; worst = 0
        for idx, (rc, o, w) in enumerate(res):
            log.append("$ cbmc chunk %d/%d (%d properties) rc=%d %.1fs\n%s" % (idx, k, len(chunks[idx]), rc, w, o))
            allout.append(o)
            if rc == 124: worst = 124
            elif rc not in (0, 10) and worst != 124: worst = rc
        merged = "\n".join(allout)
        got = set(m.group("name") for m in RESULT_RE.finditer(merged))
        if worst in (0, 10) and not set(names) <= got:   # (unwinding assertions appear only at run time)
            log.append("property partition mismatch: missing %s" % sorted(set(names) - got)[:5]); worst = 1
        return merged, worst

    def _fin(self, log, t0):
        self.log = "\n".join(log); self.wall = time.time() - t0
        return self

    # classification ----------------------------------------------------
    def is_canary(self, name, desc=""):
        return any(re.search(p, name) or re.search(p, desc) for p in self.expect_fail)
    def failed(self):
        return [(n, d) for (n, d, s) in self.results if s == "FAILURE" and not self.is_canary(n, d)]
    def unknown(self):
        """UNKNOWN/ERROR: obligations cbmc could not decide (typically everything downstream of a failed unwinding assertion)"""
        return [(n, d) for (n, d, s) in self.results if s not in ("SUCCESS", "FAILURE") and not self.is_canary(n, d)]
    def canaries_ok(self):
        """every expect_fail pattern matched at least one FAILURE result"""
        bad = []
        for p in self.expect_fail:
            hit = [(n, s) for (n, d, s) in self.results if re.search(p, n) or re.search(p, d)]
            if not hit or any(s != "FAILURE" for n, s in hit):
                bad.append(p)
        return bad
    def missing(self):
        return [p for p in self.must_have if not any(re.search(p, n) for (n, d, s) in self.results)]
    def n_obligations(self):
        return len([1 for (n, d, s) in self.results if not self.is_canary(n, d)])
    def n_discharged(self):
        return len([1 for (n, d, s) in self.results if s == "SUCCESS" and not self.is_canary(n, d)])
    def trace_for(self, obligation):
        """text of the counterexample trace for one obligation"""
        m = re.search(r"Trace for %s:\n(.*?)(?=\nTrace for |\n\*\* \d+ of \d+ failed)" % re.escape(obligation), self.log, re.S)
        return m.group(1) if m else ""

def run_jobs(jobs, nproc=None):
    nproc = nproc or NCORES
    with ThreadPoolExecutor(max_workers=nproc) as ex:
        list(ex.map(lambda j: j.run(), jobs))
    return jobs

# ---------------------------------------------------------------------------
def trace_values(trace_text):
    """Parse 'name=value (bits)' assignments out of a CBMC text trace; later
    assignments override earlier ones.  Returns dict name -> (value_text, bits)"""
    vals = {}
    for m in re.finditer(r"^\s*([A-Za-z_][\w\.\[\]\$!@:]*)=(.+?)(?: \(([01 ]+)\))?\s*$", trace_text, re.M):
        vals[m.group(1)] = (m.group(2), (m.group(3) or "").replace(" ", ""))
    return vals

def bits_to_double(bits):
    import struct
    return struct.unpack(">d", int(bits, 2).to_bytes(8, "big"))[0]

# ---------------------------------------------------------------------------
def load_known_findings():
    """known_findings.txt lines:
         known: property=<id> key=<regex on 'job:obligation'> <text>
         fixed: property=<id> <commit> <text>   (suppresses nothing)"""
    path = os.path.join(VERIF, "known_findings.txt")
    known = []
    if os.path.exists(path):
        for line in open(path):
            line = line.strip()
            m = re.match(r"known:\s+property=(\S+)\s+key=(\S+)\s+(.*)", line)
            if m: known.append(dict(prop=m.group(1), key=m.group(2), text=m.group(3)))
    return known

class Report:
    """Collects obligations from several engines and writes evidence + exit code."""
    def __init__(self, prop, level="proof"):
        self.prop = prop; self.level = level; self.t0 = T_START
        self.groups = []          # dict(backend, obligations, discharged, bounded, wall, note)
        self.violations = []      # dict(obligation, detail, replay_input, replayed)
        self.undecided = []       # strings
        self.assumptions = []; self.functions = []; self.samples = []
        self.trusted = []; self.extra = {}
        self.known = [k for k in load_known_findings() if k["prop"] == prop]
        self.known_hits = []
        self._replay_cache = {}

    def assume(self, *a):
        for x in a:
            if x not in self.assumptions: self.assumptions.append(x)
    def trust(self, *a):
        for x in a:
            if x not in self.trusted: self.trusted.append(x)

    def add_jobs(self, jobs):
        for j in jobs:
            g = dict(job=j.name, backend=j.backend, obligations=j.n_obligations(), discharged=j.n_discharged(),
                     bounded=j.bounded, wall_s=round(j.wall, 1), note=j.note, status=j.status)
            self.groups.append(g)
            if j.status != "ok":
                self.undecided.append("%s: %s" % (j.name, j.reason));
                self._save_log(j); continue
            bad = j.canaries_ok()
            if bad:
                self.undecided.append("%s: vacuity canary did not fail as it must: %s" % (j.name, bad)); self._save_log(j)
            miss = j.missing()
            if miss:
                self.undecided.append("%s: expected obligations absent (contract silently dropped?): %s" % (j.name, miss)); self._save_log(j)
            if j.n_obligations() == 0:
                self.undecided.append("%s: zero obligations generated" % j.name)
            for (n, d) in j.failed():
                self.violations.append(dict(job=j.name, obligation=n, desc=d, trace=j.trace_for(n), jobobj=j))
            if j.unknown() and not j.failed():
                self.undecided.append("%s: %d obligations left UNKNOWN by cbmc" % (j.name, len(j.unknown()))); self._save_log(j)
            for (n, d, s) in j.results[:2]:
                if len(self.samples) < 12: self.samples.append("%s: [%s] %s: %s" % (j.name, n, d, s))

    def _save_log(self, j):
        os.makedirs(REPLAY_DIR, exist_ok=True)
        p = os.path.join(REPLAY_DIR, "%s-%s.log" % (self.prop, re.sub(r"[^A-Za-z0-9_.-]", "_", j.name)))
        with open(p, "w") as f: f.write(j.log[-400000:])
        return p

    def add_group(self, backend, obligations, discharged, wall, bounded=None, note="", name=""):
        self.groups.append(dict(job=name, backend=backend, obligations=obligations, discharged=discharged,
                                bounded=bounded, wall_s=round(wall, 1), note=note, status="ok"))

    def add_violation(self, job, obligation, desc, trace="", replay=None):
        self.violations.append(dict(job=job, obligation=obligation, desc=desc, trace=trace, replay=replay, jobobj=None))

    def finish(self, replayer=None):
        """replayer(violation dict) -> dict(replayed=bool, input=..., observed=..., cmd=...) or None"""
        os.makedirs(EVIDENCE_DIR, exist_ok=True)
        os.makedirs(REPLAY_DIR, exist_ok=True)
        lines = []
        nviol = 0
        for v in self.violations:
            key = "%s:%s" % (v["job"], v["obligation"])
            k = next((k for k in self.known if re.search(k["key"], key)), None)
            if k:
                if k not in self.known_hits:
                    self.known_hits.append(k); lines.append("KNOWN-FINDING: property=%s %s" % (self.prop, k["text"]))
                continue
            nviol += 1
            rp = v.get("replay")
            if rp is None and replayer is not None:
                fam = re.sub(r"[-_]?N?\d+.*$", "", v["job"])      # one native replay per job family
                if fam in self._replay_cache:
                    rp = dict(self._replay_cache[fam]); rp["note_shared"] = "same replay as first violation of this job family"
                else:
                    try: rp = replayer(v)
                    except Exception as e: rp = dict(replayed=False, error=repr(e))
                    self._replay_cache[fam] = rp
            rp = rp or dict(replayed=False)
            path = os.path.join(REPLAY_DIR, "%s-%s.json" % (self.prop, re.sub(r"[^A-Za-z0-9_.-]", "_", key))[:180])
            body = dict(property=self.prop, failed_obligation=v["obligation"], job=v["job"], description=v["desc"],
                        verifier_output=v["trace"][-20000:], replay=rp)
            if v.get("jobobj") is not None:
                body["verifier_log_tail"] = v["jobobj"].log[-6000:]
            with open(path, "w") as f: json.dump(body, f, indent=1, default=str)
            tail = "" if rp.get("replayed") else " no-failing-input-found"
            lines.append("VIOLATION property=%s replay=%s obligation=%s%s" % (self.prop, path, key, tail))
        # evidence
        proved = [g for g in self.groups if not g["bounded"]]
        bounded = [g for g in self.groups if g["bounded"]]
        nknown = len(self.violations) - nviol     # obligations covered by a listed known finding: reported, not counted
        obl = sum(g["obligations"] for g in self.groups) - nknown; dis = sum(g["discharged"] for g in self.groups)
        per_backend = {}
        for g in self.groups:
            b = per_backend.setdefault(g["backend"], dict(obligations=0, discharged=0, wall_s=0.0, jobs=0))
            b["obligations"] += g["obligations"]; b["discharged"] += g["discharged"]; b["wall_s"] = round(b["wall_s"] + g["wall_s"], 1); b["jobs"] += 1
        cov = dict(obligations=obl, discharged=dis,
                   checker_cmd="goto-cc | goto-instrument --dfcc --enforce-contract/--replace-call-with-contract --apply-loop-contracts | cbmc (SAT) ; tools/gotoexec.py (VCs over CBMC's GOTO program) -- see per_backend",
                   trusted_base=self.trusted, per_backend=per_backend,
                   obligations_unbounded=sum(g["obligations"] for g in proved), discharged_unbounded=sum(g["discharged"] for g in proved),
                   obligations_bounded=sum(g["obligations"] for g in bounded), discharged_bounded=sum(g["discharged"] for g in bounded),
                   functions_under_contract=self.functions, jobs=self.groups, samples=self.samples or ["(no obligations)"],
                   undecided=self.undecided, known_findings_reported=[k["text"] for k in self.known_hits], obligations_failing_as_known_findings=nknown,
                   solver_wall_s=round(sum(g["wall_s"] for g in self.groups), 1))
        cov.update(self.extra)
        ev = dict(property_id=self.prop, tier=TIER if TIER in ("quick", "thorough") else "quick", seed=SEED, level=self.level,
                  coverage=cov, assumptions=self.assumptions, wall_s=round(time.time() - self.t0, 1), violations=nviol)
        with open(os.path.join(EVIDENCE_DIR, self.prop + ".json"), "w") as f:
            json.dump(ev, f, indent=1, default=str)
        for l in lines: print(l)
        print("%s: %d obligations, %d discharged, %d violations, %d undecided, %.0fs" % (self.prop, obl, dis, nviol, len(self.undecided), time.time() - self.t0))
        for u in self.undecided: print("UNDECIDED: " + u)
        if nviol: sys.exit(1)
        if self.undecided: sys.exit(2)
        sys.exit(0)
