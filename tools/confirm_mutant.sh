#!/bin/bash
# usage: confirm_mutant.sh <prop> <k> <mutant dir> <patch file>
# Confirms in a scratch copy (outside /repo and /verif): patch applies to /repo HEAD, library + tests build,
# the 3 ctest executables pass with the change, the demo fails with the change and passes without it.
prop=$1; k=$2; mdir=$3; patch=$4
work=/tmp/confirm_${prop}_m$k; rm -rf $work; mkdir -p $work
git -C /repo archive HEAD | tar -x -C $work
out=$mdir/confirm.log; : > $out
( cd $work && git init -q . && git add -A >/dev/null 2>&1 && git -c user.email=a@b -c user.name=x commit -qm base >/dev/null 2>&1
  git apply $patch || { echo "RESULT patch_applies=no" >> $out; exit 1; }
  echo "patch applies to $(git -C /repo rev-parse --short HEAD)" >> $out
  cmake -G Ninja -S . -B _build -DCMAKE_BUILD_TYPE=RelWithDebInfo > cmake.log 2>&1
  cmake --build _build -j4 -- -k 0 > build.log 2>&1
  ls _build/photospline-test _build/photospline-test-templated _build/photospline-test-fit >> $out 2>&1 || echo "test executables missing" >> $out
  (cd _build && ctest -j3 --timeout 1800 2>&1 | tail -6) >> $out
  # demo with the change
  runline=$(grep -v "^#" $mdir/run.txt | grep -m1 "g++\|gcc\|python" )
  echo "demo build/run line: $runline" >> $out
  src=$(ls $mdir/demo.* | head -1)
  wt=$(echo "$runline" | grep -o "/tmp/mut_[A-Z0-9]*" | head -1)
  cmdline=$(echo "$runline" | sed "s#$wt#$work#g")
  (cd $mdir && eval "$cmdline" > $work/demo_build.log 2>&1; ls demo > /dev/null 2>&1)
  exe=$(echo "$cmdline" | grep -o "\-o [^ ]*" | head -1 | cut -d' ' -f2); exe=${exe:-demo}
  (cd $mdir && timeout 300 ./$(basename $exe) > $work/demo_mut.out 2>&1; echo "demo with change: exit $?" >> $out; tail -2 $work/demo_mut.out >> $out)
  git checkout -q -- . 
  (cd $mdir && eval "$cmdline" > $work/demo_build2.log 2>&1; timeout 300 ./$(basename $exe) > $work/demo_base.out 2>&1; echo "demo without change: exit $?" >> $out; tail -1 $work/demo_base.out >> $out)
)
rm -rf $work
echo "done $prop m$k" >> $out
