"""One C translation unit holding every whole-function extraction of splinetable<Alloc> members (reader, writer, disk
wrappers, release/destructor, size model, fit, convolve, permuteDimensions, key store), sharing one set of member
variables, so that operation HISTORIES on one table object can be executed from CBMC's GOTO program (C20)."""
import re
from fractions import Fraction as Fr
from . import units, extract as X, gotoexec as G, e3lib as E, fitshooks as H
from specs import fitsmodel as M

EXTRA = r'''
typedef uint32_t* uint32_t_ptr; typedef uint64_t* uint64_t_ptr; typedef float* float_ptr; typedef double_ptr* double_ptr_ptr;
/* members that a parameter or local of the same name shadows are reached through constant pointers (R14) */
double*** const vp_this_knots_p = &knots; uint64_t** const vp_this_strides_p = &strides; float** const vp_this_coefficients_p = &coefficients;
#define vp_this_knots (*vp_this_knots_p)
#define vp_this_naxes (*vp_this_naxes_p)
#define vp_this_strides (*vp_this_strides_p)
#define vp_this_coefficients (*vp_this_coefficients_p)
#define vp_this_nknots nknots
#define vp_this_order order
#define vp_this_extents extents
/* fit() */
typedef long cholmod_common; typedef long cholmod_sparse;
#define CHOLMOD_REAL 1
#define no_monodim ((uint32_t)-1)
long vp_data_ptr;
bool  vp_is_sorted(const double* first, const double* last);
unsigned vp_max_element_u(const unsigned* first, const unsigned* last);
int cholmod_l_start(cholmod_common* c); int cholmod_l_finish(cholmod_common* c);
cholmod_sparse* cholmod_l_spzeros(size_t nrow, size_t ncol, size_t nzmax, int xtype, cholmod_common* c);
int cholmod_l_free_sparse(cholmod_sparse** A, cholmod_common* c);
cholmod_sparse* add_penalty_term(uint64_t* nsplines, double* knots, uint32_t ndim, uint32_t dim, uint32_t order, uint32_t porder, double scale, int mono, cholmod_sparse* penalty, cholmod_common* c);
int glamfit_complex(const long* data, const double* weights, const double* const* coords, uint32_t ndim, const uint64_t* nknots, const double* const* knots, const uint64_t* naxes,
                    float* out_coefficients, const uint32_t* order, cholmod_sparse* penalty, uint32_t monodim, int verbose, cholmod_common* c);
/* convolve() */
void  vp_sort_double(double* first, double* last);
void  vp_fill_n(void* first, size_t n, double v);
double divdiff(const double* x, const double* y, size_t n);
unsigned int factorial(unsigned int n);
double convoluted_blossom(const double* x, size_t nx, const double* y, size_t ny, double z, const double* bags, size_t nbags);
/* permuteDimensions() */
void  vp_partial_product_reverse(const uint64_t* a, size_t n, uint64_t* out);
void  vp_reverse_u64(uint64_t* first, uint64_t* last);
bool  vp_equal_u64(const uint64_t* first, const uint64_t* last, const uint64_t* other);
/* key store */
void vp_delete(void* p); int strcmp(const char*, const char*);
int vp_isupper(int); int vp_isdigit(int); int vp_islower(int);
'''

def build(workdir):
    fs = units.fits_functions()
    fa = units.free_function(units.CONVOLVE_CPP, "factorial"); dv = units.free_function(units.CONVOLVE_CPP, "divdiff"); cb = units.free_function(units.CONVOLVE_CPP, "convoluted_blossom")
    r = X.Rules()
    cb.body = r.sub("R13_vector_to_vla", r"std::vector<double>\s+fun_x\(nx\),\s*fun_y\(ny\);", "double fun_x[nx], fun_y[ny];", cb.body, must_fire=True)
    cb.body = r.sub("R13_data", r"\.data\(\)", "", cb.body, must_fire=True)
    cv = units.convolve_function(); ft = units.fit_function(); pm = units.permute_function()
    aux = [f for f in units.aux_functions() if f.name != "reservedFitsKeyword"]
    allf = list(fs.values()) + [fa, dv, cb, cv, ft, pm] + aux
    text = units.fits_prelude() + EXTRA + "".join(f.text(None) for f in allf)
    prog = G.Program.compile(text, workdir, "table")
    params = {f.name: E.param_names(f.header, f.name) for f in allf}
    return prog, params, {f.name: f for f in allf}

MEMBERS = ("order", "knots", "nknots", "extents", "periods", "coefficients", "naxes", "strides", "aux")

class Disk:
    """named files of the model: what fits_create_file / fits_open_diskfile see"""
    def __init__(self): self.files = {}

def new_object(prog, params, consts, disk, dom):
    """an interpreter holding one empty splinetable"""
    it = G.Interp(prog, dom); it.prog_params = params
    al = H.Alloc(); al.install(it); H.install_algorithms(it)
    for n in ("ndim", "naux"): it.set_global(n, 0)
    for n in MEMBERS: it.set_global(n, G.NULL)
    it.set_global("vp_thrown", 0); it.set_global("vp_sizeof_splinetable", 0); it.set_global("vp_guard_armed", False); it.set_global("vp_data_ptr", 0)
    for n, m in (("vp_this_naxes_p", "naxes"), ("vp_this_knots_p", "knots"), ("vp_this_strides_p", "strides"), ("vp_this_coefficients_p", "coefficients")): it.set_global(n, G.Ptr(it.globals[m], 0))
    # algorithms of the other units
    def h_sort(it_, a):
        f, l = a
        if f.obj is not l.obj: raise G.MemError("sort range spans objects")
        seg = f.obj.cells[f.off:l.off]
        if any(c is None for c in seg): raise G.ExecError("sort of uninitialised data")
        f.obj.cells[f.off:l.off] = sorted(seg, key=lambda v: v.num)
    def h_fill_n(it_, a):
        p, n, v = a
        if p.off < 0 or p.off + n > len(p.obj.cells): raise G.MemError("fill_n out of bounds")
        for i in range(n): p.obj.cells[p.off + i] = v
    def h_pp(it_, a):
        src, n, out = a
        vals = src.obj.cells[src.off:src.off + n]; acc = None; k = 0
        for v in list(reversed(vals))[:max(n - 1, 0)]:
            acc = v if acc is None else (acc * v) & ((1 << 64) - 1)
            if out.off + k >= len(out.obj.cells): raise G.MemError("partial_sum writes past the stride array")
            out.obj.cells[out.off + k] = acc; k += 1
    def h_rev(it_, a):
        f, l = a; seg = f.obj.cells[f.off:l.off]; f.obj.cells[f.off:l.off] = list(reversed(seg))
    def h_eq(it_, a):
        f, l, o = a; n = l.off - f.off
        return f.obj.cells[f.off:l.off] == o.obj.cells[o.off:o.off + n]
    def h_delete(it_, a):
        p = a[0]
        if p.obj is None: return None
        if not p.obj.live or p.off != 0: raise G.MemError("delete[] of a freed pointer / not the start of an array")
        p.obj.live = False
    def scmp(it_, a):
        x, y = H.cstring(a[0]), H.cstring(a[1]); return 0 if x == y else (-1 if x < y else 1)
    it.hooks.update(vp_sort_double=h_sort, vp_fill_n=h_fill_n, vp_partial_product_reverse=h_pp, vp_reverse_u64=h_rev, vp_equal_u64=h_eq, vp_delete=h_delete, strcmp=scmp,
                    vp_isupper=lambda it_, a: int(65 <= a[0] <= 90), vp_isdigit=lambda it_, a: int(48 <= a[0] <= 57), vp_islower=lambda it_, a: int(97 <= a[0] <= 122),
                    vp_is_sorted=lambda it_, a: all(a[0].obj.cells[i].num <= a[0].obj.cells[i + 1].num for i in range(a[0].off, a[1].off - 1)),
                    cholmod_l_start=lambda it_, a: 1, cholmod_l_finish=lambda it_, a: 1, cholmod_l_free_sparse=lambda it_, a: 1,
                    cholmod_l_spzeros=lambda it_, a: G.Ptr(it_.array("penalty", [0]), 0), add_penalty_term=lambda it_, a: a[8],
                    convoluted_blossom=lambda it_, a: G.FV(Fr(1, 2), Fr(1, 2)))
    def h_max(it_, a):
        if a[1].off <= a[0].off: raise G.MemError("max_element of an empty range dereferenced")
        return max(a[0].obj.cells[a[0].off:a[1].off])
    it.hooks["vp_max_element_u"] = h_max
    it.fit_result = 0
    def h_glam(it_, a):
        data, w, co, ndim_, nk, kn, na, outc, order_, pen, mono, verbose, c = a
        if it_.fit_result != 0: return it_.fit_result            # the fitter reports failure without writing coefficients
        nas = na.obj.cells[na.off:na.off + ndim_]; n = 1
        for v in nas: n *= v
        if outc.off != 0 or len(outc.obj.cells) != n: raise G.MemError("glamfit_complex: output coefficient array has %d elements, %d expected" % (len(outc.obj.cells), n))
        for k in range(n): outc.obj.cells[k] = G.FV(Fr(k % 7, 4), Fr(k % 7, 4))
        return 0
    it.hooks["glamfit_complex"] = h_glam
    # the disk
    def open_disk(it_, a):
        stp = a[-1]
        if H.rd(stp) > 0: return H.rd(stp)
        name = H.cstring(a[1]); f = disk.files.get(name)
        if f is None: H.wr(stp, 104); return 104
        H.install_cfitsio(it_, M.Session(M.clone(f)), consts); H.wr(a[0], 1); return 0
    def create_file(it_, a):
        stp = a[-1]
        if H.rd(stp) > 0: return H.rd(stp)
        name = H.cstring(a[1]); W = M.Writer(); disk.files[name] = W.f
        H.install_cfitsio_writer(it_, W, consts); H.wr(a[0], 1); return 0
    it.hooks["fits_open_diskfile"] = open_disk; it.hooks["fits_create_file"] = create_file
    return it, al
