"""Builds extracted translation units from /repo (DESIGN.md section 3)."""
import os, re
from . import extract as X
from .extract import ExtractionError

REPO = os.environ.get("VP_REPO", "/repo")
EVAL_H = "include/photospline/detail/bspline_eval.h"
MULTI_H = "include/photospline/detail/bspline_multi.h"
BSPLINE_H = "include/photospline/bspline.h"
BSPLINE_CPP = "src/core/bspline.cpp"
CONVOLVE_CPP = "src/core/convolve.cpp"

class Extracted:
    def __init__(self, name, header, body, rules, srcfile, loops):
        self.name = name; self.header = header; self.body = body
        self.rule_counts = dict(rules.counts); self.srcfile = srcfile; self.loops = loops
    def text(self, loop_contracts=None, rename=None):
        body, _ = X.insert_loop_contracts(self.body, loop_contracts, self.name)
        h = self.header
        if rename: h = re.sub(r"\b%s\b" % re.escape(self.name), rename, h, count=1)
        return h + "\n" + body + "\n"
    def info(self):
        return dict(function=self.name, file=self.srcfile, sha_extracted=X.sha(self.header + self.body),
                    rules_fired=self.rule_counts, loops=[l["header"] for l in self.loops])

def src(rel):
    return X.read(os.path.join(REPO, rel))

def common_rules(r, text):
    text = X.strip_comments(text)
    text = X.functional_casts(r, text)
    text = r.sub("R4_nullptr", r"\bnullptr\b", "NULL", text)
    return text

def member_function(rel, name, ret_c, params_c=None, must=()):
    """Extract 'template<...> RET splinetable<Alloc>::NAME(PARAMS) const {BODY}'.
    R1: template header / qualifier / trailing const dropped; members become globals."""
    s = src(rel)
    start, header, body, end = X.find_function(s, r"splinetable<Alloc>::%s\s*\(" % re.escape(name))
    r = X.Rules()
    p0 = header.index("(")
    params = header[p0:]
    params = re.sub(r"\s+", " ", X.strip_comments(params))
    if params_c is not None: params = params_c
    hdr = "%s %s%s" % (ret_c, name, params)
    r.counts["R1_member"] = 1
    body = common_rules(r, body)
    loops = X.find_loops(body)
    return Extracted(name, hdr, body, r, rel, loops)

def free_function(rel, name, must=()):
    """Extract a namespace-level function (template header stripped)."""
    s = src(rel)
    start, header, body, end = X.find_function(s, r"(?m)^[A-Za-z_][\w \t\*]*?[\s\*]%s\s*\(" % re.escape(name))
    r = X.Rules()
    hdr = re.sub(r"\s+", " ", X.strip_comments(header))
    body = common_rules(r, body)
    hdr = X.functional_casts(r, hdr)
    loops = X.find_loops(body)
    return Extracted(name, hdr, body, r, rel, loops)
