"""Builds extracted translation units from /repo (DESIGN.md section 3)."""
import os, re
from . import extract as X
from .extract import ExtractionError

REPO = os.environ.get("VP_REPO", "/repo")
EVAL_H = "include/photospline/detail/bspline_eval.h"
MULTI_H = "include/photospline/detail/bspline_multi.h"
BSPLINE_H = "include/photospline/bspline.h"
BSPLINE_CPP = "src/core/bspline.cpp"
CONVOLVE_CPP = "src/core/convolve.cpp"

class Extracted:
    def __init__(self, name, header, body, rules, srcfile, loops):
        self.name = name; self.header = header; self.body = body
        self.rule_counts = dict(rules.counts); self.srcfile = srcfile; self.loops = loops
    def text(self, loop_contracts=None, rename=None):
        body, _ = X.insert_loop_contracts(self.body, loop_contracts, self.name)
        h = self.header
        if rename: h = re.sub(r"\b%s\b" % re.escape(self.name), rename, h, count=1)
        return getattr(self, "pre", "") + h + "\n" + body + "\n"
    def info(self):
        return dict(function=self.name, file=self.srcfile, sha_extracted=X.sha(self.header + self.body),
                    rules_fired=self.rule_counts, loops=[l["header"] for l in self.loops])

def src(rel):
    return X.read(os.path.join(REPO, rel))

def common_rules(r, text):
    text = X.strip_comments(text)
    text = X.functional_casts(r, text)
    text = r.sub("R4_nullptr", r"\bnullptr\b", "NULL", text)
    return text

def member_function(rel, name, ret_c, params_c=None, must=()):
    """Extract 'template<...> RET splinetable<Alloc>::NAME(PARAMS) const {BODY}'.
    R1: template header / qualifier / trailing const dropped; members become globals."""
    s = src(rel)
    start, header, body, end = X.find_function(s, r"splinetable<Alloc>::%s\s*\(" % re.escape(name))
    r = X.Rules()
    p0 = header.index("(")
    params = header[p0:]
    params = re.sub(r"\s+", " ", X.strip_comments(params))
    if params_c is not None: params = params_c
    hdr = "%s %s%s" % (ret_c, name, params)
    r.counts["R1_member"] = 1
    body = common_rules(r, body)
    loops = X.find_loops(body)
    return Extracted(name, hdr, body, r, rel, loops)

def free_function(rel, name, must=()):
    """Extract a namespace-level function (template header stripped)."""
    s = src(rel)
    start, header, body, end = X.find_function(s, r"(?m)^[A-Za-z_][\w \t\*]*?[\s\*]%s\s*\(" % re.escape(name))
    r = X.Rules()
    hdr = re.sub(r"\s+", " ", X.strip_comments(header))
    body = common_rules(r, body)
    hdr = X.functional_casts(r, hdr)
    loops = X.find_loops(body)
    return Extracted(name, hdr, body, r, rel, loops)

# ---------------------------------------------------------------------------
# N-D evaluation cores and drivers (bspline_eval.h / bspline_multi.h)

def rewrite_index(rules, name, text, var, repl_fmt):
    """R5: `var[E]` -> repl_fmt % E   (first-level subscript of a buffer2d object)"""
    blank = X.blank_comments_and_strings(text)
    out = []; i = 0; n = 0
    pat = re.compile(r"(?<![A-Za-z0-9_.>])%s\s*\[" % re.escape(var))
    while True:
        m = pat.search(blank, i)
        if not m: out.append(text[i:]); break
        p = m.end() - 1
        q = X.match_close(blank, p, "[", "]")
        out.append(text[i:m.start()]); out.append(repl_fmt % text[p + 1:q]); i = q + 1; n += 1
    rules.counts[name] = rules.counts.get(name, 0) + n
    return "".join(out)

CORE_PARAMS = "(const int* centers, int maxdegree, Float* localbasis_buf, size_t localbasis_dim1)"

def nchunks_of(orders):
    r = 1
    for o in orders[:-1]: r *= (o + 1)
    return r

def scalar_core(name, D=None, O=None, orders=None, cname=None):
    """extract one of ndsplineeval_core / _coreD / _coreD_FixedOrder / _core_KnownOrder as C.
    Template parameters become object-like macros (R2); buffer2d becomes (pointer, row length) (R5)."""
    s = src(EVAL_H)
    start, header, body, end = X.find_function(s, r"splinetable<Alloc>::%s\s*\(" % re.escape(name))
    r = X.Rules(); r.counts["R1_member"] = 1
    if "detail::buffer2d<Float> localbasis" not in header:
        raise ExtractionError("%s: buffer2d parameter not found" % name)
    body = common_rules(r, body)
    body = rewrite_index(r, "R5_buffer2d_index", body, "localbasis", "(localbasis_buf + localbasis_dim1*(%s))")
    if r.counts["R5_buffer2d_index"] == 0: raise ExtractionError("%s: R5 did not fire" % name)
    pre = ""
    if orders is not None:
        body = r.sub("R9_sizeof_pack", r"constexpr\s+unsigned\s+int\s+D\s*=\s*sizeof\.\.\.\(Orders\);", "const unsigned int D = %d;" % len(orders), body, must_fire=True)
        body = r.sub("R9_nchunks", r"constexpr\s+uint32_t\s+nchunks\s*=\s*detail::nchunks<Orders\.\.\.>\(\);", "const uint32_t nchunks = %du;" % nchunks_of(orders), body, must_fire=True)
        body = r.sub("R9_chunk", r"constexpr\s+uint32_t\s+chunk\s*=\s*detail::chunk<Orders\.\.\.>\(\);", "const uint32_t chunk = %du;" % (orders[-1] + 1), body, must_fire=True)
    if D is not None: pre += "#define D %du\n" % D
    if O is not None: pre += "#define O %du\n" % O
    cname = cname or name
    text = pre + "double %s%s\n%s\n" % (cname, CORE_PARAMS, body)
    if D is not None: text += "#undef D\n"
    if O is not None: text += "#undef O\n"
    e = Extracted(cname, "double %s%s" % (cname, CORE_PARAMS), body, r, EVAL_H, X.find_loops(body))
    e.full_text = text
    return e

NCHUNKS_CHECK = None
def check_nchunks_templates():
    """R9 support: the Python re-implementation of detail::nchunks/chunk is only valid while the
    constexpr templates keep their shape; verify their text."""
    s = X.strip_comments(src(EVAL_H))
    a = re.search(r"constexpr unsigned int nchunks\(\)\s*\{\s*return \(O1\+1\)\*nchunks<O2, Orders\.\.\.>\(\);\s*\}", s)
    b = re.search(r"constexpr unsigned int nchunks\(\)\s*\{\s*return 1u;\s*\}", s)
    c = re.search(r"constexpr unsigned int chunk\(\)\s*\{\s*return O1\+1;\s*\}", s)
    d = re.search(r"constexpr unsigned int chunk\(\)\s*\{\s*return chunk<O2, Orders\.\.\.>\(\);\s*\}", s)
    if not (a and b and c and d): raise ExtractionError("detail::nchunks / detail::chunk templates changed: R9 transcription no longer justified")
    return True

VP_HELPERS = r'''
/* R6: *std::max_element(p, p+n) for uint32_t ranges (trusted 5-line transcription) */
static uint32_t vp_max_u32(const uint32_t* p, uint32_t n){ uint32_t m = p[0]; for (uint32_t i = 1; i < n; i++) if (m < p[i]) m = p[i]; return m; }
'''

def driver(name, evaluator=False, cname=None, ret="double", params=None, core_call=None):
    """extract a driver (ndsplineeval, operator(), ndsplineeval_deriv, and their evaluator_type twins)"""
    s = src(EVAL_H)
    qual = r"splinetable<Alloc>::evaluator_type<Float>::" if evaluator else r"splinetable<Alloc>::"
    start, header, body, end = X.find_function(s, qual + re.escape(name) + r"\s*\(")
    r = X.Rules(); r.counts["R1_member"] = 1
    body = common_rules(r, body)
    if evaluator:
        body = r.sub("R11_table_member", r"\btable\.(?=[a-z_])", "", body, must_fire=True)
    body = r.sub("R6_max_element", r"\*std::max_element\(order,\s*order\+ndim\)", "vp_max_u32(order, ndim)", body)
    body = r.sub("R5_buffer2d_decl", r"detail::buffer2d<(Float|float)>\s+localbasis\{localbasis_store,\s*maxdegree\};",
                 r"\1* localbasis_buf = localbasis_store; size_t localbasis_dim1 = maxdegree;", body)
    body = rewrite_index(r, "R5_buffer2d_index", body, "localbasis", "(localbasis_buf + localbasis_dim1*(%s))")
    if evaluator:
        body = r.sub("R11_member_ptr_call", r"\(table\.\*\(eval_ptr\)\)\(centers,\s*maxdegree,\s*localbasis\)",
                     "vp_call_core(centers, maxdegree, localbasis_buf, localbasis_dim1)", body)
        # unqualified member names inside evaluator_type resolve to the evaluator's own members
        body = r.sub("R11_evaluator_scope", r"(?<![A-Za-z0-9_])ndsplineeval\(", "ev_ndsplineeval(", body)
    body = r.sub("R5_buffer2d_pass", r"ndsplineeval_core\(centers,\s*maxdegree,\s*localbasis\)", "ndsplineeval_core(centers, maxdegree, localbasis_buf, localbasis_dim1)", body)
    body = r.sub("R1_address_deref", r"&\s*knots\[n\]\[0\]", "knots[n]", body)
    p0 = header.index("(") if name != "operator()" else header.index("(", header.index("operator()") + len("operator()"))
    prm = re.sub(r"\s+", " ", X.strip_comments(header[p0:]))
    prm = re.sub(r"\)\s*const\s*$", ")", prm)
    prm = re.sub(r"\s*=\s*0\s*\)", ")", prm)
    cname = cname or name
    hdr = "%s %s%s" % (ret, cname, params or prm)
    e = Extracted(cname, hdr, body, r, EVAL_H, X.find_loops(body))
    return e

# ---------------------------------------------------------------------------
# SIMD multibasis cores and gradient drivers (bspline_multi.h)
SIMD_H = "include/photospline/detail/simd.h"

def simd_prelude():
    """PHOTOSPLINE_MAXDIM / VECTOR_SIZE / NVECS defines copied verbatim from simd.h; R8: the one-line
    simd_vector<Float>::init transcribed (its text is checked)."""
    s = src(SIMD_H)
    defs = re.findall(r"^#define\s+PHOTOSPLINE_(?:MAXDIM|VECTOR_SIZE|NVECS)\b.*$", s, re.M)
    if len(defs) != 3: raise ExtractionError("simd.h: the three PHOTOSPLINE_* defines not found")
    if not re.search(r"static void init\(type &a, Float b\)\s*\{\s*a = b - type\{\};\s*\}", X.strip_comments(s)):
        raise ExtractionError("simd.h: simd_vector::init is no longer 'a = b - type{}' (R8 transcription out of date)")
    if not re.search(r"typedef Float type __attribute__\(\(vector_size\(PHOTOSPLINE_VECTOR_SIZE\*sizeof\(Float\)\)\)\);", s):
        raise ExtractionError("simd.h: vector typedef changed")
    return ("\n".join(defs) + "\n"
            "typedef Float VP_SIMD_T __attribute__((vector_size(PHOTOSPLINE_VECTOR_SIZE*sizeof(Float))));\n"
            "#define VP_SIMD_INIT(a, b) ((a) = (b) - (VP_SIMD_T){0})\n"
            "int vp_thrown;   /* ghost: an exception has been thrown (R7) */\n")

VCORE_PARAMS = "(const int* centers, const VP_SIMD_T*** localbasis, VP_SIMD_T* result)"

def simd_rules(r, body):
    body = r.sub("R8_simd_type", r"typename\s+detail::simd_vector<Float>::type", "VP_SIMD_T", body)
    body = r.sub("R8_simd_init", r"detail::simd_vector<Float>::init\(", "VP_SIMD_INIT(", body)
    body = r.sub("R9_vector_count", r"const unsigned int VC\s*=\s*vectorCountHelper<D>::VC;",
                 lambda m: "const unsigned int VC = (%s);" % vector_count_expr(), body)
    return body

def vector_count_expr():
    """R9: the initialiser of `vectorCountHelper<D>::VC` (a C expression in D and PHOTOSPLINE_VECTOR_SIZE) is taken verbatim
    from the header on every run and substituted where the cores read `vectorCountHelper<D>::VC`"""
    s = X.strip_comments(src(MULTI_H))
    m = re.search(r"struct vectorCountHelper\s*\{\s*static constexpr unsigned int VC\s*=\s*([^;]*?);\s*\}", s)
    if not m: raise ExtractionError("vectorCountHelper<D>::VC not found in bspline_multi.h")
    e = " ".join(m.group(1).split())
    if not re.fullmatch(r"[D0-9A-Z_ +\-*/%()?:<>=!&|]+", e): raise ExtractionError("vectorCountHelper<D>::VC: initialiser is not a plain integer expression in D: " + e)
    return e

def check_vector_count_helper():
    vector_count_expr()

def vector_core(name, D=None, O=None, orders=None, cname=None):
    s = src(MULTI_H)
    start, header, body, end = X.find_function(s, r"splinetable<Alloc>::%s\s*\(" % re.escape(name))
    r = X.Rules(); r.counts["R1_member"] = 1
    body = common_rules(r, body)
    body = simd_rules(r, body)
    if r.counts["R8_simd_type"] == 0 or r.counts["R8_simd_init"] == 0: raise ExtractionError("%s: R8 did not fire" % name)
    if orders is not None:
        body = r.sub("R9_sizeof_pack", r"constexpr\s+unsigned\s+int\s+D\s*=\s*sizeof\.\.\.\(Orders\);", "const unsigned int D = %d;" % len(orders), body, must_fire=True)
        body = r.sub("R9_nchunks", r"constexpr\s+uint32_t\s+nchunks\s*=\s*detail::nchunks<Orders\.\.\.>\(\);", "const uint32_t nchunks = %du;" % nchunks_of(orders), body, must_fire=True)
        body = r.sub("R9_chunk", r"constexpr\s+uint32_t\s+chunk\s*=\s*detail::chunk<Orders\.\.\.>\(\);", "const uint32_t chunk = %du;" % (orders[-1] + 1), body, must_fire=True)
    pre = ""
    if D is not None: pre += "#define D %du\n" % D
    if O is not None: pre += "#define Order %du\n" % O
    cname = cname or name
    text = pre + "void %s%s\n%s\n" % (cname, VCORE_PARAMS, body) + ("#undef D\n" if D is not None else "") + ("#undef Order\n" if O is not None else "")
    e = Extracted(cname, "void %s%s" % (cname, VCORE_PARAMS), body, r, MULTI_H, X.find_loops(body))
    e.full_text = text
    return e

def gradient_driver(evaluator=False, cname=None):
    s = src(MULTI_H)
    qual = r"splinetable<Alloc>::evaluator_type<Float>::" if evaluator else r"splinetable<Alloc>::"
    start, header, body, end = X.find_function(s, qual + r"ndsplineeval_gradient\s*\(")
    r = X.Rules(); r.counts["R1_member"] = 1
    body = common_rules(r, body)
    if evaluator: body = r.sub("R11_table_member", r"\btable\.(?=[a-z_])", "", body, must_fire=True)
    body = simd_rules(r, body)
    body = r.sub("R6_max_element", r"\*std::max_element\(order,\s*order\+ndim\)", "vp_max_u32(order, ndim)", body, must_fire=True)
    body = r.sub("R7_throw", r"throw\s+std::runtime_error\(.*?\);", "{ vp_thrown = 1; return; }", body, must_fire=True, flags=re.S)
    body = r.sub("R1_address_deref", r"&\*\s*knots\[n\]", "knots[n]", body, must_fire=True)
    if evaluator:
        body = r.sub("R11_member_ptr_call", r"\(table\.\*\(v_eval_ptr\)\)\(centers,\s*localbasis_ptr,\s*acc\)", "vp_call_vcore(centers, localbasis_ptr, acc)", body, must_fire=True)
    else:
        body = r.sub("R2_explicit_template_arg", r"ndsplineeval_multibasis_core<Float>\(", "ndsplineeval_multibasis_core(", body, must_fire=True)
    cname = cname or ("ev_ndsplineeval_gradient" if evaluator else "ndsplineeval_gradient")
    hdr = "void %s(const double* x, const int* centers, double* evaluates)" % cname
    return Extracted(cname, hdr, body, r, MULTI_H, X.find_loops(body))

# ---------------------------------------------------------------------------
# splinetable::convolve (convolve.h): whole-function extraction for exact (E3-rational) execution
CONVOLVE_H = "include/photospline/detail/convolve.h"
CONVOLVE_SHADOWED = ("naxes", "strides", "coefficients")     # locals of convolve() that shadow members

CONVOLVE_PRELUDE = r'''
#include <stdint.h>
#include <stddef.h>
#include <stdbool.h>
/* the class's allocator pointer typedefs (splinetable.h), for the default allocator */
typedef uint32_t* uint32_t_ptr; typedef uint64_t* uint64_t_ptr; typedef float* float_ptr; typedef double* double_ptr; typedef double_ptr* double_ptr_ptr;
/* members (R1).  convolve() declares locals called naxes/strides/coefficients; `this->X` is rewritten to vp_this_X (R14) */
uint32_t ndim; uint32_t* order; double** knots; uint64_t* nknots; double** extents;
uint64_t* vp_this_naxes; uint64_t* vp_this_strides; float* vp_this_coefficients;
#define vp_this_knots knots
#define vp_this_nknots nknots
#define vp_this_order order
#define vp_this_extents extents
/* storage primitives, implemented by the interpreter (hooks): objects are sized exactly, freed objects die */
void* vp_new(size_t elsize, size_t n);            /* new T[n]                      */
void* vp_allocate(size_t elsize, size_t n);       /* allocate<T>(n)   (allocator)  */
int vp_thrown;                                    /* ghost: an exception is propagating (R7, R31) */
bool vp_guard_armed; void release(void);          /* scope guard (R28); release() is extracted in the unified unit only */
void  vp_deallocate(void* p, size_t n);           /* deallocate(p, n) (allocator)  */
void  vp_sort_double(double* first, double* last);/* std::sort on doubles          */
void  vp_copy(const void* first, const void* last, void* out);   /* std::copy      */
void  vp_fill_n(void* first, size_t n, double v);                /* std::fill_n    */
double divdiff(const double* x, const double* y, size_t n);
unsigned int factorial(unsigned int n);
double convoluted_blossom(const double* x, size_t nx, const double* y, size_t ny, double z, const double* bags, size_t nbags);
'''

def convolve_function():
    s = src(CONVOLVE_H)
    start, header, body, end = X.find_function(s, r"splinetable<Alloc>::convolve\s*\(")
    r = X.Rules(); r.counts["R1_member"] = 1
    body = X.strip_comments(body)
    body = r.sub("R14_this", r"this->", "vp_this_", body, must_fire=True)
    body = r.sub("R15_unique_ptr_of_unique_ptr", r"std::unique_ptr<std::unique_ptr<double\[\]>\[\]>\s+(\w+)\(new std::unique_ptr<double\[\]>\[(.*?)\]\);",
                 r"double** \1 = (double**)vp_new(sizeof(double*), \2); for (uint32_t vp_i = 0; vp_i < \2; vp_i++) \1[vp_i] = NULL;", body, must_fire=True)
    body = r.sub("R15_unique_ptr_array", r"std::unique_ptr<(\w+)\[\]>\s+(\w+)\(new \1\[(.*?)\]\);", r"\1* \2 = (\1*)vp_new(sizeof(\1), \3);", body, must_fire=True)
    body = r.sub("R15_reset", r"(\w+)\[(\w+)\]\.reset\(new double\[(.*?)\]\);", r"\1[\2] = (double*)vp_new(sizeof(double), \3);", body, must_fire=True)
    body = r.sub("R15_get", r"\.get\(\)", "", body, must_fire=True)
    body = r.sub("R16_sort", r"std::sort\(", "vp_sort_double(", body, must_fire=True)
    body = r.sub("R16_copy", r"std::copy\(", "vp_copy(", body, must_fire=True)
    body = r.sub("R16_fill_n", r"std::fill_n\(", "vp_fill_n(", body, must_fire=True)
    body = r.sub("R17_allocate", r"allocate<(\w+)>\((.*?)\)(\s*[;+])", r"((\1*)vp_allocate(sizeof(\1), \2))\3", body, must_fire=True)
    body = r.sub("R17_deallocate", r"(?<![A-Za-z0-9_])deallocate\(", "vp_deallocate(", body, must_fire=True)
    body = r.sub("R3_float_literal", r"\b0\.f\b", "0.0f", body)
    body = X.functional_casts(r, body)
    body = r.sub("R4_nullptr", r"\bnullptr\b", "NULL", body)
    body = alloc_may_throw(r, body, "return;")
    body = void_scope_guard(r, body, "convolve_guard")
    for bad in ("std::", "this", "unique_ptr", "allocate<"):
        if re.search(r"(?<![A-Za-z0-9_])" + re.escape(bad), body.replace("vp_this_", "")): raise ExtractionError("convolve(): unhandled C++ construct '%s' left after the rewrite rules" % bad)
    hdr = "void convolve(const uint32_t dim, const double* conv_knots, size_t n_conv_knots)"
    return Extracted("convolve", hdr, body, r, CONVOLVE_H, X.find_loops(body))

# ---------------------------------------------------------------------------
# splinetable::fit (fit.h): whole-function extraction for exact execution with the C fitter hooked (C13, C++ half)
FIT_H = "include/photospline/detail/fit.h"
FIT_PRELUDE = r'''
#include <stdint.h>
#include <stddef.h>
#include <stdbool.h>
typedef double* double_ptr;
typedef long cholmod_common; typedef long cholmod_sparse;     /* opaque here: only passed through */
#define CHOLMOD_REAL 1
#define no_monodim ((uint32_t)-1)
/* members (R1); the parameter `knots` shadows the member, `this->knots` becomes vp_this_knots (R14) */
uint32_t ndim; uint32_t* order; double** vp_this_knots; uint64_t* nknots; double** extents; uint64_t* naxes; uint64_t* strides; float* coefficients;
int vp_thrown;                                     /* ghost: an exception has been thrown (R7) */
bool vp_guard_armed; void release(void); void vp_fill_null(void* first, void* last);   /* scope guard (R28), std::fill(..., nullptr) */
long vp_data_ptr;                                  /* stands for &data */
void* vp_new(size_t elsize, size_t n); void* vp_allocate(size_t elsize, size_t n);
void  vp_copy(const void* first, const void* last, void* out);
bool  vp_is_sorted(const double* first, const double* last);
unsigned vp_max_element_u(const unsigned* first, const unsigned* last);
int cholmod_l_start(cholmod_common* c); int cholmod_l_finish(cholmod_common* c);
cholmod_sparse* cholmod_l_spzeros(size_t nrow, size_t ncol, size_t nzmax, int xtype, cholmod_common* c);
int cholmod_l_free_sparse(cholmod_sparse** A, cholmod_common* c);
cholmod_sparse* add_penalty_term(uint64_t* nsplines, double* knots, uint32_t ndim, uint32_t dim, uint32_t order, uint32_t porder, double scale, int mono, cholmod_sparse* penalty, cholmod_common* c);
int glamfit_complex(const long* data, const double* weights, const double* const* coords, uint32_t ndim, const uint64_t* nknots, const double* const* knots, const uint64_t* naxes,
                    float* out_coefficients, const uint32_t* order, cholmod_sparse* penalty, uint32_t monodim, int verbose, cholmod_common* c);
'''
FIT_HEADER = ("void fit(size_t data_rows, size_t data_ndim, unsigned** data_i, unsigned* data_ranges, "
              "const double* weights, size_t weights_size, const double* const* coords, size_t coords_size, const size_t* coords_sizes, "
              "const uint32_t* splineOrder, size_t splineOrder_size, const double* const* knots, size_t knots_size, const size_t* knots_sizes, "
              "const double* smoothing, size_t smoothing_size, const uint32_t* penaltyOrder, size_t penaltyOrder_size, uint32_t monodim, bool verbose)")

def fit_function():
    s = src(FIT_H)
    start, header, body, end = X.find_function(s, r"splinetable<Alloc>::fit\s*\(")
    r = X.Rules(); r.counts["R1_member"] = 1
    body = X.strip_comments(body)
    body = r.sub("R19_static_assert", r"static_assert\(.*?\"\s*\);", "", body, flags=re.S)
    body = r.sub("R7_throw", r"throw\s+std::(?:logic_error|runtime_error)\(.*?\);", "{ vp_thrown = 1; return; }", body, must_fire=True, flags=re.S)
    body = r.sub("R14_this", r"this->knots", "vp_this_knots", body, must_fire=True)
    body = r.sub("R18_data_address", r"&data\b", "&vp_data_ptr", body, must_fire=True)
    body = r.sub("R18_data_member", r"\bdata\.(\w+)", r"data_\1", body, must_fire=True)
    body = r.sub("R18_inner_size", r"\bknots\[(\w+)\]\.size\(\)", r"knots_sizes[\1]", body, must_fire=True)
    body = r.sub("R18_inner_size_coords", r"\bcoords\[(\w+)\]\.size\(\)", r"coords_sizes[\1]", body)
    body = r.sub("R18_inner_begin", r"\bknots\[(\w+)\]\.begin\(\)", r"knots[\1]", body, must_fire=True)
    body = r.sub("R18_inner_end", r"\bknots\[(\w+)\]\.end\(\)", r"(knots[\1] + knots_sizes[\1])", body, must_fire=True)
    body = r.sub("R18_inner_data", r"\bcoords\[(\w+)\]\.data\(\)", r"coords[\1]", body, must_fire=True)
    body = r.sub("R18_size", r"\b(weights|coords|splineOrder|knots|smoothing|penaltyOrder)\.size\(\)", r"\1_size", body, must_fire=True)
    body = r.sub("R18_data", r"\bweights\.data\(\)", "weights", body, must_fire=True)
    body = r.sub("R18_begin_end", r"\bsplineOrder\.begin\(\),\s*splineOrder\.end\(\)", "splineOrder, splineOrder + splineOrder_size", body, must_fire=True)
    body = r.sub("R16_is_sorted", r"std::is_sorted\(", "vp_is_sorted(", body, must_fire=True)
    body = r.sub("R6_max_element", r"\*std::max_element\(", "vp_max_element_u(", body, must_fire=True)
    body = r.sub("R16_copy", r"std::copy\(", "vp_copy(", body, must_fire=True)
    body = r.sub("R15_unique_ptr_array", r"std::unique_ptr<([\w \*]+?)\[\]>\s+(\w+)\(new \1\[(.*?)\]\);", r"\1* \2 = (\1*)vp_new(sizeof(\1), \3);", body, must_fire=True)
    body = r.sub("R15_get", r"\.get\(\)", "", body, must_fire=True)
    body = r.sub("R17_allocate", r"allocate<([\w]+)>\((.*?)\)(\s*[;+])", r"((\1*)vp_allocate(sizeof(\1), \2))\3", body, must_fire=True)
    body = r.sub("R10_initializer", r"\(monodim==no_monodim\?-1:\(int\)monodim\)", "(monodim==no_monodim?(uint32_t)-1:(uint32_t)(int)monodim)", body)
    body = r.sub("R16_fill_null", r"std::fill\(([^;]*?),\s*nullptr\);", r"vp_fill_null(\1);", body)
    body = alloc_may_throw(r, body, "return;")
    body = void_scope_guard(r, body, "fit_guard")
    for bad in ("std::", "this->", "unique_ptr", "allocate<", ".size()", ".begin()", ".data()", "guard"):
        if bad in body.replace("vp_guard_armed", ""): raise ExtractionError("fit(): unhandled C++ construct '%s' left after the rewrite rules" % bad)
    return Extracted("fit", FIT_HEADER, body, r, FIT_H, X.find_loops(body))

def void_scope_guard(r, body, name):
    """R28 (void functions): `struct NAME{ splinetable& table; bool armed; ~NAME(){ if(armed) table.release(); } } guard{*this,true};`
    becomes the flag vp_guard_armed; the guard's destructor is spelled out before every later `return;` and at the end of the body"""
    m = re.search(r"struct %s\{\s*splinetable& table;\s*bool armed;\s*~%s\(\)\{\s*if\(armed\)\s*table\.release\(\);\s*\}\s*\}\s*guard\{\*this,\s*true\};" % (name, name), body)
    r.counts["R28_scope_guard"] = r.counts.get("R28_scope_guard", 0) + (1 if m else 0)
    if not m: return body
    head, tail = body[:m.start()], body[m.end():]
    tail, n = re.subn(r"(?<![A-Za-z0-9_])return;", "{ if (vp_guard_armed) release(); return; }", tail)
    tail = r.sub("R28_guard_disarm", r"\bguard\.armed\s*=\s*false;", "vp_guard_armed = false;", tail)
    k = tail.rstrip().rfind("}")
    tail = tail[:k] + "if (vp_guard_armed) release();\n" + tail[k:]
    k0 = head.index("{")
    return head[:k0 + 1] + " vp_guard_armed = false;" + head[k0 + 1:] + "vp_guard_armed = true;" + tail

# ---------------------------------------------------------------------------
# splinetable::permuteDimensions (permute.h): whole-function extraction for exact execution (C15)
PERMUTE_H = "include/photospline/detail/permute.h"
PERMUTE_PRELUDE = r'''
#include <stdint.h>
#include <stddef.h>
#include <stdbool.h>
typedef double* double_ptr;
uint32_t ndim; uint32_t* order; double** knots; uint64_t* nknots; double** extents; double* periods; uint64_t* naxes; uint64_t* strides; float* coefficients;
int vp_thrown;
void* vp_new(size_t elsize, size_t n);
void  vp_copy(const void* first, const void* last, void* out);
/* std::partial_sum(a.rbegin(), a.rend()-1, out, std::multiplies<uint64_t>()) on an array a of n elements */
void  vp_partial_product_reverse(const uint64_t* a, size_t n, uint64_t* out);
void  vp_reverse_u64(uint64_t* first, uint64_t* last);
bool  vp_equal_u64(const uint64_t* first, const uint64_t* last, const uint64_t* other);   /* std::equal */
'''

def permute_function():
    s = src(PERMUTE_H)
    start, header, body, end = X.find_function(s, r"splinetable<Alloc>::permuteDimensions\s*\(")
    r = X.Rules(); r.counts["R1_member"] = 1
    body = X.strip_comments(body)
    body = r.sub("R7_throw", r"throw\s+std::runtime_error\(.*?\);", "{ vp_thrown = 1; return; }", body, must_fire=True, flags=re.S)
    body = r.sub("R20_vector_bool", r"std::vector<bool>\s+permutation_test\(permutation\.size\(\),\s*false\);",
                 "bool permutation_test[permutation_size + 1]; for (size_t vp_i = 0; vp_i < permutation_size; vp_i++) permutation_test[vp_i] = false;", body, must_fire=True)
    body = r.sub("R20_vector_u64", r"std::vector<uint64_t>\s+t_naxes\(ndim\);", "uint64_t t_naxes[ndim + 1];", body, must_fire=True)
    body = r.sub("R18_size", r"\bpermutation(?:_test)?\.size\(\)", "permutation_size", body, must_fire=True)
    body = r.sub("R15_unique_ptr_deleter", r"std::unique_ptr<double\*\[\],void\(\*\)\(double\*\*\)>\s+t_extents\(new double\*\[ndim\],.*?\}\);", "double** t_extents = (double**)vp_new(sizeof(double*), ndim);", body, must_fire=True, flags=re.S)
    body = r.sub("R15_unique_ptr_array", r"std::unique_ptr<([\w \*]+?)\[\]>\s+(\w+)\(new \1\[(.*?)\]\);", r"\1* \2 = (\1*)vp_new(sizeof(\1), \3);", body, must_fire=True)
    body = r.sub("R15_new_array", r"=\s*new double\[(.*?)\];", r"= (double*)vp_new(sizeof(double), \1);", body, must_fire=True)
    body = r.sub("R16_partial_sum", r"std::partial_sum\(t_naxes\.rbegin\(\),\s*t_naxes\.rend\(\)-1,\s*t_strides\.get\(\)\+1,\s*std::multiplies<uint64_t>\(\)\);", "vp_partial_product_reverse(t_naxes, ndim, t_strides + 1);", body, must_fire=True)
    body = r.sub("R16_reverse", r"std::reverse\(", "vp_reverse_u64(", body, must_fire=True)
    body = r.sub("R16_equal", r"std::equal\(", "vp_equal_u64(", body)
    body = r.sub("R18_begin_end", r"t_naxes\.begin\(\),\s*t_naxes\.end\(\)", "t_naxes, t_naxes + ndim", body, must_fire=True)
    body = r.sub("R15_get", r"\.get\(\)", "", body, must_fire=True)
    body = r.sub("R16_copy", r"std::copy\(", "vp_copy(", body, must_fire=True)
    for bad in ("std::", "unique_ptr", ".size()", ".begin()", " new "):
        if bad in body: raise ExtractionError("permuteDimensions(): unhandled C++ construct '%s' left after the rewrite rules" % bad)
    hdr = "void permuteDimensions(const size_t* permutation, size_t permutation_size)"
    return Extracted("permuteDimensions", hdr, body, r, PERMUTE_H, X.find_loops(body))

# ---------------------------------------------------------------------------
# splinetable::grideval (grideval.h) + the C helpers it drives (splineutil.c): exact execution (C17)
GRIDEVAL_H = "include/photospline/detail/grideval.h"
GRIDEVAL_PRELUDE = r'''
#include <stdint.h>
#include <stddef.h>
#include <stdbool.h>
#include <assert.h>
/* only the fields the extracted code touches; cholmod objects are created by the interpreter's hooks (assumed
 * contract of cholmod: exact sparse-matrix algebra) */
typedef struct cholmod_common_struct { int status; } cholmod_common;
typedef struct cholmod_sparse_struct { size_t nrow, ncol; } cholmod_sparse;
typedef struct cholmod_dense_struct { size_t nrow, ncol; void* x; } cholmod_dense;
typedef struct cholmod_triplet_struct { size_t nrow, ncol, nzmax, nnz; void *i, *j, *x; } cholmod_triplet;
#define CHOLMOD_REAL 1
#define CHOLMOD_OK 0
struct ndsparse { size_t rows; size_t ndim; double* x; unsigned int** i; unsigned int* ranges; };
void* calloc(size_t, size_t); void* realloc(void*, size_t); void free(void*);
int cholmod_l_start(cholmod_common*); int cholmod_l_finish(cholmod_common*);
cholmod_dense* cholmod_l_allocate_dense(size_t, size_t, size_t, int, cholmod_common*); cholmod_sparse* cholmod_l_dense_to_sparse(cholmod_dense*, int, cholmod_common*);
int cholmod_l_free_dense(cholmod_dense**, cholmod_common*); int cholmod_l_free_sparse(cholmod_sparse**, cholmod_common*); int cholmod_l_free_triplet(cholmod_triplet**, cholmod_common*);
cholmod_sparse* cholmod_l_transpose(cholmod_sparse*, int, cholmod_common*); cholmod_sparse* cholmod_l_ssmult(cholmod_sparse*, cholmod_sparse*, int, int, int, cholmod_common*);
cholmod_triplet* cholmod_l_allocate_triplet(size_t, size_t, size_t, int, int, cholmod_common*); cholmod_sparse* cholmod_l_triplet_to_sparse(cholmod_triplet*, size_t, cholmod_common*);
cholmod_triplet* cholmod_l_sparse_to_triplet(cholmod_sparse*, cholmod_common*);
uint32_t ndim; uint32_t* order; double** knots; uint64_t* nknots; uint64_t* naxes; uint64_t* strides; float* coefficients;
int vp_thrown;
/* C++ class photospline::ndsparse (splinetable.h): constructor and insertEntry, implemented by the interpreter from
 * their (text-checked) definitions */
struct ndsparse* vp_ndsparse_new(size_t rows, size_t ndim);
void vp_ndsparse_insertEntry(struct ndsparse* nd, double value, unsigned int* indices);
'''

def check_ndsparse_class():
    s = X.strip_comments(src("include/photospline/splinetable.h"))
    a = re.search(r"void insertEntry\(double value, unsigned int\* indices\)\{\s*if\(!\(entriesInserted<rows\)\)\s*throw std::runtime_error\(\"[^\"]*\"\);\s*x\[entriesInserted\]=value;\s*"
                  r"for\(size_t j=0; j<ndim; j\+\+\)\{\s*i\[j\]\[entriesInserted\] = indices\[j\];\s*ranges\[j\] = std::max\(ranges\[j\],i\[j\]\[entriesInserted\]\+1\);\s*\}\s*entriesInserted\+\+;\s*\}", s)
    b = re.search(r"ndsparse\(size_t rows, size_t ndim\)\{\s*if\(!ndim\)\s*throw std::logic_error\(\"[^\"]*\"\);\s*if\(!rows\)\s*throw std::logic_error\(\"[^\"]*\"\);\s*if\(ndsparse_allocate\(this,rows,ndim\)!=0\)\s*throw std::bad_alloc\(\);\s*entriesInserted=0;\s*\}", s)
    if not (a and b): raise ExtractionError("class photospline::ndsparse (constructor / insertEntry) changed: the interpreter's implementation is out of date")

def grideval_function():
    s = src(GRIDEVAL_H)
    start, header, body, end = X.find_function(s, r"splinetable<Alloc>::grideval\s*\(")
    r = X.Rules(); r.counts["R1_member"] = 1
    body = X.strip_comments(body)
    body = r.sub("R19_static_assert", r"static_assert\(.*?\"\s*\);", "", body, must_fire=True, flags=re.S)
    body = r.sub("R19_typedef", r"typedef typename DoubleContCont::value_type DoubleCont;", "", body, must_fire=True)
    body = r.sub("R7_throw", r"throw\(std::logic_error\(.*?\)\);", "{ vp_thrown = 1; return NULL; }", body, must_fire=True, flags=re.S)
    body = r.sub("R18_size", r"\bcoords\.size\(\)", "coords_size", body, must_fire=True)
    body = r.sub("R15_unique_ptr_obj", r"std::unique_ptr<ndsparse>\s+nd\(new ndsparse\(nnz,\s*ndim\)\);", "struct ndsparse* nd = vp_ndsparse_new(nnz, ndim); if (vp_thrown) return NULL;", body, must_fire=True)
    body = r.sub("R20_vector_uint", r"std::vector<unsigned int>\s+indices\(ndim\);", "unsigned int indices[ndim + 1];", body, must_fire=True)
    body = r.sub("R21_method_call", r"nd->insertEntry\(coefficients\[i\],\s*indices\.data\(\)\);", "vp_ndsparse_insertEntry(nd, coefficients[i], indices); if (vp_thrown) return NULL;", body, must_fire=True)
    body = r.sub("R18_ref_container", r"const DoubleCont &coord_vec = coords\[i\];", "const double* coord_vec = coords[i]; size_t coord_vec_size = coords_sizes[i];", body, must_fire=True)
    body = r.sub("R18_data", r"coord_vec\.data\(\)", "coord_vec", body, must_fire=True)
    body = r.sub("R18_inner_size", r"coord_vec\.size\(\)", "coord_vec_size", body, must_fire=True)
    body = r.sub("R15_get", r"nd\.get\(\)", "nd", body, must_fire=True)
    for bad in ("std::", ".size()", ".data()", "unique_ptr"):
        if bad in body: raise ExtractionError("grideval(): unhandled C++ construct '%s' left after the rewrite rules" % bad)
    hdr = "struct ndsparse* grideval(const double* const* coords, size_t coords_size, const size_t* coords_sizes)"
    return Extracted("grideval", hdr, body, r, GRIDEVAL_H, X.find_loops(body))

# ---------------------------------------------------------------------------
# auxiliary key store (aux.h, fitsio.cpp reservedFitsKeyword): extraction for exact execution of operation histories (C16)
AUX_H = "include/photospline/detail/aux.h"
AUX_PRELUDE = r'''
#include <stdint.h>
#include <stddef.h>
#include <stdbool.h>
typedef char* char_ptr; typedef char_ptr* char_ptr_ptr; typedef char_ptr_ptr* char_ptr_ptr_ptr;
uint32_t naux; char_ptr_ptr_ptr aux;
int vp_thrown;
void* vp_new(size_t elsize, size_t n); void vp_delete(void* p); void* vp_allocate(size_t elsize, size_t n); void vp_deallocate(void* p, size_t n);
void  vp_copy(const void* first, const void* last, void* out);
size_t strlen(const char*); int strcmp(const char*, const char*); int strncmp(const char*, const char*, size_t);
int vp_isupper(int); int vp_isdigit(int); int vp_islower(int);
void vp_swap(void* a, void* b);                   /* std::swap of two objects of the same type */
size_t vp_count_char(const char* first, const char* last, int c);   /* std::count on characters */
'''

def strip_try_catch(rules, body):
    """R22: try{ BODY }catch(...){ HANDLER } -> { BODY }   (allocation failure is not modelled; the handlers only run then)"""
    n = 0
    while True:
        blank = X.blank_comments_and_strings(body)
        m = re.search(r"(?<![A-Za-z0-9_])try\s*\{", blank)
        if not m: break
        b0 = blank.index("{", m.start()); b1 = X.match_close(blank, b0, "{", "}")
        mc = re.match(r"\s*catch\s*\(\s*\.\.\.\s*\)\s*\{", blank[b1 + 1:])
        if not mc: raise ExtractionError("try without catch(...)")
        c0 = b1 + 1 + mc.end() - 1; c1 = X.match_close(blank, c0, "{", "}")
        body = body[:m.start()] + body[b0:b1 + 1] + body[c1 + 1:]; n += 1
    rules.counts["R22_try_catch"] = rules.counts.get("R22_try_catch", 0) + n
    return body

def aux_functions():
    s = src(AUX_H); out = []
    def common(r, body):
        body = X.strip_comments(body)
        # R22e: a try block whose handler is nothing but `throw std::runtime_error(...)` keeps its meaning: every allocate<T>() in it may
        # throw std::bad_alloc, the assignment does not happen and the function is left by the handler's exception (R31 form, applied below
        # once R17 has rewritten the allocations). Blocks with other handlers (clean-up code, rethrow) are stripped as before.
        marks = []
        while True:
            blank = X.blank_comments_and_strings(body); m = None
            for m_ in re.finditer(r"(?<![A-Za-z0-9_])try\s*\{", blank):
                b0 = blank.index("{", m_.start()); b1 = X.match_close(blank, b0, "{", "}")
                mc = re.match(r"\s*catch\s*\(\s*\.\.\.\s*\)\s*\{", blank[b1 + 1:])
                if not mc: raise ExtractionError("try without catch(...)")
                c0 = b1 + 1 + mc.end() - 1; c1 = X.match_close(blank, c0, "{", "}")
                if re.match(r"^\s*throw\s+std::runtime_error\([^;]*\);\s*$", body[c0 + 1:c1], re.S) and "try" not in blank[b0:b1]: m = (m_.start(), b0, b1, c1); break
            if not m: break
            k = len(marks); marks.append(k)
            body = body[:m[0]] + "{/*VP_TRY%d*/" % k + body[m[1] + 1:m[2]] + "/*VP_END%d*/}" % k + body[m[3] + 1:]
            r.counts["R22e_try_alloc_throws"] = r.counts.get("R22e_try_alloc_throws", 0) + 1
        body = strip_try_catch(r, body)
        body = r.sub("R7_throw", r"throw\s+std::runtime_error\(.*?\);", "{ vp_thrown = 1; return false; }", body, flags=re.S)
        body = r.sub("R1_address_deref", r"&\*", "", body)
        body = r.sub("R4_nullptr", r"\bnullptr\b", "NULL", body)
        body = r.sub("R15_new_array", r"new (char_ptr(?:_ptr)?)\[(.*?)\]", r"(\1*)vp_new(sizeof(\1), \2)", body)
        body = r.sub("R15_delete_array", r"delete\[\]\s*(\w+);", r"vp_delete(\1);", body)
        body = r.sub("R17_allocate", r"allocate<(\w+)>\((.*?)\)(\s*[;+])", r"((\1*)vp_allocate(sizeof(\1), \2))\3", body)
        body = r.sub("R17_deallocate", r"(?<![A-Za-z0-9_])deallocate\(", "vp_deallocate(", body)
        body = r.sub("R16_swap", r"std::swap\(([^,;]+),([^;]+)\);", r"vp_swap(&(\1), &(\2));", body)
        body = r.sub("R16_copy_n", r"std::copy_n\(([^,]+),([^,]+),([^;]+)\);", r"vp_copy(\1, (\1) + (\2), \3);", body)
        body = r.sub("R16_copy", r"std::copy\(", "vp_copy(", body)
        body = r.sub("R24_ctype", r"std::(isupper|isdigit|islower)\(", r"vp_\1(", body)
        for k in marks:
            a0 = body.index("/*VP_TRY%d*/" % k); a1 = body.index("/*VP_END%d*/" % k)
            # std::bad_alloc caught by catch(...), whose handler throws the runtime_error: vp_thrown stays set, the function is left
            inner = alloc_may_throw(r, body[a0:a1], "{ vp_thrown = 1; return false; }")
            body = body[:a0] + inner + body[a1:]
        return body
    for name, hdr, extra in (("get_aux_value", "const char* get_aux_value(const char* key)", None),
                             ("remove_key", "bool remove_key(const char* key)", None),
                             ("write_key", "bool write_key(const char* key, const char* valuedata_p, size_t valuedata_size)", "write")):
        start, header, body, end = X.find_function(s, r"splinetable<Alloc>::%s\s*\(" % name)
        r = X.Rules(); r.counts["R1_member"] = 1
        body = common(r, body)
        if extra == "write":
            # R23: the text of the value (operator<< of the value type, a library contract) is supplied as a parameter
            body = r.sub("R23_formatted_value", r"std::ostringstream ss;\s*ss << value;\s*if\(ss\.fail\(\)\)\s*return\(false\);\s*std::string valuedata=ss\.str\(\);", "", body, must_fire=True)
            body = r.sub("R16_count", r"std::count\(valuedata\.begin\(\),\s*valuedata\.end\(\),\s*('[^']*'|'\\'')\)", r"vp_count_char(valuedata_p, valuedata_p + valuedata_size, \1)", body)
            body = r.sub("R18_size", r"valuedata\.size\(\)", "valuedata_size", body, must_fire=True)
            body = r.sub("R18_begin_end", r"valuedata\.begin\(\),\s*valuedata\.end\(\)", "valuedata_p, valuedata_p + valuedata_size", body, must_fire=True)
        for bad in ("std::", "try", "catch", "throw", "allocate<"):
            if re.search(r"(?<![A-Za-z0-9_])" + re.escape(bad), body): raise ExtractionError("%s(): unhandled C++ construct '%s' left after the rewrite rules" % (name, bad))
        out.append(Extracted(name, hdr, body, r, AUX_H, X.find_loops(body)))
    rk = free_function("src/core/fitsio.cpp", "reservedFitsKeyword")
    return [rk] + out

# ---------------------------------------------------------------------------
# FITS reader / writer / size model (fitsio.h, fitsio.cpp, ~splinetable in splinetable.h): extraction for exact execution
# against a model of cfitsio supplied by the interpreter's hooks (assumed contract, cross-checked natively) - C07, C19, C06
FITSIO_H = "include/photospline/detail/fitsio.h"
FITSIO_CPP = "src/core/fitsio.cpp"
SPLINETABLE_H = "include/photospline/splinetable.h"

def cfitsio_constants():
    """the numeric constants the extracted code uses are read from the installed cfitsio header on every run"""
    h = X.read("/usr/include/fitsio.h"); out = {}
    for n in ("FLEN_KEYWORD", "FLEN_VALUE", "FLEN_CARD", "TSTRING", "TUINT", "TINT", "TFLOAT", "TDOUBLE", "FLOAT_IMG", "DOUBLE_IMG", "IMAGE_HDU", "READONLY"):
        m = re.search(r"#define\s+%s\s+(-?\d+)" % n, h)
        if not m: raise ExtractionError("cfitsio constant %s not found in /usr/include/fitsio.h" % n)
        out[n] = int(m.group(1))
    return out

def fits_prelude():
    c = cfitsio_constants()
    return ('#include <stdint.h>\n#include <stddef.h>\n#include <stdbool.h>\n#include <limits.h>\n' + "".join("#define %s %d\n" % kv for kv in sorted(c.items())) + r'''
typedef long fitsfile;                       /* opaque: only passed through to the cfitsio model */
typedef double* double_ptr; typedef char* char_ptr; typedef char_ptr* char_ptr_ptr; typedef char_ptr_ptr* char_ptr_ptr_ptr;
typedef uint32_t* uint32_t_ptr; typedef uint64_t* uint64_t_ptr; typedef float* float_ptr; typedef double_ptr* double_ptr_ptr;     /* the class's other allocator pointer typedefs */
/* members of splinetable<Alloc> (R1) */
uint32_t ndim; uint32_t* order; double** knots; uint64_t* nknots; double** extents; double* periods; float* coefficients; uint64_t* naxes; uint64_t* strides; uint32_t naux; char_ptr_ptr_ptr aux;
uint64_t** const vp_this_naxes_p = &naxes;   /* `this->naxes` where a local of the same name shadows the member (R14) */
/* the members of the OTHER object of a move (R36) */
uint32_t vp_other_ndim; uint32_t* vp_other_order; double** vp_other_knots; uint64_t* vp_other_nknots; double** vp_other_extents; double* vp_other_periods; float* vp_other_coefficients; uint64_t* vp_other_naxes; uint64_t* vp_other_strides; uint32_t vp_other_naux; char_ptr_ptr_ptr vp_other_aux;
bool vp_other_is_this; void vp_swap(void* a, void* b); void vp_swap_allocators(void);
bool vp_equal(const void* first, const void* last, const void* other);     /* std::equal */
uint64_t vp_product_u64(const uint64_t* first, const uint64_t* last);       /* std::accumulate(first,last,1ULL,multiplies<uint64_t>) */
int vp_thrown;                               /* ghost: an exception has been thrown (R7) */
bool vp_guard_armed;                         /* the `armed` member of a local scope guard (R28) */
void release(void); bool read_fits_core_body(fitsfile* fits); int vp_isfinite(double);
size_t vp_sizeof_splinetable;                /* sizeof(splinetable<Alloc>): measured natively on every run */
void* vp_new(size_t elsize, size_t n); void* vp_allocate(size_t elsize, size_t n); void vp_deallocate(void* p, size_t n);
void  vp_copy(const void* first, const void* last, void* out);
void  vp_fill(void* first, void* last, long value);                              /* std::fill on integers */
void  vp_fill_null(void* first, void* last);                                     /* std::fill(first, last, nullptr) */
void  vp_fill_n_long(void* first, size_t n, long value);
void  vp_key_name(char* out, const char* prefix, long i);                        /* ostringstream: ss << prefix << i */
void  vp_copy_reverse_long_u64(const long* a, size_t n, uint64_t* out);          /* std::copy(a.rbegin(), a.rend(), out) */
void  vp_partial_product_long_u64(const long* first, const long* last, uint64_t* out);  /* std::partial_sum(first,last,out,multiplies<uint64_t>) */
void  vp_reverse(void* first, void* last);                                       /* std::reverse */
int64_t vp_product_long_i64(const long* first, const long* last);                /* std::accumulate(first,last,(int64_t)1,multiplies<int64_t>) */
size_t strlen(const char*); int strncmp(const char*, const char*, size_t);
int snprintf(char*, size_t, const char*, ...);
/* cfitsio (assumed contract: specs/fitsmodel.py) */
int fits_open_file(fitsfile** f, const char* name, int mode, int* status); int fits_open_diskfile(fitsfile** f, const char* name, int mode, int* status);
int fits_create_file(fitsfile** f, const char* name, int* status); int fits_close_file(fitsfile* f, int* status); int fits_delete_file(fitsfile* f, int* status);
void vp_report_error(int status); int vp_remove(const char* path);
int fits_open_memfile(fitsfile** f, const char* name, int mode, void** buffer, size_t* size, size_t delta, void* reallocfn, int* status);
int fits_create_memfile(fitsfile** f, void** buffer, size_t* size, size_t delta, void* reallocfn, int* status);
void* malloc(size_t n);
bool read_fits_core(fitsfile* fits); void write_fits_core(fitsfile* fits);
int fits_get_num_hdus(fitsfile* f, int* n, int* status); int fits_movabs_hdu(fitsfile* f, int n, int* type, int* status);
int fits_get_img_dim(fitsfile* f, int* naxis, int* status); int fits_get_img_size(fitsfile* f, int maxdim, long* naxes, int* status);
int fits_get_hdrspace(fitsfile* f, int* nexist, int* nmore, int* status); int fits_read_keyn(fitsfile* f, int n, char* key, char* value, char* comm, int* status);
int fits_read_key(fitsfile* f, int type, const char* name, void* value, char* comm, int* status);
int fits_read_pix(fitsfile* f, int type, long* fpixel, long long nelem, void* nulval, void* array, int* anynul, int* status);
int fits_movnam_hdu(fitsfile* f, int type, char* extname, int extver, int* status);
int fits_create_img(fitsfile* f, int bitpix, int naxis, long* naxes, int* status);
int fits_write_pix(fitsfile* f, int type, long* fpixel, long long nelem, void* array, int* status);
int fits_write_key(fitsfile* f, int type, const char* name, void* value, const char* comm, int* status);
int fits_update_key(fitsfile* f, int type, const char* name, void* value, const char* comm, int* status);
bool reservedFitsKeyword(const char* key); uint32_t countAuxKeywords(fitsfile* fits); void readOrder(fitsfile* fits, uint32_t ndim, uint32_t* order);
''')

def replace_throws(rules, body, repl, name="R7_throw"):
    """R7: `throw EXPR;` -> repl   (the statement is located by balanced parentheses, strings blanked)"""
    n = 0
    while True:
        blank = X.blank_comments_and_strings(body)
        m = re.search(r"(?<![A-Za-z0-9_])throw\b", blank)
        if not m: break
        depth = 0; j = m.end()
        while j < len(blank):
            ch = blank[j]
            if ch == "(": depth += 1
            elif ch == ")": depth -= 1
            elif ch == ";" and depth == 0: break
            j += 1
        if j >= len(blank): raise ExtractionError("unterminated throw")
        body = body[:m.start()] + repl + body[j + 1:]; n += 1
    rules.counts[name] = rules.counts.get(name, 0) + n
    return body

def _fits_common(r, body, throw_repl):
    body = X.strip_comments(body)
    body = replace_throws(r, body, throw_repl)
    body = r.sub("R25_raii_guard", r"struct fits_cleanup\{.*?\}\s*cleanup\(fits\);", "", body, flags=re.S)
    body = r.sub("R30_report_error", r"fits_report_error\(stderr,\s*(\w+)\)", r"vp_report_error(\1)", body)
    body = r.sub("R26_ostringstream", r"std::ostringstream (\w+);\s*\1 << \"(\w+)\" << i;", r'char \1[32]; vp_key_name(\1, "\2", i);', body)
    body = r.sub("R26_str_c_str", r"const_cast<char\*>\((\w+)\.str\(\)\.c_str\(\)\)", r"\1", body)
    body = r.sub("R26_str_c_str", r"(\w+)\.str\(\)\.c_str\(\)", r"\1", body)
    body = r.sub("R26_const_cast", r"const_cast<char\*>\((\"\w+\")\)", r"(char*)\1", body)
    body = r.sub("R16_fill_null", r"std::fill\(([^;]*?),\s*nullptr\);", r"vp_fill_null(\1);", body)
    body = r.sub("R4_nullptr", r"\bnullptr\b", "NULL", body)
    body = r.sub("R17_allocate", r"allocate<(\w+)>\((.*?)\)(\s*[;+])", r"((\1*)vp_allocate(sizeof(\1), \2))\3", body)
    body = r.sub("R17_deallocate", r"(?<![A-Za-z0-9_])deallocate\(", "vp_deallocate(", body)
    body = r.sub("R16_fill", r"std::fill\(", "vp_fill(", body)
    body = r.sub("R16_copy", r"std::copy\(", "vp_copy(", body)
    body = X.functional_casts(r, body)
    return body

def file_guard(r, body):
    """R30: `struct fits_cleanup{ fitsfile* fits; fits_cleanup(fitsfile* f):fits(f){} [int close(){B1}] ~fits_cleanup(){B2} } cleanup(fits);`
    -> `vp_cleanup_fits = fits;` plus C functions vp_cleanup_close / vp_cleanup_dtor holding B1 / B2 verbatim (member `fits`
    renamed); `cleanup.close()` -> `vp_cleanup_close()`.  The caller spells the destructor out at every exit."""
    blank = X.blank_comments_and_strings(body)
    m = re.search(r"struct fits_cleanup\s*\{", blank)
    if not m: raise ExtractionError("write_fits: file guard `struct fits_cleanup` not found")
    b0 = blank.index("{", m.start()); b1 = X.match_close(blank, b0, "{", "}")
    m2 = re.match(r"\s*cleanup\(fits\);", blank[b1 + 1:])
    if not m2: raise ExtractionError("write_fits: file guard is not instantiated as `cleanup(fits)`")
    inner = body[b0 + 1:b1]; iblank = blank[b0 + 1:b1]
    if not re.search(r"fitsfile\*\s*fits;\s*fits_cleanup\(fitsfile\*\s*\w+\):fits\(\w+\)\{\}", inner): raise ExtractionError("write_fits: unexpected members / constructor in the file guard")
    def method(sig):
        mm = re.search(sig, iblank)
        if not mm: return None
        c0 = iblank.index("{", mm.start()); c1 = X.match_close(iblank, c0, "{", "}")
        return inner[c0:c1 + 1]
    dtor = method(r"~fits_cleanup\(\)\s*\{"); close = method(r"int\s+close\(\)\s*\{")
    if dtor is None: raise ExtractionError("write_fits: file guard has no destructor")
    def conv(t):
        t = re.sub(r"(?<![A-Za-z0-9_.>])fits(?![A-Za-z0-9_(])", "vp_cleanup_fits", t)
        t = re.sub(r"(?<![A-Za-z0-9_])close\(\)", "vp_cleanup_close()", t)
        t = re.sub(r"fits_report_error\(stderr,\s*(\w+)\)", r"vp_report_error(\1)", t)
        return t
    helpers = "fitsfile* vp_cleanup_fits;\n"
    if close is not None: helpers += "int vp_cleanup_close(void)\n" + conv(close) + "\n"
    helpers += "void vp_cleanup_dtor(void)\n" + conv(dtor) + "\n"
    r.counts["R30_file_guard"] = 1 + (1 if close is not None else 0)
    body = body[:m.start()] + "vp_cleanup_fits = fits;" + body[b1 + 1 + m2.end():]
    body = re.sub(r"(?<![A-Za-z0-9_])cleanup\.close\(\)", "vp_cleanup_close()", body)
    return body, helpers

def alloc_may_throw(r, body, exit_text):
    """R31: `LHS = ((T*)vp_allocate(sizeof(E), N))REST;` -> `T* vp_aK = (T*)vp_allocate(sizeof(E), N); if (vp_thrown) EXIT LHS = (vp_aK)REST;`
    allocate<T>() may throw std::bad_alloc: the assignment does not happen and the function is left by the exception exit"""
    out = []; k = r.counts.get("R31_alloc_may_throw", 0)
    pat = re.compile(r"^(?P<ind>\s*)(?P<lhs>[^=;{}]+?)\s*=\s*\(\((?P<ty>\w+\*)\)vp_allocate\(sizeof\((?P<el>\w+)\), (?P<n>.*)\)\)(?P<rest>[^;]*);\s*$")
    for line in body.split("\n"):
        if "vp_allocate(" in line:
            m = pat.match(line)
            if not m: raise ExtractionError("allocation statement of an unexpected shape: " + line.strip())
            k += 1
            line = "%s%s vp_a%d = (%s)vp_allocate(sizeof(%s), %s); if (vp_thrown) %s %s = (vp_a%d)%s;" % (m.group("ind"), m.group("ty"), k, m.group("ty"), m.group("el"), m.group("n"), exit_text, m.group("lhs").strip(), k, m.group("rest"))
        out.append(line)
    r.counts["R31_alloc_may_throw"] = k
    return "\n".join(out)

def _no_cxx_left(name, body, extra=()):
    for bad in ("std::", "this->", "unique_ptr", "allocate<", ".size()", ".begin()", ".data()", ".get()", "throw", "ostringstream") + tuple(extra):
        if re.search(r"(?<![A-Za-z0-9_])" + re.escape(bad), body): raise ExtractionError("%s(): unhandled C++ construct '%s' left after the rewrite rules" % (name, bad))

def fits_functions():
    s = src(FITSIO_H); out = {}
    # --- reader
    start, header, body, end = X.find_function(s, r"splinetable<Alloc>::read_fits_core\s*\(")
    r = X.Rules(); r.counts["R1_member"] = 1
    body = _fits_common(r, body, "{ vp_thrown = 1; return false; }")
    for rule in ("R7_throw", "R26_ostringstream", "R17_allocate"):
        if not r.counts.get(rule): raise ExtractionError("must-fire rule %s did not fire in read_fits_core" % rule)
    body = r.sub("R20_vector_long", r"std::vector<long>\s+naxes_temp\(ndim\);", "long naxes_temp[ndim + 1];", body, must_fire=True)
    body = r.sub("R20_vector_long_init", r"std::vector<long>\s+fpixel\(ndim,\s*1\);", "long fpixel[ndim + 1]; for (uint32_t vp_i = 0; vp_i < ndim; vp_i++) fpixel[vp_i] = 1;", body, must_fire=True)
    body = r.sub("R16_copy_reverse", r"vp_copy\(naxes_temp\.rbegin\(\),\s*naxes_temp\.rend\(\),\s*naxes\);", "vp_copy_reverse_long_u64(naxes_temp, ndim, naxes);", body, must_fire=True)
    body = r.sub("R16_partial_sum", r"std::partial_sum\(naxes_temp\.begin\(\),\s*naxes_temp\.end\(\)-1,\s*strides\+1,\s*std::multiplies<uint64_t>\(\)\);", "vp_partial_product_long_u64(naxes_temp, naxes_temp + ndim - 1, strides + 1);", body, must_fire=True)
    body = r.sub("R16_reverse", r"std::reverse\(", "vp_reverse(", body, must_fire=True)
    body = r.sub("R18_data", r"\b(naxes_temp|fpixel)\.data\(\)", r"\1", body, must_fire=True)
    body = r.sub("R24_isfinite", r"std::isfinite\(", "vp_isfinite(", body)
    body = alloc_may_throw(r, body, "return false;")
    # R28: a local scope guard `struct G{ splinetable& table; bool armed; ~G(){ if(armed) table.release(); } } guard{*this,true};`
    # becomes a flag; the function is emitted as NAME_body and a generated wrapper runs the guard's destructor at scope exit
    # (every return, including the early returns that stand for throws)
    body = r.sub("R28_scope_guard", r"struct read_guard\{\s*splinetable& table;\s*bool armed;\s*~read_guard\(\)\{\s*if\(armed\)\s*table\.release\(\);\s*\}\s*\}\s*guard\{\*this,\s*true\};", "vp_guard_armed = true;", body)
    body = r.sub("R28_guard_disarm", r"\bguard\.armed\s*=\s*false;", "vp_guard_armed = false;", body)
    _no_cxx_left("read_fits_core", body, extra=("read_guard", "guard."))
    if r.counts["R28_scope_guard"]:
        out["read_fits_core"] = Extracted("read_fits_core_body", "bool read_fits_core_body(fitsfile* fits)", body, r, FITSIO_H, X.find_loops(body))
        out["read_fits_core_wrapper"] = Extracted("read_fits_core", "bool read_fits_core(fitsfile* fits)", "{ vp_guard_armed = false; bool vp_r = read_fits_core_body(fits); if (vp_guard_armed) release(); return vp_r; }", X.Rules(), FITSIO_H + " (generated by R28)", [])
    else:
        out["read_fits_core"] = Extracted("read_fits_core", "bool read_fits_core(fitsfile* fits)", body, r, FITSIO_H, X.find_loops(body))
    # --- destructor
    st = src(SPLINETABLE_H)
    start, header, body, end = X.find_function(st, r"~splinetable\s*\(")
    r = X.Rules(); r.counts["R1_member"] = 1
    body = _fits_common(r, body, "{ vp_thrown = 1; return; }")
    _no_cxx_left("~splinetable", body)
    out["destructor"] = Extracted("vp_destructor", "void vp_destructor(void)", body, r, SPLINETABLE_H, X.find_loops(body))
    try: start, header, body, end = X.find_function(st, r"void\s+release\s*\(")
    except ExtractionError: body = None
    if body is not None:
        r2 = X.Rules(); r2.counts["R1_member"] = 1
        body = _fits_common(r2, body, "{ vp_thrown = 1; return; }")
        _no_cxx_left("release", body)
        out["release"] = Extracted("release", "void release(void)", body, r2, SPLINETABLE_H, X.find_loops(body))
    elif re.search(r"(?<![A-Za-z0-9_])release\(", out["destructor"].body): raise ExtractionError("~splinetable calls release() but its definition was not found")
    # --- operator== (R37): comparison with another object whose members are vp_other_*; get_ncoeffs() inlined from its definition
    try: start, header, body, end = X.find_function(st, r"bool\s+operator==\s*\(")
    except ExtractionError: body = None
    if body is not None:
        r5 = X.Rules(); r5.counts["R1_member"] = 1; body = X.strip_comments(body)
        g = re.search(r"uint64_t\s+get_ncoeffs\(\)\s*const\s*\{\s*return\(std::accumulate\(naxes,naxes\+ndim,1ULL,std::multiplies<uint64_t>\(\)\)\);\s*\}", X.strip_comments(st))
        if not g: raise ExtractionError("get_ncoeffs() is no longer the product of naxes (R37 inlines it)")
        body = r5.sub("R37_get_ncoeffs", r"other\.get_ncoeffs\(\)", "vp_product_u64(vp_other_naxes, vp_other_naxes + vp_other_ndim)", body, must_fire=True)
        body = r5.sub("R37_get_ncoeffs", r"(?<![A-Za-z0-9_.])get_ncoeffs\(\)", "vp_product_u64(naxes, naxes + ndim)", body, must_fire=True)
        body = r5.sub("R16_equal", r"std::equal\(", "vp_equal(", body, must_fire=True)
        body = r5.sub("R36_other_member", r"(?<![A-Za-z0-9_])other\.(\w+)", r"vp_other_\1", body, must_fire=True)
        _no_cxx_left("operator==", body)
        out["equals"] = Extracted("vp_equals", "bool vp_equals(void)", body, r5, SPLINETABLE_H, X.find_loops(body))
    # --- move constructor and move assignment (R36): the other object's members are a second set of variables vp_other_<member>
    MEMBERS = ("ndim", "order", "knots", "nknots", "extents", "periods", "coefficients", "naxes", "strides", "naux", "aux")
    blank = X.blank_comments_and_strings(st)
    m = re.search(r"(?<![A-Za-z0-9_~])splinetable\(splinetable&&\s*other\)\s*:", blank)
    if m:
        b0 = blank.index("{", m.end()); b1 = X.match_close(blank, b0, "{", "}")
        init = X.strip_comments(st[m.end():b0]); body = X.strip_comments(st[b0:b1 + 1]); r3 = X.Rules(); r3.counts["R1_member"] = 1
        assigns = []
        for mm in re.finditer(r"(\w+)\(((?:[^()]|\([^()]*\))*)\)\s*(?:,|$)", init.strip()):
            name, expr = mm.group(1), mm.group(2).strip()
            expr = re.sub(r"std::move\((other\.\w+)\)", r"\1", expr)
            if name == "allocator": r3.counts["R36_allocator_member"] = 1; continue          # the allocator travels with the storage: modelled by the check (ownership of the live blocks moves along)
            if name not in MEMBERS: raise ExtractionError("move constructor initialises an unknown member %s" % name)
            assigns.append("%s = %s;" % (name, expr))
        if sorted(a.split(" =")[0] for a in assigns) != sorted(MEMBERS): raise ExtractionError("move constructor does not initialise every member: %s" % assigns)
        body = r3.sub("R36_allocator_member", r"other\.allocator\s*=\s*Alloc\(\);", "", body)
        text = "{ " + " ".join(assigns) + " " + body[1:]
        text = r3.sub("R36_other_member", r"(?<![A-Za-z0-9_])other\.(\w+)", r"vp_other_\1", text, must_fire=True)
        _no_cxx_left("move constructor", text)
        out["move_construct"] = Extracted("vp_move_construct", "void vp_move_construct(void)", text, r3, SPLINETABLE_H, [])
    m = re.search(r"splinetable&\s*operator=\(splinetable&&\s*other\)\s*\{", blank)
    if m:
        b0 = blank.index("{", m.start()); b1 = X.match_close(blank, b0, "{", "}")
        body = X.strip_comments(st[b0:b1 + 1]); r4 = X.Rules(); r4.counts["R1_member"] = 1
        body = r4.sub("R36_self_test", r"if\(&other==this\)\s*return\(\*this\);", "if (vp_other_is_this) return;", body, must_fire=True)
        body = r4.sub("R36_using", r"using std::swap;", "", body)
        body = r4.sub("R36_allocator_member", r"swap\(allocator,\s*other\.allocator\);", "vp_swap_allocators();", body, must_fire=True)
        body = r4.sub("R16_swap", r"(?<![A-Za-z0-9_:])swap\((\w+),\s*other\.(\w+)\);", r"vp_swap(&\1, &vp_other_\2);", body, must_fire=True)
        body = r4.sub("R36_return_this", r"return\(\*this\);", "return;", body, must_fire=True)
        body = r4.sub("R36_other_member", r"(?<![A-Za-z0-9_])other\.(\w+)", r"vp_other_\1", body)
        _no_cxx_left("move assignment", body, extra=("swap(",) if False else ())
        out["move_assign"] = Extracted("vp_move_assign", "void vp_move_assign(void)", body, r4, SPLINETABLE_H, [])
    # --- writer
    start, header, body, end = X.find_function(s, r"splinetable<Alloc>::write_fits_core\s*\(")
    r = X.Rules(); r.counts["R1_member"] = 1
    body = _fits_common(r, body, "{ vp_thrown = 1; return; }")
    body = r.sub("R14_this", r"this->naxes", "(*vp_this_naxes_p)", body, must_fire=True)
    body = r.sub("R15_unique_ptr_array", r"std::unique_ptr<(\w+)\[\]>\s+(\w+)\(new \1\[(.*?)\]\);", r"\1* \2 = (\1*)vp_new(sizeof(\1), \3);", body, must_fire=True)
    body = r.sub("R15_get", r"\.get\(\)", "", body, must_fire=True)
    body = r.sub("R16_fill_n", r"std::fill_n\(", "vp_fill_n_long(", body, must_fire=True)
    body = r.sub("R6_numeric_limits", r"std::numeric_limits<long>::max\(\)", "LONG_MAX", body, must_fire=True)
    _no_cxx_left("write_fits_core", body)
    out["write_fits_core"] = Extracted("write_fits_core", "void write_fits_core(fitsfile* fits)", body, r, FITSIO_H, X.find_loops(body))
    # --- disk wrappers (emptiness guards, open / create); read_fits: the RAII guard that closes the file is dropped (R25);
    #     write_fits: the guard is kept, its member functions become C functions run at every exit (R30)
    for wname, hdr, ret in (("read_fits", "bool read_fits(const char* filePath)", "false"), ("write_fits", "void write_fits(const char* filePath)", "")):
        start, header, body, end = X.find_function(s, r"splinetable<Alloc>::%s\s*\(" % wname)
        r = X.Rules(); r.counts["R1_member"] = 1
        helpers = ""
        if wname == "write_fits": body, helpers = file_guard(r, X.strip_comments(body))
        body = _fits_common(r, body, "{ vp_thrown = 1; return %s; }" % ret)
        if wname == "write_fits":
            body = r.sub("R18_c_str", r"std::remove\(filePath\.c_str\(\)\)", "vp_remove(filePath)", body)
            r.counts["R25_raii_guard"] = 1
        for rule in ("R7_throw", "R25_raii_guard"):
            if not r.counts.get(rule): raise ExtractionError("must-fire rule %s did not fire in %s" % (rule, wname))
        body = r.sub("R18_c_str", r"\(\"!\"\+filePath\)\.c_str\(\)", "filePath", body)            # "!" = overwrite an existing file (modelled by the disk)
        body = r.sub("R18_c_str", r"filePath\.c_str\(\)", "filePath", body)
        body = r.sub("R29_path_argument", r"read_fits_core\(fits,\s*(?:filePath|\"[^\"]*\")\)", "read_fits_core(fits)", body)
        if wname == "write_fits":
            body = r.sub("R29_exception_exit", r"write_fits_core\(fits\);", "write_fits_core(fits); if (vp_thrown) return;", body, must_fire=True)
            # the guard's destructor runs at every exit AFTER its construction (returns, including those standing for exceptions, and the end)
            k0 = body.index("vp_cleanup_fits = fits;"); head, tail = body[:k0], body[k0:]
            tail = r.sub("R30_guard_exit", r"(?<![A-Za-z0-9_])return\s*;", "{ vp_cleanup_dtor(); return; }", tail, must_fire=True)
            k = tail.rstrip().rfind("}"); body = head + tail[:k] + "vp_cleanup_dtor();\n" + tail[k:]
        _no_cxx_left(wname, body)
        out[wname] = Extracted(wname, hdr, body, r, FITSIO_H, X.find_loops(body)); out[wname].pre = helpers
    # --- memory back end: read_fits_mem / write_fits_mem (same cores; buffer handled by the cfitsio model)
    start, header, body, end = X.find_function(s, r"splinetable<Alloc>::read_fits_mem\s*\(")
    r = X.Rules(); r.counts["R1_member"] = 1
    body = _fits_common(r, body, "{ vp_thrown = 1; return false; }")
    for rule in ("R7_throw", "R25_raii_guard"):
        if not r.counts.get(rule): raise ExtractionError("must-fire rule %s did not fire in read_fits_mem" % rule)
    body = r.sub("R30_report_error", r"fits_report_error\(stderr,\s*(\w+)\)", r"vp_report_error(\1)", body)
    body = r.sub("R29_path_argument", r"read_fits_core\(fits,\s*(?:filePath|\"[^\"]*\")\)", "read_fits_core(fits)", body, must_fire=True)
    _no_cxx_left("read_fits_mem", body)
    out["read_fits_mem"] = Extracted("read_fits_mem", "bool read_fits_mem(void* buffer, size_t buffer_size)", body, r, FITSIO_H, X.find_loops(body))
    start, header, body, end = X.find_function(s, r"splinetable<Alloc>::write_fits_mem\s*\(")
    r = X.Rules(); r.counts["R1_member"] = 1
    body = X.strip_comments(body)
    # R22c: try{ B }catch(std::exception& ex){ throw E; } -> { B }   (the handler only re-throws with another message)
    body = r.sub("R22_catch_rethrow", r"\}\s*catch\s*\(std::exception&\s*\w+\)\s*\{\s*throw\s+std::runtime_error\([^;]*\);\s*\}", "}", body, must_fire=True)
    body = r.sub("R22_catch_rethrow", r"(?<![A-Za-z0-9_])try\s*\{", "{", body, must_fire=True)
    body, helpers = file_guard(r, body)
    body = _fits_common(r, body, "{ vp_thrown = 1; return ; }")
    body = r.sub("R32_pair_return", r"return\s*\(std::make_pair\(buf,\s*memsize\)\);", "{ *vp_out_buf = buf; *vp_out_size = memsize; return ; }", body, must_fire=True)
    body = r.sub("R32_realloc_callback", r",\s*realloc,", ", NULL,", body, must_fire=True)
    body = r.sub("R29_exception_exit", r"write_fits_core\(fits\);", "write_fits_core(fits); if (vp_thrown) return ;", body, must_fire=True)
    body = r.sub("R18_c_str", r"std::string\(ex\.what\(\)\)", "", body)
    # the guard lives in the (former) try block: its destructor runs at every exit from that block and at the block's end
    k0 = body.index("vp_cleanup_fits = fits;"); head, tail = body[:k0], body[k0:]
    depth = 0; kend = None; bl = X.blank_comments_and_strings(tail)
    for kk, ch in enumerate(bl):
        if ch == "{": depth += 1
        elif ch == "}":
            if depth == 0: kend = kk; break
            depth -= 1
    if kend is None: raise ExtractionError("write_fits_mem: end of the guarded block not found")
    inner, rest = tail[:kend], tail[kend:]
    inner = r.sub("R30_guard_exit", r"(?<![A-Za-z0-9_])return\s*;", "{ vp_cleanup_dtor_mem(); return; }", inner, must_fire=True)
    body = head + inner + "vp_cleanup_dtor_mem();\n\t" + rest
    helpers = helpers.replace("vp_cleanup_dtor", "vp_cleanup_dtor_mem").replace("vp_cleanup_close", "vp_cleanup_close_mem").replace("fitsfile* vp_cleanup_fits;\n", "")
    body = body.replace("vp_cleanup_close()", "vp_cleanup_close_mem()")
    _no_cxx_left("write_fits_mem", body, extra=("make_pair", "catch", "try"))
    out["write_fits_mem"] = Extracted("write_fits_mem", "void write_fits_mem(void** vp_out_buf, size_t* vp_out_size)", body, r, FITSIO_H, X.find_loops(body)); out["write_fits_mem"].pre = helpers
    # --- size model
    start, header, body, end = X.find_function(s, r"splinetable<Alloc>::estimateMemory\s*\(")
    r = X.Rules(); r.counts["R1_member"] = 1
    body = _fits_common(r, body, "{ vp_thrown = 1; return 0; }")
    if not r.counts.get("R25_raii_guard"): raise ExtractionError("must-fire rule R25_raii_guard did not fire in estimateMemory")
    body = r.sub("R18_c_str", r"filePath\.c_str\(\)", "filePath", body, must_fire=True)
    body = r.sub("R20_vector_long", r"std::vector<long>\s+naxes\(dim\);", "long naxes[dim + 1];", body, must_fire=True)
    body = r.sub("R18_data", r"\bnaxes\.data\(\)", "naxes", body, must_fire=True)
    body = r.sub("R16_reverse", r"std::reverse\(naxes\.begin\(\),\s*naxes\.end\(\)\)", "vp_reverse(naxes, naxes + dim)", body, must_fire=True)
    body = r.sub("R20_vector_return", r"std::vector<uint32_t>\s+order\s*=\s*readOrder\(fits,\s*dim\);", "uint32_t order[dim + 1]; readOrder(fits, dim, order); if (vp_thrown) return 0;", body, must_fire=True)
    body = r.sub("R27_sizeof_class", r"sizeof\(splinetable<Alloc>\)", "vp_sizeof_splinetable", body, must_fire=True)
    body = r.sub("R16_accumulate", r"std::accumulate\(naxes\.begin\(\),\s*naxes\.end\(\),\s*\(int64_t\)1,\s*std::multiplies<int64_t>\(\)\)", "vp_product_long_i64(naxes, naxes + dim)", body, must_fire=True)
    _no_cxx_left("estimateMemory", body)
    out["estimateMemory"] = Extracted("estimateMemory", "size_t estimateMemory(const char* filePath, uint32_t n_convolution_knots, uint32_t convolution_dimension)", body, r, FITSIO_H, X.find_loops(body))
    # --- helpers in fitsio.cpp
    sc = src(FITSIO_CPP)
    start, header, body, end = X.find_function(sc, r"std::vector<uint32_t>\s+readOrder\s*\(")
    r = X.Rules()
    body = _fits_common(r, body, "{ vp_thrown = 1; return; }")
    body = r.sub("R20_vector_return", r"std::vector<uint32_t>\s+order\(ndim\);", "", body, must_fire=True)
    body = r.sub("R20_vector_return", r"return\s*\(order\);", "return;", body, must_fire=True)
    body = r.sub("R18_begin_end", r"order\.begin\(\)\+1,\s*order\.end\(\)", "order + 1, order + ndim", body, must_fire=True)
    _no_cxx_left("readOrder", body)
    out["readOrder"] = Extracted("readOrder", "void readOrder(fitsfile* fits, uint32_t ndim, uint32_t* order)", body, r, FITSIO_CPP, X.find_loops(body))
    ca = free_function(FITSIO_CPP, "countAuxKeywords"); _no_cxx_left("countAuxKeywords", ca.body); out["countAuxKeywords"] = ca
    rk = free_function(FITSIO_CPP, "reservedFitsKeyword"); _no_cxx_left("reservedFitsKeyword", rk.body); out["reservedFitsKeyword"] = rk
    return out

# ---------------------------------------------------------------------------
# C interface (src/cinter/splinetable.cpp): every wrapper extracted; the C++ operations it calls become calls of
# vp_m_<operation>(object, ...) whose contracts (returns a value / throws) are supplied by the check - C18
CINTER_CPP = "src/cinter/splinetable.cpp"
CINTER_H = "include/photospline/cinter/splinetable.h"
CINTER_SKIP = ()

def cinter_prototypes():
    h = X.strip_comments(src(CINTER_H)); out = []
    for m in re.finditer(r"(?m)^((?:const\s+)?[\w]+[\s\*]+)(\w+)\s*\(([^;{]*?)\)\s*;", h):
        out.append((m.group(2), " ".join(m.group(1).split()), " ".join(m.group(3).split())))
    return out

def may_throw(method):
    """does the C++ operation contain a throw statement or an allocation? (scan of every definition of that name in the headers)"""
    import glob
    texts = [X.strip_comments(X.read(p)) for p in sorted(glob.glob(os.path.join(REPO, "include/photospline/*.h")) + glob.glob(os.path.join(REPO, "include/photospline/detail/*.h")))]
    found = False; risky = False
    for t in texts:
        k = 0
        while True:
            try: start, header, body, end = X.find_function(t, r"(?<![A-Za-z0-9_.>])%s\s*\(" % re.escape(method), occurrence=k)
            except ExtractionError: break
            k += 1; found = True
            if re.search(r"(?<![A-Za-z0-9_])(throw|new|allocate<\w+>|std::vector|std::string|std::[io]?stringstream|std::unique_ptr|std::make_pair|malloc)(?![A-Za-z0-9_])", body): risky = True
    if not found: raise ExtractionError("C++ operation %s called by the C interface was not found in the headers" % method)
    return risky

def cinter_functions():
    s = src(CINTER_CPP); protos = cinter_prototypes(); out = []; methods = {}
    for name, ret, params in protos:
        if name in CINTER_SKIP: continue
        start, header, body, end = X.find_function(s, r"(?<![A-Za-z0-9_])%s\s*\(" % re.escape(name))
        r = X.Rules(); body = X.strip_comments(body)
        isptr = ret.endswith("*"); fail = "return(NULL);" if isptr else ("return;" if ret == "void" else "return(1);")
        body = r.sub("R34_object", r"(?:const\s+)?auto&\s+real_table\s*=\s*\*static_cast<(?:const\s+)?photospline::splinetable<>\*>\(table->data\);", "void* vp_obj = table->data;", body)
        body = r.sub("R34_object", r"auto\s+real_table\s*=\s*static_cast<photospline::splinetable<>\*>\(table->data\);\s*delete real_table;", "vp_m_destroy(table->data);", body)
        body = r.sub("R34_construct", r"new photospline::splinetable<>\(\)", "vp_m_construct()", body)
        body = r.sub("R34_construct", r"new photospline::splinetable<>\(path\)", "vp_m_construct_from(path)", body)
        body = r.sub("R20_vector", r"std::vector<size_t>\s+permutationv\(real_table\.get_ndim\(\)\);", "size_t permutationv[vp_m_get_ndim(vp_obj) + 1];", body)
        body = r.sub("R16_copy", r"std::copy\(permutation,\s*permutation\+real_table\.get_ndim\(\),\s*permutationv\.begin\(\)\);", "vp_copy(permutation, permutation + vp_m_get_ndim(vp_obj), permutationv);", body)
        body = r.sub("R18_size", r"real_table\.permuteDimensions\(permutationv\)", "vp_m_permuteDimensions(vp_obj, permutationv, vp_m_get_ndim(vp_obj))", body)
        body = r.sub("R32_pair_return", r"auto\s+result\s*=\s*real_table\.write_fits_mem\(\);\s*buffer->data\s*=\s*result\.first;\s*buffer->size\s*=\s*result\.second;", "vp_m_write_fits_mem(vp_obj, &buffer->data, &buffer->size);", body)
        # R38: array_view marshalling of splinetable_glamfit / splinetable_grideval: a view is a (pointer, length) pair
        body = r.sub("R38_using", r"using photospline::detail::array_view;", "", body)
        body = r.sub("R38_view_vector", r"std::vector<array_view<(\w+)>>\s+(\w+)\(([^;]+)\);", r"struct vp_view \2[(\3) + 1];", body)
        body = r.sub("R38_view", r"(?<![A-Za-z0-9_<])array_view<(\w+)>\s+(\w+)\(([^,;]+),\s*([^;]+)\);", r"struct vp_view \2; \2.d = (const void*)(\3); \2.s = (\4);", body)
        body = r.sub("R38_view_reset", r"(\w+)\[(\w+)\]\.reset\(([^,;]+),\s*([^;]+)\);", r"{ \1[\2].d = (const void*)(\3); \1[\2].s = (\4); }", body)
        body = r.sub("R38_fit_call", r"real_table\.fit\(\*data,\s*weightsv,\s*coordsv,\s*splineOrderv,\s*knotsv,\s*smoothingv,\s*penaltyOrderv,\s*monodim,\s*verbose\);", "vp_m_fit(vp_obj, data, &weightsv, coordsv, data->ndim, &splineOrderv, knotsv, data->ndim, &smoothingv, &penaltyOrderv, monodim, verbose);", body)
        body = r.sub("R38_grideval_call", r"auto\s+nd\s*=\s*real_table\.grideval\(coordsv\);\s*\*result\s*=\s*nd\.release\(\);", "*result = vp_m_grideval(vp_obj, coordsv, vp_m_get_ndim(vp_obj));", body)
        body = r.sub("R34_object", r"(?<![A-Za-z0-9_])delete nd;", "vp_m_destroy_ndsparse(nd);", body)
        body = r.sub("R34_call", r"real_table\.(\w+)\(\s*\)", r"vp_m_\1(vp_obj)", body)
        body = r.sub("R34_call", r"real_table\.(\w+)\(", r"vp_m_\1(vp_obj, ", body)
        body = r.sub("R3_static_cast", r"\*static_cast<((?:const\s+)?\w+)\*>\((\w+)\)", r"(*(\1*)(\2))", body)
        body = r.sub("R35_stderr", r"fprintf\(stderr,[^;]*\);", "", body)
        # R39: a function-scope owning local `std::unique_ptr<splinetable<>> NAME(static_cast<splinetable<>*>(E));` is the raw pointer E whose
        # object is destroyed when the function is left, whichever way: `void* NAME = E;` here, `vp_m_destroy(NAME)` before every
        # return that follows the declaration (after the return value has been computed) -- inserted below, once try/catch is rewritten
        owner = None
        mo = re.search(r"std::unique_ptr<photospline::splinetable<>>\s+(\w+)\(\s*static_cast<photospline::splinetable<>\*>\(([^;]+?)\)\s*\);", body)
        if mo:
            bl0 = X.blank_comments_and_strings(body[:mo.start()])
            if bl0.count("{") - bl0.count("}") != 1: raise ExtractionError("%s: owning local %s is not declared at function scope" % (name, mo.group(1)))
            owner = mo.group(1); body = body[:mo.start()] + "void* %s = %s; /*VP_OWNER*/" % (owner, mo.group(2)) + body[mo.end():]
            r.counts["R39_owning_local"] = r.counts.get("R39_owning_local", 0) + 1
            if re.search(r"(?<![A-Za-z0-9_])%s\s*(\.|->)" % re.escape(owner), body): raise ExtractionError("%s: member access on the owning local %s is not handled" % (name, owner))
        # R22d: try{ B }catch(std::exception& ex){ H1 }catch(...){ H2 }  ->  B with `if (vp_thrown) { vp_thrown = 0; H2 }` after every statement that calls a C++ operation
        while True:
            blank = X.blank_comments_and_strings(body); m = re.search(r"(?<![A-Za-z0-9_])try\s*\{", blank)
            if not m: break
            b0 = blank.index("{", m.start()); b1 = X.match_close(blank, b0, "{", "}")
            m1 = re.match(r"\s*catch\s*\(std::exception&\s*\w+\)\s*\{", blank[b1 + 1:])
            if not m1: raise ExtractionError("%s: try without catch(std::exception&)" % name)
            c0 = b1 + 1 + m1.end() - 1; c1 = X.match_close(blank, c0, "{", "}")
            m2 = re.match(r"\s*catch\s*\(\.\.\.\)\s*\{", blank[c1 + 1:])
            if not m2: raise ExtractionError("%s: try without catch(...)" % name)
            d0 = c1 + 1 + m2.end() - 1; d1 = X.match_close(blank, d0, "{", "}")
            h1 = " ".join(body[c0 + 1:c1].split()); h2 = " ".join(body[d0 + 1:d1].split())
            # every exception the operations throw (runtime_error, logic_error, bad_alloc) derives from std::exception: the first
            # handler is the one that runs; catch(...) is only reachable for foreign exceptions, which are not modelled
            handler = "if (vp_thrown) { vp_thrown = 0; %s }" % h1
            B = body[b0 + 1:b1]
            B = re.sub(r"return\s*\(\s*(vp_m_\w+\([^;]*\))\s*\);", lambda mm: "{ %s vp_r = %s; %s return(vp_r); }" % (ret, mm.group(1), handler), B)
            def after(mm): return mm.group(0) + " " + handler
            # after every statement (a `;` outside parentheses) whose text calls an operation, test the flag
            outB = []; depth = 0; stmt0 = 0; bl = X.blank_comments_and_strings(B)
            for kk, ch in enumerate(bl):
                outB.append(B[kk])
                if ch == "(": depth += 1
                elif ch == ")": depth -= 1
                elif ch in "{}" and depth == 0: stmt0 = kk + 1
                elif ch == ";" and depth == 0:
                    stmt = B[stmt0:kk + 1]; stmt0 = kk + 1
                    ma = re.match(r"^(\s*)(\*?[A-Za-z_][\w\.]*(?:->[\w\.]+)*)\s*=(?!=)\s*(.*vp_m_.*);$", stmt, re.S)
                    if ma and "vp_r =" not in stmt and "if (vp_thrown)" not in stmt:
                        # an operation that throws leaves the assignment's target as it was: the store happens only past the handler
                        del outB[len(outB) - len(stmt):]; ntmp = r.counts.get("R22_store_after_throw_test", 0); r.counts["R22_store_after_throw_test"] = ntmp + 1
                        outB.append("%s{ __typeof__(%s) vp_t%d = %s; %s %s = vp_t%d; }" % (ma.group(1), ma.group(2), ntmp, ma.group(3), handler, ma.group(2), ntmp))
                    elif "vp_m_" in stmt and "vp_r =" not in stmt and "if (vp_thrown)" not in stmt: outB.append(" " + handler)
            B = "".join(outB)
            body = body[:m.start()] + "{" + B + "}" + body[d1 + 1:]; r.counts["R22_try_catch"] = r.counts.get("R22_try_catch", 0) + 1
        if owner:
            k0 = body.index("/*VP_OWNER*/"); head, tail = body[:k0], body[k0 + len("/*VP_OWNER*/"):]
            if ret == "void":
                tail = re.sub(r"(?<![A-Za-z0-9_])return\s*;", "{ vp_m_destroy(%s); return; }" % owner, tail)
                tail = tail[:tail.rindex("}")] + " vp_m_destroy(%s); }" % owner
            else:
                tail = re.sub(r"(?<![A-Za-z0-9_])return\s*\(([^;]*)\)\s*;", lambda mm: "{ %s vp_rv = (%s); vp_m_destroy(%s); return(vp_rv); }" % (ret, mm.group(1), owner), tail)
                if re.search(r"(?<![A-Za-z0-9_])return(?!\(vp_rv\);)", tail): raise ExtractionError("%s: a return after the owning local %s has a form the rule R39 does not handle" % (name, owner))
            body = head + tail
        for bad in ("std::", "static_cast", "real_table", "auto", "try", "catch", "new ", "delete "):
            if re.search(r"(?<![A-Za-z0-9_])" + re.escape(bad), body): raise ExtractionError("%s: unhandled C++ construct '%s' left after the rewrite rules" % (name, bad))
        for mm in re.finditer(r"vp_m_(\w+)\(", body):
            meth = mm.group(1); methods.setdefault(meth, set())
            stmt_start = max(body.rfind(";", 0, mm.start()), body.rfind("{", 0, mm.start()), body.rfind("}", 0, mm.start())) + 1
            pre = body[stmt_start:mm.start()]
            if re.search(r"(return\s*\(\s*|vp_r\s*=\s*)$", pre): methods[meth].add(ret)
            elif meth == "grideval": methods[meth].add("struct ndsparse*")
        e = Extracted(name, "%s %s(%s)" % (ret, name, params), body, r, CINTER_CPP, X.find_loops(body)); e.ret = ret
        out.append(e)
    return out, methods
