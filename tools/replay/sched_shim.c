/* LD_PRELOAD schedule shim for the C12 replay: the thread that loaded the process (the coordinator)
 * sleeps after every pthread_mutex_unlock, so that all workers report (set WAIT + broadcast) before the
 * coordinator re-locks and waits - the interleaving the failed obligation describes. */
#define _GNU_SOURCE
#include <dlfcn.h>
#include <pthread.h>
#include <unistd.h>
static pthread_t main_thread; static int have_main;
__attribute__((constructor)) static void init(void) { main_thread = pthread_self(); have_main = 1; }
int pthread_mutex_unlock(pthread_mutex_t* m) {
	static int (*real)(pthread_mutex_t*);
	if (!real) real = (int (*)(pthread_mutex_t*))dlsym(RTLD_NEXT, "pthread_mutex_unlock");
	int r = real(m);
	if (have_main && pthread_equal(pthread_self(), main_thread)) usleep(20000);
	return r;
}
