// Native replay for C12: a small monotonic fit through the REAL library (fit -> glamfit_complex ->
// nnls_normal_block3 -> walk_descents with real pthreads).  Run with OMP_NUM_THREADS=<n> and, to force
// the schedule in which every worker reports before the coordinator starts waiting, with
// LD_PRELOAD=sched_shim.so (delays the main thread after each pthread_mutex_unlock).
// Prints the coefficients (for result comparison across worker counts); exit 0 when the fit returns.
#include <photospline/splinetable.h>
#include <cstdio>
#include <cmath>
int main() {
	const uint32_t dim = 1;
	std::vector<uint32_t> orders(dim, 2);
	std::vector<std::vector<double>> knots(dim), coordinates(dim);
	for (int j = 0; j < 12; j++) knots[0].push_back(-2.0 + j);
	const size_t n = 30;
	for (size_t j = 0; j < n; j++) coordinates[0].push_back(0.0 + 7.0 * j / (n - 1));
	photospline::ndsparse data(n, dim);
	std::vector<double> weights(n, 1.);
	for (size_t i = 0; i < n; i++) { unsigned idx = i; double x = coordinates[0][i]; data.insertEntry(std::sin(1.3 * x) + 0.15 * x + 0.3 * std::cos(7 * x), &idx); }
	photospline::splinetable<> spline;
	spline.fit(data, weights, coordinates, orders, knots, {1e-3}, {2}, 0 /* monotonic in dimension 0 */);
	const float* c = spline.get_coefficients();
	for (uint64_t i = 0; i < spline.get_ncoeffs(); i++) std::printf("%a ", (double)c[i]);
	std::printf("\nREPLAY: fit returned\n");
	return 0;
}
