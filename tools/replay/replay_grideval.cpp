// Native replay for C17: real splinetable::grideval (real cholmod) versus pointwise evaluation on tables with
// mixed orders and sparse coefficient arrays, grids with unsorted/repeated abscissae and points outside the range.
// exit 0 = agree (1e-5 relative), 3 = disagreement.
#include "table_factory.h"
#include <cstdlib>
#include <map>
using namespace photospline;
static int bad = 0;
static void run(std::vector<uint32_t> orders, std::vector<size_t> nks, std::vector<std::vector<double>> grid, bool sparse) {
	vp::TableSpec s; s.order = orders; size_t nd = orders.size(); size_t n = 1;
	for (size_t d = 0; d < nd; d++) { std::vector<double> k; double v = 0.3 * d; for (size_t i = 0; i < nks[d]; i++) { k.push_back(v); v += 0.5 + 0.5 * ((i + d) % 3); } s.knots.push_back(k); n *= nks[d] - orders[d] - 1; }
	for (size_t i = 0; i < n; i++) s.coefficients.push_back((sparse && i % 3 != 1) ? 0.f : (float)(0.5 + (i * 7 % 5)));
	splinetable<> t; vp::build(t, s);
	for (size_t d = 0; d < nd; d++) for (auto& g : grid[d]) g = s.knots[d].front() + g * (s.knots[d].back() - s.knots[d].front());
	auto res = t.grideval(grid);
	std::map<std::vector<unsigned>, double> listed;
	for (size_t r = 0; r < res->rows; r++) { std::vector<unsigned> idx; for (size_t d = 0; d < nd; d++) idx.push_back(res->i[d][r]); listed[idx] = res->x[r]; }
	for (size_t d = 0; d < nd; d++) if (res->ranges[d] != grid[d].size()) { std::printf("range of dimension %zu is %u, grid length %zu\n", d, res->ranges[d], grid[d].size()); bad = 1; }
	std::vector<unsigned> idx(nd, 0);
	while (true) {
		std::vector<double> x(nd); std::vector<int> c(nd); bool strictly_inside = true;
		for (size_t d = 0; d < nd; d++) { x[d] = grid[d][idx[d]]; if (!(x[d] > s.knots[d].front() && x[d] < s.knots[d].back())) strictly_inside = false; }
		double got = listed.count(idx) ? listed[idx] : 0.0;
		if (strictly_inside && t.searchcenters(x.data(), c.data())) {
			double want = t.ndsplineeval<double>(x.data(), c.data(), 0);
			if (std::fabs(got - want) > 1e-5 * (1 + std::fabs(want))) { std::printf("grid point"); for (auto v : x) std::printf(" %g", v); std::printf(": grideval %g, pointwise %g\n", got, want); bad = 1; }
		}
		size_t d = 0; while (d < nd && ++idx[d] == grid[d].size()) { idx[d] = 0; d++; }
		if (d == nd) break;
	}
}
int main() {
	run({2}, {7}, {{0.15, 0.55, 0.4}}, false);
	run({1}, {6}, {{0.75, 0.1, 0.5, 0.1}}, true);
	run({2}, {8}, {{-0.3, 0.33, 1.3, 0.66}}, false);
	run({1, 2}, {5, 7}, {{0.15, 0.55, 0.4}, {0.37}}, true);
	run({0, 2}, {4, 7}, {{0.75, 0.1, 0.5, 0.1}, {0.15, 0.55, 0.4}}, true);
	run({1, 0, 2}, {5, 3, 6}, {{0.15, 0.55}, {0.37}, {-0.3, 0.33, 1.3, 0.66}}, true);
	std::printf(bad ? "REPLAY: VIOLATION CONFIRMED\n" : "REPLAY: no violation observed\n");
	return bad ? 3 : 0;
}
