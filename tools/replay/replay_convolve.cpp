// Native replay for C14: convolve an all-ones 1-D table (partition of unity => the convolution with a
// unit-area kernel is 1 in the interior) through the REAL splinetable::convolve and evaluate it.
// usage: replay_convolve <order>      exit 0 if the interior value is +1 (1e-4), 3 otherwise
#include "table_factory.h"
#include <cstdlib>
using namespace photospline;
int main(int argc, char** argv) {
	int order = argc > 1 ? atoi(argv[1]) : 2;
	vp::TableSpec s; s.order = { (uint32_t)order };
	std::vector<double> k; for (int i = 0; i < 2*order + 12; i++) k.push_back(i * 1.0 + 0.25 * (i % 3)); s.knots.push_back(k);
	size_t na = k.size() - order - 1; s.coefficients.assign(na, 1.0f);
	splinetable<> t; vp::build(t, s);
	// extents are needed by convolve()
	t.extents = t.allocate<double*>(1); t.extents[0] = t.allocate<double>(2); t.extents[0][0] = k[order]; t.extents[0][1] = k[na];
	double kernel[3] = { -0.4, 0.1, 0.7 };
	t.convolve(0, kernel, 3);
	double x = 0.5 * (k.front() + k.back()); int c;
	if (!t.searchcenters(&x, &c)) { std::printf("lookup failed\n"); return 2; }
	double v = t.ndsplineeval(&x, &c, 0);
	std::printf("order %d: convolved all-ones table at x=%g evaluates to %.9g (expected 1)\n", order, x, v);
	bool ok = std::fabs(v - 1.0) < 1e-4;
	std::printf(ok ? "REPLAY: no violation observed\n" : "REPLAY: VIOLATION CONFIRMED\n");
	return ok ? 0 : 3;
}
