/* Native replay for C18 (plain C, linked against the real C interface):
 *   replay_cinter gradient <8-d table.fits>   calls ndsplineeval_gradient on a table with more dimensions than the SIMD layout serves
 *   replay_cinter readkey  <table.fits>       reads a key that does not exist and prints the status
 * An exception escaping the extern "C" wrapper terminates the process (abort). */
#include <photospline/cinter/splinetable.h>
#include <stdio.h>
#include <string.h>
#include <stdlib.h>
int main(int argc, char** argv){
	if(argc < 3) return 2;
	struct splinetable t; t.data = NULL;
	if(readsplinefitstable(argv[2], &t) != 0){ printf("could not read %s\n", argv[2]); return 2; }
	if(!strcmp(argv[1], "gradient")){
		uint32_t nd = splinetable_ndim(&t); double x[16]; int c[16]; double out[17];
		for(uint32_t d = 0; d < nd; d++) x[d] = 0.5*(splinetable_lower_extent(&t, d) + splinetable_upper_extent(&t, d));
		printf("ndim = %u, lookup %s\n", nd, tablesearchcenters(&t, x, c) ? "succeeded" : "failed"); fflush(stdout);
		ndsplineeval_gradient(&t, x, c, out);
		printf("ndsplineeval_gradient returned; value lane %g\n", out[0]);
	}else{
		int v = -12345; int st = splinetable_read_key(&t, SPLINETABLE_INT, "NOSUCHKEY", &v);
		printf("splinetable_read_key of a missing key: status %d, result %s\n", st, v == -12345 ? "untouched" : "written");
		splinetable_free(&t); return st == 0 ? 1 : 0;
	}
	splinetable_free(&t);
	return 0;
}
