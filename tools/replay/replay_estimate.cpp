// Native replay for C19: reads <file> into a splinetable whose allocator counts the bytes requested from it, optionally
// convolves dimension <dim> with a kernel of <n> knots, and prints estimateMemory next to the measured peak.
//   replay_estimate <file> <n_conv_knots> <dim>
#include <photospline/splinetable.h>
#include <cstdio>
#include <map>
#include <vector>

struct Counter{ static size_t cur, peak; static std::map<void*,size_t> live; static unsigned mismatches; };
size_t Counter::cur=0, Counter::peak=0; std::map<void*,size_t> Counter::live; unsigned Counter::mismatches=0;

template<class T> struct CountingAlloc{
	typedef T value_type;
	CountingAlloc(){}
	template<class U> CountingAlloc(const CountingAlloc<U>&){}
	template<class U> struct rebind{ typedef CountingAlloc<U> other; };
	T* allocate(size_t n){
		size_t b=n*sizeof(T); void* p=::operator new(b?b:1);
		Counter::live[p]=b; Counter::cur+=b; if(Counter::cur>Counter::peak) Counter::peak=Counter::cur;
		return static_cast<T*>(p);
	}
	void deallocate(T* p, size_t n){
		auto it=Counter::live.find(p);
		if(it==Counter::live.end()){ Counter::mismatches++; return; }
		if(it->second!=n*sizeof(T)) Counter::mismatches++;
		Counter::cur-=it->second; Counter::live.erase(it); ::operator delete(p);
	}
	template<class U> bool operator==(const CountingAlloc<U>&) const{ return true; }
	template<class U> bool operator!=(const CountingAlloc<U>&) const{ return false; }
};
template<> struct CountingAlloc<void>{
	typedef void value_type;
	CountingAlloc(){}
	template<class U> CountingAlloc(const CountingAlloc<U>&){}
	template<class U> struct rebind{ typedef CountingAlloc<U> other; };
};

int main(int argc, char** argv){
	if(argc<4) return 2;
	typedef photospline::splinetable<CountingAlloc<void>> table_t;
	unsigned n=atoi(argv[2]), dim=atoi(argv[3]);
	size_t est=table_t::estimateMemory(argv[1], n, dim);
	size_t peak_read=0, peak_conv=0;
	{
		table_t t(argv[1]);
		peak_read=Counter::peak;
		if(n>1){
			std::vector<double> k(n); for(unsigned i=0;i<n;i++) k[i]=-0.5+i*(1.0/(n-1))+0.01*i*i;
			t.convolve(dim,k.data(),n);
		}
		peak_conv=Counter::peak;
	}
	printf("{\"estimate\": %zu, \"sizeof\": %zu, \"peak_read\": %zu, \"peak\": %zu, \"leaked\": %zu, \"size_mismatches\": %u}\n", est, sizeof(table_t), peak_read, peak_conv, Counter::cur, Counter::mismatches);
	return 0;
}
