/* replay of a C11 violation against the real solvers: replay_nnls <solver> <n> <n*n entries of A, row major> <n entries of b>
 * (numbers as p/q or decimals).  Prints the returned vector and the Karush-Kuhn-Tucker residuals in double arithmetic;
 * exit 1 when the conditions are violated beyond 1e-6 * (1 + max|b|), 0 otherwise, 3 on usage errors. */
#include <cholmod.h>
#include <stdio.h>
#include <stdlib.h>
#include <string.h>
#include <math.h>
#include "photospline/detail/splineutil.h"
static double num(const char* s) { const char* sl = strchr(s, '/'); return sl ? atof(s) / atof(sl + 1) : atof(s); }
static int batch(const char* path);
int main(int argc, char** argv) {
	if (argc == 3 && !strcmp(argv[1], "--batch")) return batch(argv[2]);
	if (argc < 3) return 3;
	int n = atoi(argv[2]); if (n < 1 || argc != 3 + n * n + n) return 3;
	cholmod_common c; cholmod_l_start(&c);
	double* A = malloc(sizeof(double) * n * n), *b = malloc(sizeof(double) * n);
	for (int i = 0; i < n * n; i++) A[i] = num(argv[3 + i]);
	for (int i = 0; i < n; i++) b[i] = num(argv[3 + n * n + i]);
	cholmod_triplet* T = cholmod_l_allocate_triplet(n, n, n * n, 0, CHOLMOD_REAL, &c); T->nnz = 0;
	for (int i = 0; i < n; i++) for (int j = 0; j < n; j++) if (A[i * n + j] != 0) {
		((long*)T->i)[T->nnz] = i; ((long*)T->j)[T->nnz] = j; ((double*)T->x)[T->nnz] = A[i * n + j]; T->nnz++; }
	cholmod_sparse* S = cholmod_l_triplet_to_sparse(T, 0, &c); cholmod_l_free_triplet(&T, &c);
	cholmod_dense* B = cholmod_l_allocate_dense(n, 1, n, CHOLMOD_REAL, &c);
	for (int i = 0; i < n; i++) ((double*)B->x)[i] = b[i];
	cholmod_dense* x = NULL;
	if (!strcmp(argv[1], "nnls_normal_block3")) x = nnls_normal_block3(S, B, getenv("VERB") != NULL, &c);
	else if (!strcmp(argv[1], "nnls_normal_block")) x = nnls_normal_block(S, B, 0, &c);
	else if (!strcmp(argv[1], "nnls_normal_block_updown")) x = nnls_normal_block_updown(S, B, 0, &c);
	else if (!strcmp(argv[1], "nnls_lawson_hanson")) x = nnls_lawson_hanson(S, B, 1e-9, 0, 0, 0, 1, 0, &c);
	else return 3;
	if (!x) { printf("solver returned NULL\n"); return 1; }
	double* xv = (double*)x->x, scale = 1; int bad = 0;
	for (int i = 0; i < n; i++) if (fabs(b[i]) > scale) scale = fabs(b[i]);
	printf("x ="); for (int i = 0; i < n; i++) printf(" %.12g", xv[i]); printf("\ngradient =");
	for (int i = 0; i < n; i++) { double g = -b[i]; for (int j = 0; j < n; j++) g += A[i * n + j] * xv[j]; printf(" %.6g", g);
		if (xv[i] < -1e-6 || (xv[i] > 1e-6 && fabs(g) > 1e-6 * scale) || (xv[i] <= 1e-6 && g < -1e-6 * scale)) bad++; }
	printf("\n%s\n", bad ? "KKT VIOLATED" : "KKT satisfied");
	return bad ? 1 : 0;
}

/* batch mode: one system per line "<solver> <n> <A row major> <b>"; prints "x <values>" per line (or "NULL") */
static int batch(const char* path) {
	FILE* f = fopen(path, "r"); if (!f) return 3;
	cholmod_common c; cholmod_l_start(&c);
	char solver[64]; int n;
	while (fscanf(f, "%63s %d", solver, &n) == 2) {
		double A[64 * 64], b[64]; char tok[256];
		if (n < 1 || n > 64) return 3;
		for (int i = 0; i < n * n; i++) { if (fscanf(f, "%255s", tok) != 1) return 3; A[i] = num(tok); }
		for (int i = 0; i < n; i++) { if (fscanf(f, "%255s", tok) != 1) return 3; b[i] = num(tok); }
		cholmod_triplet* T = cholmod_l_allocate_triplet(n, n, n * n, 0, CHOLMOD_REAL, &c); T->nnz = 0;
		for (int i = 0; i < n; i++) for (int j = 0; j < n; j++) if (A[i * n + j] != 0) {
			((long*)T->i)[T->nnz] = i; ((long*)T->j)[T->nnz] = j; ((double*)T->x)[T->nnz] = A[i * n + j]; T->nnz++; }
		cholmod_sparse* S = cholmod_l_triplet_to_sparse(T, 0, &c); cholmod_l_free_triplet(&T, &c);
		cholmod_dense* B = cholmod_l_allocate_dense(n, 1, n, CHOLMOD_REAL, &c);
		for (int i = 0; i < n; i++) ((double*)B->x)[i] = b[i];
		cholmod_dense* x = !strcmp(solver, "nnls_normal_block3") ? nnls_normal_block3(S, B, 0, &c) : !strcmp(solver, "nnls_normal_block") ? nnls_normal_block(S, B, 0, &c) : !strcmp(solver, "nnls_lawson_hanson") ? nnls_lawson_hanson(S, B, 1e-9, 0, 0, 0, 1, 0, &c) : nnls_normal_block_updown(S, B, 0, &c);
		if (!x) printf("NULL\n"); else { printf("x"); for (int i = 0; i < n; i++) printf(" %.17g", ((double*)x->x)[i]); printf("\n"); cholmod_l_free_dense(&x, &c); }
		cholmod_l_free_sparse(&S, &c); cholmod_l_free_dense(&B, &c);
	}
	fclose(f); return 0;
}
