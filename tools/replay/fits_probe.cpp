// Native side of the FITS checks (C07 / C19 / C06):
//   fits_probe cfitsio <file>   dumps what the installed cfitsio answers to the queries photospline's reader issues
//                               (compared with specs/fitsmodel.py: conformance of the assumed contract)
//   fits_probe read <file>      reads the file with the real library and reports failure or the table's shape, then
//                               evaluates / re-serialises it and lets the destructor run (replay; built with ASan/UBSan)
//   fits_probe rewrite <in> <out>   reads <in> with the library and writes it back with the library (C06 conformance)
//   fits_probe estimate <file> <n_conv_knots> <dim>   prints estimateMemory and sizeof(splinetable<>)
#include <photospline/splinetable.h>
#include <cstdio>
#include <cstring>
#include <cmath>
#include <string>
#include <vector>

static void jstr(const char* s){ putchar('"'); for(; *s; s++){ if(*s=='"'||*s=='\\') putchar('\\'); putchar(*s);} putchar('"'); }

static int probe(const char* path){
	fitsfile* f; int st=0;
	fits_open_diskfile(&f, path, READONLY, &st);
	if(st){ printf("{\"open\": %d}\n", st); return 0; }
	int nh=0, type=-1; fits_get_num_hdus(f,&nh,&st); fits_movabs_hdu(f,1,&type,&st);
	int naxis=-1; fits_get_img_dim(f,&naxis,&st);
	printf("{\"open\": 0, \"nhdus\": %d, \"type\": %d, \"naxis\": %d, \"status0\": %d", nh, type, naxis, st);
	if(st||naxis<0||naxis>20){ printf("}\n"); return 0; }
	std::vector<long> ax(naxis+1,-7); fits_get_img_size(f,naxis,ax.data(),&st);
	printf(", \"naxes\": ["); for(int i=0;i<naxis;i++) printf("%s%ld", i?", ":"", ax[i]); printf("]");
	int nkeys=0; fits_get_hdrspace(f,&nkeys,NULL,&st);
	printf(", \"nkeys\": %d, \"keys\": [", nkeys);
	for(int j=1;j<=nkeys;j++){
		char key[FLEN_KEYWORD]="", val[FLEN_VALUE]=""; int e=0; fits_read_keyn(f,j,key,val,NULL,&e);
		printf("%s[%d, ", j>1?", ":"", e); jstr(e?"":key); printf(", "); jstr(e?"":val); printf("]");
	}
	printf("]");
	{ int e=0; int v=-7; fits_read_key(f,TINT,"ORDER",&v,NULL,&e); printf(", \"ORDER\": [%d, %d]", e, e?0:v); }
	printf(", \"ORDERn\": [");
	for(int i=0;i<naxis;i++){ int e=0; unsigned v=7; std::string k="ORDER"+std::to_string(i); fits_read_key(f,TUINT,k.c_str(),&v,NULL,&e); printf("%s[%d, %u]", i?", ":"", e, e?0u:v); }
	printf("], \"PERIODn\": [");
	for(int i=0;i<naxis;i++){ int e=0; double v=7; std::string k="PERIOD"+std::to_string(i); fits_read_key(f,TDOUBLE,k.c_str(),&v,NULL,&e); printf("%s[%d, \"%.17g\"]", i?", ":"", e, e?0.0:v); }
	printf("]");
	{ long long np=1; for(int i=0;i<naxis;i++) np*=ax[i]; std::vector<long> fp(naxis+1,1);
	  if(np>=0 && np<2000000){ std::vector<float> buf(np+2); int e=0; fits_read_pix(f,TFLOAT,fp.data(),np,NULL,buf.data(),NULL,&e); int e2=0; fits_read_pix(f,TFLOAT,fp.data(),np+1,NULL,buf.data(),NULL,&e2);
	    printf(", \"pix\": [%d, %d]", e, e2); } }
	printf(", \"ext\": [");
	for(int i=0;i<=naxis;i++){
		int e=0; std::string k = i<naxis ? "KNOTS"+std::to_string(i) : std::string("EXTENTS");
		fits_movnam_hdu(f,IMAGE_HDU,const_cast<char*>(k.c_str()),0,&e); int num=0; fits_get_hdu_num(f,&num);
		long n=-7; int e1=e; fits_get_img_size(f,1,&n,&e1);
		int nax=1; { int ee=e; fits_get_img_dim(f,&nax,&ee); if(ee||nax<1) nax=1; }
		std::vector<long> fp(nax,1);   // cfitsio reads one first-pixel coordinate per image axis
		int e2=e1; if(!e2 && n>0 && n<1000000){ std::vector<double> b(n+1); fits_read_pix(f,TDOUBLE,fp.data(),n,NULL,b.data(),NULL,&e2); }
		int e3=e1; if(!e3 && n>=0 && n<1000000){ std::vector<double> b(n+2); fits_read_pix(f,TDOUBLE,fp.data(),n+1,NULL,b.data(),NULL,&e3); }
		printf("%s[%d, %d, %ld, %d, %d]", i?", ":"", e, num, e1?-7:n, e2, e3);
	}
	printf("]}\n");
	st=0; fits_close_file(f,&st);
	return 0;
}

static int readit(const char* path){
	using namespace photospline;
	{
		splinetable<> t;
		bool failed=false;
		try{ t.read_fits(path); }catch(std::exception& ex){ failed=true; printf("{\"failed\": true, \"what\": "); jstr(ex.what()); printf(", \"ndim_after\": %u}\n", t.get_ndim()); }
		fflush(stdout);
		if(!failed){
			uint32_t nd=t.get_ndim();
			printf("{\"failed\": false, \"ndim\": %u, \"order\": [", nd);
			for(uint32_t i=0;i<nd;i++) printf("%s%u", i?", ":"", t.get_order(i));
			printf("], \"nknots\": ["); for(uint32_t i=0;i<nd;i++) printf("%s%llu", i?", ":"", (unsigned long long)t.get_nknots(i));
			printf("], \"naxes\": ["); for(uint32_t i=0;i<nd;i++) printf("%s%llu", i?", ":"", (unsigned long long)t.get_ncoeffs(i));
			printf("], \"strides\": ["); for(uint32_t i=0;i<nd;i++) printf("%s%llu", i?", ":"", (unsigned long long)t.get_stride(i));
			printf("], \"naux\": %u, \"aux\": [", (unsigned)t.get_naux_values());
			for(size_t i=0;i<t.get_naux_values();i++){ printf("%s[", i?", ":""); jstr(t.get_aux_key(i)); printf(", "); jstr(t.get_aux_value(t.get_aux_key(i))); printf("]"); }
			printf("]}\n");
			fflush(stdout);
			// battery: lookup + evaluation in the middle of the extent, comparison, re-serialisation
			std::vector<double> x(nd); std::vector<int> c(nd);
			for(uint32_t i=0;i<nd;i++) x[i]=0.5*(t.lower_extent(i)+t.upper_extent(i));
			if(t.searchcenters(x.data(),c.data())){ double v=t.ndsplineeval(x.data(),c.data(),0); printf("{\"eval\": \"%.17g\"}\n", v); }
			else printf("{\"eval\": \"outside\"}\n");
			fflush(stdout);
			bool eq=(t==t); auto buf=t.write_fits_mem(); printf("{\"equal_self\": %s, \"rewritten_bytes\": %zu}\n", eq?"true":"false", buf.second); free(buf.first);
			fflush(stdout);
		}
	}
	printf("{\"destroyed\": true}\n");
	return 0;
}

int main(int argc, char** argv){
	if(argc>=3 && !strcmp(argv[1],"cfitsio")) return probe(argv[2]);
	if(argc>=3 && !strcmp(argv[1],"read")) return readit(argv[2]);
	if(argc>=3 && !strcmp(argv[1],"dump")){   // every number of the table as the real library reads it (%.17g is exact for doubles, %.9g for floats)
		try{ photospline::splinetable<> t(argv[2]); uint32_t nd=t.get_ndim();
			printf("{\"ndim\": %u, \"order\": [", nd); for(uint32_t d=0;d<nd;d++) printf("%s%u", d?", ":"", t.get_order(d));
			printf("], \"knots\": ["); for(uint32_t d=0;d<nd;d++){ printf("%s[", d?", ":""); for(uint64_t k=0;k<t.get_nknots(d);k++) printf("%s\"%.17g\"", k?", ":"", t.get_knot(d,k)); printf("]"); }
			printf("], \"naxes\": ["); for(uint32_t d=0;d<nd;d++) printf("%s%llu", d?", ":"", (unsigned long long)t.get_ncoeffs(d));
			printf("], \"strides\": ["); for(uint32_t d=0;d<nd;d++) printf("%s%llu", d?", ":"", (unsigned long long)t.get_stride(d));
			printf("], \"extents\": ["); for(uint32_t d=0;d<nd;d++) printf("%s[\"%.17g\", \"%.17g\"]", d?", ":"", t.lower_extent(d), t.upper_extent(d));
			printf("], \"coefficients\": ["); for(uint64_t k=0;k<t.get_ncoeffs();k++) printf("%s\"%.9g\"", k?", ":"", (double)t.get_coefficients()[k]);
			printf("]}\n"); }
		catch(std::exception& ex){ printf("{\"failed\": true, \"what\": "); jstr(ex.what()); printf("}\n"); }
		return 0; }
	if(argc>=4 && !strcmp(argv[1],"rewritemem")){   // read with the library, write through the memory back end, read that back from memory, dump the buffer
		try{ photospline::splinetable<> t(argv[2]); auto buf=t.write_fits_mem(); photospline::splinetable<> u; u.read_fits_mem(buf.first,buf.second);
			FILE* f=fopen(argv[3],"wb"); fwrite(buf.first,1,buf.second,f); fclose(f); free(buf.first);
			printf("{\"rewritten\": true, \"equal\": %s}\n", (t==u)?"true":"false"); }
		catch(std::exception& ex){ printf("{\"rewritten\": false, \"what\": "); jstr(ex.what()); printf("}\n"); }
		return 0; }
	if(argc>=4 && !strcmp(argv[1],"rewrite")){   // read with the library, write with the library
		try{ photospline::splinetable<> t(argv[2]); t.write_fits(argv[3]); photospline::splinetable<> u(argv[3]);
			printf("{\"rewritten\": true, \"equal\": %s}\n", (t==u)?"true":"false"); }
		catch(std::exception& ex){ printf("{\"rewritten\": false, \"what\": "); jstr(ex.what()); printf("}\n"); }
		return 0; }
	if(argc>=5 && !strcmp(argv[1],"estimate")){
		size_t e=photospline::splinetable<>::estimateMemory(argv[2], atoi(argv[3]), atoi(argv[4]));
		printf("{\"estimate\": %zu, \"sizeof\": %zu}\n", e, sizeof(photospline::splinetable<>)); return 0; }
	if(argc>=2 && !strcmp(argv[1],"sizeof")){ printf("%zu\n", sizeof(photospline::splinetable<>)); return 0; }
	return 2;
}
