// Native replay for C08: writes a table to <out> while the process' file-size limit is <limit> bytes (write(2) fails with
// EFBIG once the limit is reached; SIGXFSZ ignored), then reports whether write_fits claimed success and what a reader makes
// of the file left behind.   replay_write_limit <in.fits> <out.fits> <limit bytes>
#include <photospline/splinetable.h>
#include <sys/resource.h>
#include <signal.h>
#include <cstdio>
int main(int argc,char**argv){
	if(argc<4) return 2;
	photospline::splinetable<> t(argv[1]);
	signal(SIGXFSZ, SIG_IGN);
	struct rlimit rl; rl.rlim_cur=rl.rlim_max=atol(argv[3]); setrlimit(RLIMIT_FSIZE,&rl);
	bool claimed=true;
	try{ t.write_fits(argv[2]); }catch(std::exception& ex){ claimed=false; printf("write_fits threw: %s\n", ex.what()); }
	if(claimed) printf("write_fits returned normally (success)\n");
	bool loaded=false, equal=false;
	try{ photospline::splinetable<> u(argv[2]); loaded=true; equal=(u==t); }catch(std::exception& ex){ printf("reading the file left behind: %s\n", ex.what()); }
	printf("{\"claimed_success\": %s, \"file_loads\": %s, \"loads_equal\": %s}\n", claimed?"true":"false", loaded?"true":"false", equal?"true":"false");
	return (claimed && !(loaded && equal)) || (loaded && !equal) ? 1 : 0;
}
