// Native replay for C20: executes an operation history on splinetable objects whose allocator counts what it hands out
// (through the Alloc template parameter), under ASan/UBSan.
//   replay_history <dir with A.fits B.fits bad.fits bad2.fits> [failalloc:<k>] <token> ...      token = <object>:<op>[:<arg>[:<arg>]]
//   failalloc:<k> makes the k-th allocate<T>() issued inside read / fit / convolve operations throw std::bad_alloc
// ops: equals:<other object>  moveassign:<source object>  movector:<source object>  read:<file>  fit:ok1|ok2|badargs  key:<K>:<V>  rmkey:<K>  convolve:<dim>:<n>  permute:rev|bad  write:<file>  cmpkeys:<other object>
// Prints one line per operation and, after destroying the objects, the bytes never returned to the allocator and the
// number of deallocations with a wrong size / unknown pointer.  Exit 1 if any of those is non-zero, 3 for an unsupported op.
#include <photospline/splinetable.h>
#include <cstdio>
#include <cstring>
#include <map>
#include <memory>
#include <sstream>
struct Counter{ static size_t cur; static std::map<void*,size_t> live; static unsigned mismatches, nulls; static long count, fail_at; static bool enabled; };
size_t Counter::cur=0; std::map<void*,size_t> Counter::live; unsigned Counter::mismatches=0, Counter::nulls=0; long Counter::count=0, Counter::fail_at=-1; bool Counter::enabled=false;
template<class T> struct CA{ typedef T value_type; CA(){} template<class U> CA(const CA<U>&){} template<class U> struct rebind{ typedef CA<U> other; };
	T* allocate(size_t n){ if(Counter::enabled && Counter::count++==Counter::fail_at) throw std::bad_alloc();   // injected failure (counted in read / fit / convolve only)
		size_t b=n*sizeof(T); void* p=::operator new(b?b:1); Counter::live[p]=b; Counter::cur+=b; return (T*)p; }
	void deallocate(T* p,size_t n){ if(!p && !n){ Counter::nulls++; return; } auto it=Counter::live.find(p); if(it==Counter::live.end()){ Counter::mismatches++; return; }
		if(it->second!=n*sizeof(T)) Counter::mismatches++; Counter::cur-=it->second; Counter::live.erase(it); ::operator delete(p); }
	template<class U> bool operator==(const CA<U>&) const{return true;} template<class U> bool operator!=(const CA<U>&) const{return false;} };
template<> struct CA<void>{ typedef void value_type; CA(){} template<class U> CA(const CA<U>&){} template<class U> struct rebind{ typedef CA<U> other; }; };
typedef photospline::splinetable<CA<void>> table_t;

static void dofit(table_t& t, const std::string& kind){
	int nd = kind=="ok2" ? 2 : 1; const int n=6;
	size_t rows = nd==1 ? n : n*n;
	::ndsparse data; ndsparse_allocate(&data,rows,nd);
	for(size_t r=0;r<rows;r++){ data.x[r]=0.25*r; data.i[0][r]=r%n; if(nd==2) data.i[1][r]=r/n; }
	for(int d=0;d<nd;d++) data.ranges[d]=n;
	std::vector<double> w(rows,1.0); if(kind=="badargs") w.pop_back();
	std::vector<std::vector<double>> coords, knots; std::vector<uint32_t> orders;
	for(int d=0;d<nd;d++){ std::vector<double> x(n); for(int i=0;i<n;i++) x[i]=i; coords.push_back(x);
		std::vector<double> k; for(int i=-3;i<=8;i++) k.push_back(i+0.25*d); knots.push_back(k); orders.push_back(d?1:2); }
	struct freer{ ::ndsparse* d; ~freer(){ ndsparse_free(d); } } f{&data};
	t.fit(data,w,coords,orders,knots,std::vector<double>{1e-3},std::vector<uint32_t>{2});
}

int main(int argc,char**argv){
	if(argc<3) return 2;
	std::string dir=argv[1]; int bad=0;
	{
		std::vector<std::unique_ptr<table_t>> objs; for(int i=0;i<2;i++) objs.emplace_back(new table_t());
		for(int a=2;a<argc;a++){
			if(!strncmp(argv[a],"failalloc:",10)){ Counter::fail_at=atol(argv[a]+10); continue; }
			std::vector<std::string> tk; { std::stringstream ss(argv[a]); std::string s; while(std::getline(ss,s,':')) tk.push_back(s); }
			while(tk.size()<4) tk.push_back("");
			table_t& t=*objs[atoi(tk[0].c_str())]; const std::string& op=tk[1]; std::string res="ok";
			Counter::enabled = (op=="read"||op=="fit"||op=="convolve");
			try{
				if(op=="read") t.read_fits(dir+"/"+tk[2]+".fits");
				else if(op=="fit"){ if(tk[2]=="fail"){ printf("unsupported: a fitter failure cannot be forced natively\n"); return 3; } dofit(t,tk[2]); }
				else if(op=="key") t.write_key(tk[2].c_str(),tk[3]);
				else if(op=="rmkey") res = t.remove_key(tk[2].c_str()) ? "removed" : "absent";
				else if(op=="convolve"){ unsigned d=atoi(tk[2].c_str()), n=atoi(tk[3].c_str()); if(t.get_ndim()==0||d>=t.get_ndim()) res="skipped"; else{ std::vector<double> k(n); for(unsigned i=0;i<n;i++) k[i]=-0.5+i*(1.0/(n-1))+0.01*i*i; t.convolve(d,k.data(),n);} }
				else if(op=="permute"){ uint32_t nd=t.get_ndim(); std::vector<size_t> p; if(tk[2]=="rev"){ for(uint32_t i=0;i<nd;i++) p.push_back(nd-1-i);} else { p.assign(nd?nd:1, nd==1?1:0);} t.permuteDimensions(p); }
				else if(op=="write") t.write_fits(dir+"/"+tk[2]+".fits");
				else if(op=="equals"){ bool e=(t==*objs[atoi(tk[2].c_str())]); res = e ? "equal" : "different"; }
				else if(op=="moveassign" || op=="movector"){
					int si=atoi(tk[2].c_str()), ti=atoi(tk[0].c_str());
					if(op=="movector"){ if(si!=ti){ objs[ti].reset(new table_t(std::move(*objs[si]))); } else res="skipped"; }
					else *objs[ti]=std::move(*objs[si]);
					if(si!=ti && (objs[si]->get_ndim()!=0 || objs[si]->get_naux_values()!=0)){ res="the moved-from table is not empty"; bad++; }
					printf("%s -> %s ; target ndim=%u, moved-from ndim=%u naux=%zu\n", argv[a], res.c_str(), objs[ti]->get_ndim(), objs[si]->get_ndim(), objs[si]->get_naux_values()); fflush(stdout); Counter::enabled=false; continue; }
				else if(op=="cmpkeys"){   // this object's key store against another object's: same keys in order, values equal up to trailing blanks
					table_t& o=*objs[atoi(tk[2].c_str())]; bool same = t.get_naux_values()==o.get_naux_values();
					for(size_t i=0; same && i<t.get_naux_values(); i++){
						std::string k1=t.get_aux_key(i), k2=o.get_aux_key(i), v1=t.get_aux_value(k1.c_str()), v2=o.get_aux_value(k2.c_str());
						while(!v1.empty()&&v1.back()==' ') v1.pop_back(); while(!v2.empty()&&v2.back()==' ') v2.pop_back();
						if(k1!=k2 || v1!=v2){ same=false; printf("key %zu: [%s]=[%s] vs [%s]=[%s]\n", i, k1.c_str(), v1.c_str(), k2.c_str(), v2.c_str()); }
					}
					if(!same){ res="key stores differ"; bad++; } }
				else { printf("unsupported op %s\n",op.c_str()); return 3; }
			}catch(std::exception& ex){ res=std::string("exception: ")+ex.what(); }
			Counter::enabled=false;
			// a table that reports dimensions must be usable: touch what every consumer reads first
			if(t.get_ndim()>0){ volatile double sink=0; for(uint32_t d=0; d<t.get_ndim(); d++) sink+=t.get_order(d)+t.get_nknots(d)+t.get_ncoeffs(d)+t.get_stride(d)+t.lower_extent(d)+t.get_knot(d,0); sink+=t.get_coefficients()[0]; (void)sink; }
			printf("%s -> %s ; ndim=%u naux=%zu live=%zu bytes\n", argv[a], res.substr(0,90).c_str(), t.get_ndim(), t.get_naux_values(), Counter::cur); fflush(stdout);
		}
	}
	printf("after destruction: %zu bytes never returned, %u deallocations with a wrong size / unknown pointer (%u null deallocations ignored)\n", Counter::cur, Counter::mismatches, Counter::nulls);
	return (Counter::cur||Counter::mismatches||bad)?1:0;
}
