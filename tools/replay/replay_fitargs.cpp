// Native replay for C13 (C++ half): calls the REAL splinetable::fit with one inconsistent argument and
// expects an exception that leaves the table empty.  Built with ASan/UBSan.
// usage: replay_fitargs shortcoords|fewknots|fewknots2|valid      exit 0 = rejected cleanly (or valid fit ok), 3 = accepted, sanitizer abort otherwise
#include <photospline/splinetable.h>
#include <cstdio>
#include <cstring>
int main(int argc, char** argv) {
	std::string mode = argc > 1 ? argv[1] : "valid";
	std::vector<uint32_t> orders(1, 2);
	std::vector<std::vector<double>> knots(1), coords(1);
	size_t nk = mode == "fewknots" ? 5 : mode == "fewknots2" ? 3 : 9;      // order 2 needs >= 6 knots
	for (size_t j = 0; j < nk; j++) knots[0].push_back(-1.0 + j);
	size_t n = 8;
	for (size_t j = 0; j < n; j++) coords[0].push_back(0.5 + 0.7 * j);
	photospline::ndsparse data(n, 1);
	std::vector<double> weights(n, 1.);
	for (size_t i = 0; i < n; i++) { unsigned idx = i; data.insertEntry(1.0 + 0.1 * i, &idx); }
	if (mode == "shortcoords") { data.ranges[0] = 4000; }   // declared index range far beyond the 8 abscissae given
	photospline::splinetable<> spline;
	try {
		spline.fit(data, weights, coords, orders, knots, {1e-3}, {2}, photospline::splinetable<>::no_monodim, false);
	} catch (std::exception& e) {
		std::printf("exception: %s\n", e.what());
		if (spline.get_ndim() != 0) { std::printf("REPLAY: VIOLATION CONFIRMED (table modified before the rejection)\n"); return 3; }
		std::printf(mode == "valid" ? "REPLAY: VIOLATION CONFIRMED (valid problem rejected)\n" : "REPLAY: no violation observed\n");
		return mode == "valid" ? 3 : 0;
	}
	if (mode == "valid") { std::printf("REPLAY: no violation observed\n"); return 0; }
	std::printf("fit() accepted the inconsistent arguments (ndim=%u, naxes=%llu)\nREPLAY: VIOLATION CONFIRMED\n", spline.get_ndim(), (unsigned long long)spline.get_ncoeffs());
	return 3;
}
