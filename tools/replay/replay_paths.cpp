// Native replay for C03: for the order patterns of the property's quantifier, evaluate the same table at
// the same points through every path (member functions, evaluator<float>, evaluator<double>, call operator,
// gradient value lane) and compare BIT PATTERNS (member<float> vs evaluator<float>, member<double> vs
// evaluator<double>, gradient[0] vs value).  exit 0 = identical everywhere, 3 = difference found.
#include "table_factory.h"
#include <cstdlib>
#include <random>
using namespace photospline;
static int bad = 0;
static void diff(const char* what, const std::vector<uint32_t>& o, double a, double b) {
	if (vp::d2bits(a) != vp::d2bits(b) && !(a != a && b != b)) {
		if (bad < 8) { std::printf("DIFFERENCE %s orders", what); for (auto v : o) std::printf(" %u", v); std::printf(": %.17g vs %.17g\n", a, b); }
		bad++;
	}
}
static void run(const std::vector<uint32_t>& orders, std::mt19937& rng) {
	vp::TableSpec s; s.order = orders; size_t nd = orders.size();
	for (size_t d = 0; d < nd; d++) { size_t nk = 2*orders[d] + 2 + (nd <= 4 ? 2 : (d % 2)); std::vector<double> k; double v = -1.0; for (size_t i = 0; i < nk; i++) { k.push_back(v); v += 0.5 + 0.25*((i*7+d) % 3); } s.knots.push_back(k); }
	splinetable<> t; vp::build(t, s);
	auto ef = t.get_evaluator<float>(); auto ed = t.get_evaluator<double>();
	std::vector<double> x(nd), g(nd+1), g2(nd+1); std::vector<int> c(nd), c2(nd);
	for (int trial = 0; trial < 24; trial++) {
		for (size_t d = 0; d < nd; d++) {
			const std::vector<double>& k = s.knots[d]; std::uniform_real_distribution<> u(k.front(), k.back());
			int mode = (d == (size_t)(trial % nd)) ? (trial / (int)nd) % 4 : 5;   // at most one coordinate per point on a knot / at an end
			x[d] = mode == 0 ? k[orders[d] + 1] : mode == 1 ? k.back() : mode == 2 ? std::nextafter(k.front(), 1e9) : u(rng);
		}
		bool ok = t.searchcenters(x.data(), c.data()); bool ok2 = ef.searchcenters(x.data(), c2.data());
		if (ok != ok2 || (ok && c != c2)) { std::printf("DIFFERENCE in center lookup\n"); bad++; }
		if (!ok) continue;
		for (unsigned m = 0; m < (1u << nd) && m < 8; m++) {
			diff("ndsplineeval<float> vs evaluator<float>", orders, t.ndsplineeval<float>(x.data(), c.data(), m), ef.ndsplineeval(x.data(), c.data(), m));
			diff("ndsplineeval<double> vs evaluator<double>", orders, t.ndsplineeval<double>(x.data(), c.data(), m), ed.ndsplineeval(x.data(), c.data(), m));
		}
		diff("operator() vs ndsplineeval", orders, t(x.data()), t.ndsplineeval(x.data(), c.data(), 0));
		diff("evaluator() vs evaluator.ndsplineeval", orders, ef(x.data()), ef.ndsplineeval(x.data(), c.data(), 0));
		if (nd + 1 <= PHOTOSPLINE_MAXDIM) {
			t.ndsplineeval_gradient<float>(x.data(), c.data(), g.data()); ef.ndsplineeval_gradient(x.data(), c.data(), g2.data());
			for (size_t i = 0; i <= nd; i++) diff("gradient member vs evaluator", orders, g[i], g2[i]);
			diff("gradient value lane vs value", orders, g[0], t.ndsplineeval<float>(x.data(), c.data(), 0));
			ed.ndsplineeval_gradient(x.data(), c.data(), g2.data());
			diff("gradient<double> value lane vs evaluator<double> value", orders, g2[0], ed.ndsplineeval(x.data(), c.data(), 0));
		}
	}
}
int main() {
	std::mt19937 rng(12345);
	for (uint32_t nd = 1; nd <= 9; nd++) {
		for (uint32_t k = 0; k <= 5; k++) { if (nd > 6 && k > 3) continue; if (nd > 4 && k > 4) continue; run(std::vector<uint32_t>(nd, k), rng); }
		std::vector<uint32_t> mixed(nd); for (uint32_t d = 0; d < nd; d++) mixed[d] = (d*2+1) % (nd > 6 ? 3 : 4); run(mixed, rng);
	}
	run({2,2,2,3,2,2}, rng); run({2,2,2,5,2,2}, rng);
	run({2,2,2,3,2,2,1}, rng); run({2,2,2,5,2,2,2}, rng); run({2,2,2,3,2,2,2,2}, rng); run({2,2,2,3,2}, rng);
	std::printf(bad ? "REPLAY: VIOLATION CONFIRMED (%d differences)\n" : "REPLAY: no violation observed\n", bad);
	return bad ? 3 : 0;
}
