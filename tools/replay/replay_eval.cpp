// Native replay for C01/C02/C03: evaluates the REAL library at the given point and compares
// with a long-double Cox-de Boor reference (piece convention of the property), all entry points.
//   input: table_factory format; extra lines:  deriv <mask>   tol <multiplier>
// exit 0 = agree within tolerance, 3 = mismatch.
#include "table_factory.h"
#include <cstdlib>
#include <cmath>
using namespace photospline;
typedef long double LD;
// B_{i,k} on the piece [t_s,t_{s+1}] and its m-th derivative, 0/0 := 0
static LD B(const std::vector<double>& t, int s, int i, int k, LD x, int m) {
	if (m > k) return 0;
	if (k == 0) return (m == 0 && i == s) ? 1.0L : 0.0L;
	LD a = 0, b = 0;
	LD d1 = (LD)t[i+k] - (LD)t[i], d2 = (LD)t[i+k+1] - (LD)t[i+1];
	if (m == 0) {
		if (d1 != 0) a = (x - t[i]) / d1 * B(t, s, i, k-1, x, 0);
		if (d2 != 0) b = ((LD)t[i+k+1] - x) / d2 * B(t, s, i+1, k-1, x, 0);
		return a + b;
	}
	if (d1 != 0) a = k / d1 * B(t, s, i, k-1, x, m-1);
	if (d2 != 0) b = k / d2 * B(t, s, i+1, k-1, x, m-1);
	return a - b;
}
static int piece(const std::vector<double>& t, int k, double x) {
	int n = t.size(), naxes = n - k - 1;
	if (x < t[naxes]) { int s = 0; for (int m = 0; m < n-1; m++) if (t[m] <= x) s = m; return s; }      // right piece
	int s = n - 2; for (int m = n-2; m >= 0; m--) { if (t[m] < x) { s = m; break; } } return s;        // left piece
}
int main(int argc, char** argv) {
	if (argc < 2) return 2;
	vp::Input in; if (!vp::parse(argv[1], in)) return 2;
	unsigned mask = 0; double tolmul = 64; std::vector<unsigned> dn; bool usedn = false;
	for (auto& l : in.extra) { unsigned u; double d; if (sscanf(l.c_str(), "deriv %u", &u) == 1) mask = u; if (sscanf(l.c_str(), "tol %lf", &d) == 1) tolmul = d;
		if (l.compare(0, 7, "derivn ") == 0) { std::istringstream is(l.substr(7)); unsigned v; while (is >> v) dn.push_back(v); usedn = true; } }
	splinetable<> t; vp::build(t, in.spec);
	uint32_t nd = t.get_ndim();
	std::vector<int> c(nd);
	if (!t.searchcenters(in.x.data(), c.data())) { std::printf("lookup failed\nREPLAY: no violation observed\n"); return 0; }
	// reference: sum over ALL coefficients
	std::vector<std::vector<LD>> bas(nd);
	for (uint32_t d = 0; d < nd; d++) {
		int k = t.get_order(d); int na = t.naxes[d]; int s = piece(in.spec.knots[d], k, in.x[d]);
		for (int i = 0; i < na; i++) bas[d].push_back(B(in.spec.knots[d], s, i, k, in.x[d], usedn ? (int)dn[d] : (int)((mask >> d) & 1)));
	}
	LD ref = 0, mag = 0; uint64_t n = t.get_ncoeffs(); std::vector<uint64_t> idx(nd, 0);
	for (uint64_t p = 0; p < n; p++) {
		uint64_t q = p; for (int d = nd-1; d >= 0; d--) { idx[d] = q % t.naxes[d]; q /= t.naxes[d]; }
		LD term = t.get_coefficients()[p]; for (uint32_t d = 0; d < nd; d++) term *= bas[d][idx[d]];
		ref += term; mag += fabsl(term);
	}
	int bad = 0;
	auto cmp = [&](const char* what, double v, double eps) {
		LD tol = tolmul * eps * (mag + 1e-300L);
		bool ok = (v == v) && fabsl((LD)v - ref) <= tol;
		std::printf("%-40s %.17g  reference %.17Lg  tol %.3Lg  %s\n", what, v, ref, tol, ok ? "ok" : "MISMATCH");
		if (!ok) bad = 1;
	};
	if (usedn) {
		cmp("ndsplineeval_deriv", t.ndsplineeval_deriv(in.x.data(), c.data(), dn.data()), 1.2e-7);
		{ auto e = t.get_evaluator<double>(); cmp("evaluator<double>.ndsplineeval_deriv", e.ndsplineeval_deriv(in.x.data(), c.data(), dn.data()), 2.3e-16*8); }
		std::printf(bad ? "REPLAY: VIOLATION CONFIRMED\n" : "REPLAY: no violation observed\n");
		return bad ? 3 : 0;
	}
	cmp("ndsplineeval<float>", t.ndsplineeval(in.x.data(), c.data(), mask), 1.2e-7);
	if (mask == 0) cmp("operator()", t(in.x.data()), 1.2e-7);
	{ auto e = t.get_evaluator<float>(); cmp("evaluator<float>.ndsplineeval", e.ndsplineeval(in.x.data(), c.data(), mask), 1.2e-7); }
	{ auto e = t.get_evaluator<double>(); cmp("evaluator<double>.ndsplineeval", e.ndsplineeval(in.x.data(), c.data(), mask), 2.3e-16*8); }
	if (mask == 0 && nd + 1 <= PHOTOSPLINE_MAXDIM) { std::vector<double> g(nd+1); t.ndsplineeval_gradient(in.x.data(), c.data(), g.data()); cmp("ndsplineeval_gradient[0]", g[0], 1.2e-7); }
	std::printf(bad ? "REPLAY: VIOLATION CONFIRMED\n" : "REPLAY: no violation observed\n");
	return bad ? 3 : 0;
}
