/* Native replay for C13: calls the REAL add_penalty_term (glam.c, linked with the real
 * cholmod) the way splinetable::fit does, under ASan/UBSan.
 * usage: replay_penalty <order> <porder> <nknots>        exit 0 = no memory error observed */
#include <stdio.h>
#include <stdlib.h>
#include <photospline/detail/glam.h>
int main(int argc, char** argv) {
	if (argc < 4) return 2;
	unsigned order = atoi(argv[1]), porder = atoi(argv[2]); size_t nknots = atoi(argv[3]);
	cholmod_common c; cholmod_l_start(&c);
	double* knots_base = malloc((nknots + 2*order) * sizeof(double));
	double* knots = knots_base + order;
	for (size_t i = 0; i < nknots; i++) knots[i] = (double)i;
	uint64_t nsplines[1] = { nknots - order - 1 };
	cholmod_sparse* penalty = cholmod_l_spzeros(nsplines[0], nsplines[0], 1, CHOLMOD_REAL, &c);
	penalty = add_penalty_term(nsplines, knots, 1, 0, order, porder, 1.0, 0, penalty, &c);
	printf("penalty %zux%zu nnz-capacity %zu\n", penalty->nrow, penalty->ncol, penalty->nzmax);
	cholmod_l_free_sparse(&penalty, &c); cholmod_l_finish(&c); free(knots_base);
	printf("REPLAY: no violation observed\n");
	return 0;
}
