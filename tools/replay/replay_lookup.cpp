// Native replay for C04 / C05: runs the REAL searchcenters on the given table and point,
// re-evaluates the clauses of the property with an independent linear-scan oracle, and
// (C05) exercises every evaluation entry point under ASan/UBSan when lookup succeeds.
// exit 0: property clauses hold;  exit 3: clause violated (printed);  sanitizer abort otherwise.
#include "table_factory.h"
#include <cstdlib>
using namespace photospline;
int main(int argc, char** argv) {
	if (argc < 2) return 2;
	vp::Input in; if (!vp::parse(argv[1], in)) return 2;
	splinetable<> t; vp::build(t, in.spec);
	uint32_t nd = t.get_ndim();
	std::vector<int> c(nd, -12345);
	bool ok = t.searchcenters(in.x.data(), c.data());
	int bad = 0;
	bool expect = true, anynan = false;
	for (uint32_t d = 0; d < nd; d++) {
		double x = in.x[d]; const double* k = t.get_knots(d); uint64_t nk = t.get_nknots(d); uint32_t o = t.get_order(d);
		if (x != x) anynan = true;
		if (!(x > k[0] && x <= k[nk-1])) expect = false;
	}
	std::printf("lookup=%d expected=%d nan=%d centers:", (int)ok, (int)expect, (int)anynan);
	for (uint32_t d = 0; d < nd; d++) std::printf(" %d", c[d]);
	std::printf("\n");
	if (!anynan && ok != expect) { std::printf("CLAUSE VIOLATED: lookup succeeds exactly on (first knot, last knot]\n"); bad = 1; }
	if (anynan && ok) { std::printf("NOTE: lookup succeeded for a NaN coordinate\n"); }
	if (ok) for (uint32_t d = 0; d < nd; d++) {
		double x = in.x[d]; const double* k = t.get_knots(d); int64_t nk = t.get_nknots(d); int64_t o = t.get_order(d); int64_t na = nk - o - 1;
		if (!(c[d] >= o && c[d] <= nk - o - 2)) { std::printf("CLAUSE VIOLATED: dim %u center %d outside [order, nknots-order-2] = [%ld,%ld]\n", d, c[d], (long)o, (long)(nk-o-2)); bad = 1; continue; }
		if (x != x) continue;
		if (x >= k[o] && x < k[na]) { if (!(k[c[d]] <= x && x < k[c[d]+1])) { std::printf("CLAUSE VIOLATED: dim %u center %d does not bracket x\n", d, c[d]); bad = 1; } }
		else if (x >= k[na]) { if (c[d] != na-1) { std::printf("CLAUSE VIOLATED: dim %u high margin center %d != %ld\n", d, c[d], (long)(na-1)); bad = 1; } }
		else if (x < k[o]) { if (c[d] != o) { std::printf("CLAUSE VIOLATED: dim %u low margin center %d != %ld\n", d, c[d], (long)o); bad = 1; } }
	}
	// call operator: zero on failure
	double v = t(in.x.data());
	if (!ok && v != 0) { std::printf("CLAUSE VIOLATED: call operator returned %g although lookup fails\n", v); bad = 1; }
	if (ok) {
		// every evaluation entry point; ASan/UBSan/assert decide memory safety
		volatile double sink = 0;
		double v0 = t.ndsplineeval(in.x.data(), c.data(), 0); sink += v0;
		if (!anynan && !(v == v0) && !(v != v && v0 != v0)) { std::printf("CLAUSE VIOLATED: call operator %a != ndsplineeval %a\n", v, v0); bad = 1; }
		for (unsigned m = 1; m < (1u << nd) && m < 64; m++) sink += t.ndsplineeval(in.x.data(), c.data(), m);
		std::vector<unsigned> der(nd);
		for (unsigned k = 0; k < 4; k++) { for (uint32_t d = 0; d < nd; d++) der[d] = (k + d) % 4; sink += t.ndsplineeval_deriv(in.x.data(), c.data(), der.data()); }
		std::vector<double> g(nd + 1);
		// gradient: requests the SIMD layout cannot serve must be refused by exception (ASan decides otherwise)
		try { t.ndsplineeval_gradient(in.x.data(), c.data(), g.data()); sink += g[0]; if (nd + 1 > PHOTOSPLINE_MAXDIM) { std::printf("CLAUSE VIOLATED: gradient of a %u-dimensional table was not refused\n", nd); bad = 1; } }
		catch (std::runtime_error&) { if (nd + 1 <= PHOTOSPLINE_MAXDIM) { std::printf("CLAUSE VIOLATED: gradient refused for a servable table\n"); bad = 1; } }
		{ auto e = t.get_evaluator<float>(); sink += e.ndsplineeval(in.x.data(), c.data(), 0); sink += e(in.x.data()); sink += e.ndsplineeval_deriv(in.x.data(), c.data(), der.data()); try { e.ndsplineeval_gradient(in.x.data(), c.data(), g.data()); } catch (std::runtime_error&) {} }
		{ auto e = t.get_evaluator<double>(); sink += e.ndsplineeval(in.x.data(), c.data(), 0); sink += e(in.x.data()); try { e.ndsplineeval_gradient(in.x.data(), c.data(), g.data()); } catch (std::runtime_error&) {} }
		(void)sink;
	}
	std::printf(bad ? "REPLAY: VIOLATION CONFIRMED\n" : "REPLAY: no violation observed\n");
	return bad ? 3 : 0;
}
