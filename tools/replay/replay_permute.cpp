// Native replay for C15: permute the dimensions of a REAL table (with PERIODn attributes, as read_fits produces
// them) and compare every per-dimension attribute and evaluations at the permuted point.
// exit 0 = all attributes follow the permutation and values agree, 3 otherwise.
#include "table_factory.h"
#include <cstdlib>
using namespace photospline;
int main() {
	vp::TableSpec s; s.order = {1, 2, 0};
	size_t nks[3] = {5, 8, 4};
	for (int d = 0; d < 3; d++) { std::vector<double> k; for (size_t i = 0; i < nks[d]; i++) k.push_back(d + i * (1.0 + 0.5 * d)); s.knots.push_back(k); }
	splinetable<> t; vp::build(t, s);
	t.extents = t.allocate<double*>(3); t.extents[0] = t.allocate<double>(6);
	for (int d = 0; d < 3; d++) { t.extents[d] = t.extents[0] + 2*d; t.extents[d][0] = s.knots[d][s.order[d]]; t.extents[d][1] = s.knots[d][nks[d] - s.order[d] - 1]; }
	t.periods = t.allocate<double>(3); for (int d = 0; d < 3; d++) t.periods[d] = 360.0 * (d + 1);
	double x[3] = {2.3, 5.1, 3.4}; int c[3];
	if (!t.searchcenters(x, c)) { std::printf("lookup failed\n"); return 2; }
	double v0 = t.ndsplineeval(x, c, 0);
	std::vector<size_t> perm = {2, 0, 1};
	t.permuteDimensions(perm);
	int bad = 0;
	for (int i = 0; i < 3; i++) {
		size_t j = perm[i];
		if (t.get_order(i) != s.order[j]) { std::printf("order of new dimension %d is not that of old dimension %zu\n", i, j); bad = 1; }
		if (t.get_nknots(i) != nks[j]) { std::printf("knot count of new dimension %d wrong\n", i); bad = 1; }
		if (t.get_period(i) != 360.0 * (j + 1)) { std::printf("period of new dimension %d is %g, expected that of old dimension %zu (%g)\n", i, t.get_period(i), j, 360.0 * (j + 1)); bad = 1; }
		if (t.lower_extent(i) != s.knots[j][s.order[j]]) { std::printf("extent of new dimension %d wrong\n", i); bad = 1; }
	}
	double xp[3] = {x[perm[0]], x[perm[1]], x[perm[2]]}; int cp[3];
	if (!t.searchcenters(xp, cp)) { std::printf("lookup failed after permutation\n"); bad = 1; }
	else { double v1 = t.ndsplineeval(xp, cp, 0); if (std::fabs(v1 - v0) > 1e-6 * (1 + std::fabs(v0))) { std::printf("value %g differs from %g after permutation\n", v1, v0); bad = 1; } }
	// a table without extents (what the stacking constructor leaves behind): permuting must not touch the null pointer
	{
		vp::TableSpec s2; s2.order = {1, 2}; s2.knots = {{0,1,2,3,4}, {0,1,2,3,4,5,6,7}};
		splinetable<> u; vp::build(u, s2);       // extents == nullptr, periods == nullptr
		std::vector<size_t> p2 = {1, 0};
		std::printf("permuting a table without extents...\n"); std::fflush(stdout);
		u.permuteDimensions(p2);
		if (u.get_order(0) != 2 || u.get_nknots(0) != 8) { std::printf("attributes of the extent-less table not permuted\n"); bad = 1; }
	}
	std::printf(bad ? "REPLAY: VIOLATION CONFIRMED\n" : "REPLAY: no violation observed\n");
	return bad ? 3 : 0;
}
