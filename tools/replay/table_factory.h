// Replay support: builds a photospline::splinetable<> from raw arrays.
// Compiled with -fno-access-control so that the private members can be
// filled exactly the way the library's own producers do
// (knots: allocate<double>(nknots+2*order)+order, padding left uninitialised-like).
#pragma once
#include <photospline/splinetable.h>
#include <cstdint>
#include <cstdio>
#include <cstring>
#include <vector>
#include <string>
#include <sstream>
#include <cmath>

namespace vp {
inline double bits2d(uint64_t b){ double d; std::memcpy(&d,&b,8); return d; }
inline uint64_t d2bits(double d){ uint64_t b; std::memcpy(&b,&d,8); return b; }
inline float bits2f(uint32_t b){ float d; std::memcpy(&d,&b,4); return d; }

struct TableSpec {
	std::vector<uint32_t> order;
	std::vector<std::vector<double>> knots;
	std::vector<float> coefficients; // row-major, may be empty => filled by generator
};

// fill an empty table.  pad_value: value stored into the padding (NaN by default:
// valid results must not depend on it)
inline void build(photospline::splinetable<>& t, const TableSpec& s, double pad_value = std::nan("")) {
	uint32_t nd = s.order.size();
	t.ndim = nd;
	t.order = t.allocate<uint32_t>(nd);
	t.nknots = t.allocate<uint64_t>(nd);
	t.naxes = t.allocate<uint64_t>(nd);
	t.strides = t.allocate<uint64_t>(nd);
	t.knots = t.allocate<double*>(nd);
	t.extents = nullptr; t.periods = nullptr; t.naux = 0; t.aux = nullptr;
	for (uint32_t d = 0; d < nd; d++) {
		t.order[d] = s.order[d];
		t.nknots[d] = s.knots[d].size();
		t.naxes[d] = t.nknots[d] - t.order[d] - 1;
		double* base = t.allocate<double>(t.nknots[d] + 2*t.order[d]);
		for (uint64_t i = 0; i < t.nknots[d] + 2*t.order[d]; i++) base[i] = pad_value;
		t.knots[d] = base + t.order[d];
		for (uint64_t i = 0; i < t.nknots[d]; i++) t.knots[d][i] = s.knots[d][i];
	}
	uint64_t n = 1;
	for (int d = nd - 1; d >= 0; d--) { t.strides[d] = n; n *= t.naxes[d]; }
	t.coefficients = t.allocate<float>(n);
	for (uint64_t i = 0; i < n; i++)
		t.coefficients[i] = i < s.coefficients.size() ? s.coefficients[i] : (float)(1.0 + 0.37*(double)((i*2654435761u) % 17) - 3.0);
}

// tiny line-oriented input format:
//   ndim <n>
//   dim <order> <nknots> <hex64 knot bits>...
//   x <hex64>...
//   coef <hex32>...        (optional)
struct Input { TableSpec spec; std::vector<double> x; std::vector<std::string> extra; };
inline bool parse(const char* path, Input& in) {
	FILE* f = std::fopen(path, "r"); if (!f) return false;
	char buf[1<<16];
	while (std::fgets(buf, sizeof buf, f)) {
		std::istringstream is(buf); std::string kw; is >> kw;
		if (kw == "dim") { uint32_t o; size_t n; is >> o >> n; std::vector<double> k; for (size_t i=0;i<n;i++){ std::string h; is >> h; k.push_back(bits2d(std::stoull(h,nullptr,16))); } in.spec.order.push_back(o); in.spec.knots.push_back(k); }
		else if (kw == "x") { std::string h; while (is >> h) in.x.push_back(bits2d(std::stoull(h,nullptr,16))); }
		else if (kw == "coef") { std::string h; while (is >> h) in.spec.coefficients.push_back(bits2f((uint32_t)std::stoul(h,nullptr,16))); }
		else if (!kw.empty() && kw != "ndim") in.extra.push_back(buf);
	}
	std::fclose(f); return true;
}
}
