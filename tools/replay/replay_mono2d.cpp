// Native demonstration for the C10 known finding: 2-D data whose unconstrained penalised fit is non-negative and non-decreasing
// along dimension 0 (the constraint is inactive); the monotonic fit must then return the same coefficients.
// usage: replay_mono2d <smoothing> <penalty order>   (prints the largest coefficient difference)
#include <photospline/splinetable.h>
#include <cstdio>
#include <cmath>
int main(int argc,char**argv){
  double smooth = argc>1? atof(argv[1]) : 1.0; unsigned pord = argc>2? atoi(argv[2]) : 1;
  const uint32_t dim=2; std::vector<uint32_t> orders(dim,2);
  std::vector<std::vector<double>> knots(dim), coords(dim);
  for(int j=0;j<10;j++){ knots[0].push_back(-2.0+j); knots[1].push_back(-2.0+j); }
  size_t n=12; for(size_t j=0;j<n;j++){ coords[0].push_back(0.2+0.45*j); coords[1].push_back(0.1+0.47*j); }
  photospline::ndsparse data(n*n,dim); std::vector<double> w(n*n,1.);
  for(unsigned a=0;a<n;a++) for(unsigned b=0;b<n;b++){ unsigned idx[2]={a,b}; double x=coords[0][a], y=coords[1][b]; data.insertEntry(2.0+1.5*x+0.3*x*x + std::sin(1.1*y), idx); }
  photospline::splinetable<> s0, s1;
  s0.fit(data,w,coords,orders,knots,{smooth},{pord},photospline::splinetable<>::no_monodim,false);
  s1.fit(data,w,coords,orders,knots,{smooth},{pord},0,false);
  double maxd=0, maxc=0; bool mono=true, pos=true;
  for(uint64_t i=0;i<s0.get_ncoeffs();i++){ double a=s0.get_coefficients()[i], b=s1.get_coefficients()[i]; maxd=std::max(maxd,std::fabs(a-b)); maxc=std::max(maxc,std::fabs(a)); }
  uint64_t na1=s0.get_ncoeffs()/7; // 7x7
  for(uint64_t i=0;i<7;i++) for(uint64_t j=0;j<7;j++){ float c=s0.get_coefficients()[i*7+j]; if(c<0) pos=false; if(i>0 && c < s0.get_coefficients()[(i-1)*7+j]) mono=false; }
  printf("smoothing %g penalty order %u: unconstrained solution nonneg=%d nondecreasing-in-dim0=%d ; max |unconstrained - monotonic| = %g (coefficient scale %g)\n", smooth,pord,(int)pos,(int)mono,maxd,maxc);
}
