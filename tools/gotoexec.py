#!/usr/bin/env python3
"""E3: verification conditions from the GOTO program.

Interprets the instruction list that CBMC's own C front end produced
(`goto-instrument --show-goto-functions --json-ui`) for the translation units
extracted from /repo.  Integers, pointers and control flow are concrete;
floating-point values live in a pluggable symbolic domain and carry an exact
rational *witness* value in parallel which decides comparisons (the caller
checks that the recorded comparisons are constant on the cell it claims).

Domains:  FieldDom  - elements of the fraction field Q(x, t_i, ...) (sympy.polys)
          TermDom   - hash-consed free terms (no arithmetic law applied)
"""
import json, subprocess, os, sys
from fractions import Fraction

class ExecError(Exception): pass
class MemError(ExecError): pass

# ---------------------------------------------------------------- domains
class FV:
    """floating-point value: symbolic part + exact rational witness (None = non-finite)"""
    __slots__ = ("sym", "num")
    def __init__(self, sym, num): self.sym = sym; self.num = num
    def __repr__(self): return "FV(%s|%s)" % (self.sym, self.num)

class FieldDom:
    name = "field"
    def __init__(self, names):
        from sympy.polys.fields import field
        from sympy.polys.domains import QQ
        res = field(list(names), QQ)
        self.K = res[0]; self.gen = dict(zip(names, res[1:]))
    def const(self, q): return self.K(Fraction(q).numerator) / self.K(Fraction(q).denominator) if Fraction(q).denominator != 1 else self.K(int(q))
    def symbol(self, n): return self.gen[n]
    def add(self, a, b): return a + b
    def sub(self, a, b): return a - b
    def mul(self, a, b): return a * b
    def div(self, a, b):
        if b == 0: raise ExecError("symbolic division by the zero element")
        return a / b
    def neg(self, a): return -a
    def narrow(self, a): return a          # float <- double : identity (machine arithmetic treated as mathematical)
    def is_zero(self, a): return a == 0

class TermDom:
    """hash-consed free terms: ('add', id, id) ...; equal ids <=> identical operation trees"""
    name = "term"
    def __init__(self):
        self.table = {}; self.nodes = []
    def mk(self, *t):
        i = self.table.get(t)
        if i is None:
            i = len(self.nodes); self.table[t] = i; self.nodes.append(t)
        return i
    def const(self, q): return self.mk("const", Fraction(q))
    def symbol(self, n): return self.mk("sym", n)
    def add(self, a, b): return self.mk("add", a, b)
    def sub(self, a, b):
        # x - (+0) is x bit-for-bit in IEEE arithmetic for every x (incl. -0, inf, NaN): the only law applied
        if self.nodes[b] == ("const", Fraction(0)): return a
        return self.mk("sub", a, b)
    def mul(self, a, b): return self.mk("mul", a, b)
    def div(self, a, b): return self.mk("div", a, b)
    def neg(self, a): return self.mk("neg", a)
    def narrow(self, a):
        t = self.nodes[a]
        if t[0] == "const":
            import struct
            q = t[1]
            try:
                f = struct.unpack("f", struct.pack("f", float(q)))[0]
                if Fraction(f) == q: return a          # exactly representable in binary32: the conversion is the identity
            except OverflowError: pass
        if t[0] == "f32": return a
        return self.mk("f32", a)
    def leaves(self, i, acc=None, seen=None):
        acc = set() if acc is None else acc; seen = set() if seen is None else seen
        stack = [i]
        while stack:
            k = stack.pop()
            if k in seen: continue
            seen.add(k)
            t = self.nodes[k]
            if t[0] == "sym": acc.add(t[1])
            elif t[0] != "const": stack.extend(t[1:])
        return acc
    def show(self, i, depth=6):
        t = self.nodes[i]
        if t[0] == "sym": return t[1]
        if t[0] == "const": return str(t[1])
        if depth == 0: return "..."
        return "%s(%s)" % (t[0], ", ".join(self.show(k, depth - 1) for k in t[1:]))

# ---------------------------------------------------------------- memory
class Obj:
    __slots__ = ("name", "cells", "live")
    def __init__(self, name, n, init=None):
        self.name = name; self.cells = [init] * n; self.live = True
class _FieldCells:
    """cells view of one component of a struct stored as a dict in cell `off` of `obj`"""
    def __init__(self, obj, off, name): self.obj = obj; self.off = off; self.name = name
    def _d(self):
        if self.off < 0 or self.off >= len(self.obj.cells): raise MemError("struct access out of bounds in " + self.obj.name)
        d = self.obj.cells[self.off]
        if d is None: d = {}; self.obj.cells[self.off] = d
        if not isinstance(d, dict): raise ExecError("member access on a non-struct cell")
        return d
    def __len__(self): return 1
    def __getitem__(self, i):
        if isinstance(i, slice): return [self._d().get(self.name)]
        return self._d().get(self.name)
    def __setitem__(self, i, v): self._d()[self.name] = v
class FieldObj:
    def __init__(self, obj, off, name): self.name = "%s.%s" % (obj.name, name); self.cells = _FieldCells(obj, off, name); self.base = obj
    @property
    def live(self): return self.base.live
class Ptr:
    __slots__ = ("obj", "off")
    def __init__(self, obj, off): self.obj = obj; self.off = off
    def __repr__(self): return "&%s[%d]" % (self.obj.name if self.obj else "NULL", self.off)
NULL = Ptr(None, 0)

class Program:
    def __init__(self, functions):
        self.functions = functions      # name -> list of instruction dicts
        self.locidx = {n: {ins["locationNumber"]: k for k, ins in enumerate(b)} for n, b in functions.items()}
    @staticmethod
    def compile(c_text, workdir, name="e3", cc_flags=()):
        src = os.path.join(workdir, name + ".c")
        with open(src, "w") as f: f.write(c_text)
        gb = os.path.join(workdir, name + ".gb")
        p = subprocess.run(["goto-cc", "-c", src, "-o", gb] + list(cc_flags), stdout=subprocess.PIPE, stderr=subprocess.STDOUT)
        if p.returncode != 0:
            raise ExecError("goto-cc failed: " + p.stdout.decode()[-800:])
        p = subprocess.run(["goto-instrument", "--show-goto-functions", "--json-ui", gb], stdout=subprocess.PIPE, stderr=subprocess.DEVNULL)
        js = json.loads(p.stdout.decode())
        fns = {}
        for e in js:
            if isinstance(e, dict) and "functions" in e:
                for f in e["functions"]:
                    if f.get("instructions"): fns[f["name"]] = f["instructions"]
        return Program(fns)

def tid(t): return t["id"]
def nsub(e, k): return e["namedSub"][k]
def twidth(t): return int(t["namedSub"]["width"]["id"])

class Interp:
    def __init__(self, prog, dom, max_steps=20000000):
        self.prog = prog; self.dom = dom; self.globals = {}; self.steps = 0; self.max_steps = max_steps
        self.comparisons = []      # (op, a_num, b_num, a_sym, b_sym, result)
        self.calls = []            # log of (callee, args) for hooks
        self.hooks = {}            # function name -> python callable(interp, args) -> value
        self.frames = []
        self.heap_n = 0
    # ---- values
    def fconst(self, q): return FV(self.dom.const(q), Fraction(q))
    def fsym(self, name, witness): return FV(self.dom.symbol(name), None if witness is None else Fraction(witness))
    def new_obj(self, name, n, init=None):
        self.heap_n += 1
        return Obj("%s#%d" % (name, self.heap_n), n, init)
    def array(self, name, values):
        o = self.new_obj(name, len(values)); o.cells = list(values); return o
    # ---- types
    def cells(self, t):
        i = tid(t)
        if i in ("signedbv", "unsignedbv", "floatbv", "pointer", "bool", "c_bool", "c_enum_tag", "struct_tag", "struct"): return 1
        if i in ("array", "vector"):
            return self.int_of(self.eval(nsub(t, "size"))) * self.cells(t["sub"][0])
        raise ExecError("unsupported type " + i)
    def wrap(self, v, t):
        w = twidth(t); v &= (1 << w) - 1
        if tid(t) == "signedbv" and v >> (w - 1): v -= 1 << w
        return v
    def int_of(self, v):
        if isinstance(v, bool): return int(v)
        if not isinstance(v, int): raise ExecError("integer expected, got %r" % (v,))
        return v
    # ---- environment
    def lookup(self, name):
        if self.frames and name in self.frames[-1]: return self.frames[-1][name]
        if name in self.globals: return self.globals[name]
        if name in self.prog.functions or name in self.hooks:      # address of a function: an opaque one-cell object named after it
            o = Obj("fn:" + name, 1); o.cells[0] = name; self.globals[name] = o; return o
        raise ExecError("unknown symbol " + name)
    def set_global(self, name, value):
        o = Obj(name, 1); o.cells[0] = value; self.globals[name] = o
    # ---- places
    def place(self, e):
        i = tid(e)
        if i == "symbol":
            return self.lookup(nsub(e, "identifier")["id"]), 0
        if i == "index":
            o, off = self.place(e["sub"][0])
            k = self.int_of(self.eval(e["sub"][1]))
            return o, off + k * self.cells(nsub(e, "type"))
        if i == "dereference":
            p = self.eval(e["sub"][0])
            if not isinstance(p, Ptr) or p.obj is None: raise MemError("dereference of %r" % (p,))
            return p.obj, p.off
        if i == "typecast":
            return self.place(e["sub"][0])
        if i == "member":
            o, off = self.place(e["sub"][0])
            return FieldObj(o, off, nsub(e, "component_name")["id"]), 0
        if i == "string_constant":
            val = nsub(e, "value")["id"]
            cache = self.__dict__.setdefault("_strings", {})
            if val not in cache: cache[val] = self.array("string_constant", [ord(ch) for ch in val] + [0])
            return cache[val], 0
        raise ExecError("unsupported lvalue " + i)
    def load(self, o, off, t):
        n = self.cells(t)
        if not o.live: raise MemError("access to dead object " + o.name)
        if off < 0 or off + n > len(o.cells): raise MemError("out-of-bounds read %s[%d..%d) size %d" % (o.name, off, off + n, len(o.cells)))
        if tid(t) in ("array", "vector"):
            vs = tuple(o.cells[off:off + n])
            if any(v is None for v in vs): raise ExecError("read of uninitialised %s[%d]" % (o.name, off))
            return vs
        v = o.cells[off]
        if v is None: raise ExecError("read of uninitialised %s[%d]" % (o.name, off))
        return v
    def store(self, o, off, t, v):
        n = self.cells(t)
        if not o.live: raise MemError("access to dead object " + o.name)
        if off < 0 or off + n > len(o.cells): raise MemError("out-of-bounds write %s[%d..%d) size %d" % (o.name, off, off + n, len(o.cells)))
        if tid(t) in ("array", "vector"):
            if not isinstance(v, tuple) or len(v) != n: raise ExecError("vector store shape")
            o.cells[off:off + n] = list(v)
        else:
            o.cells[off] = v
    # ---- expressions
    def eval(self, e):
        i = tid(e)
        if i == "constant":
            t = nsub(e, "type"); ti = tid(t); val = nsub(e, "value")["id"]
            if ti in ("signedbv", "unsignedbv"): return self.wrap(int(val, 16), t)
            if ti in ("bool", "c_bool"): return val in ("true", "1")
            if ti == "floatbv": return self.float_const(int(val, 16), t)
            if ti == "pointer":
                if val == "NULL" or int(val, 16) == 0: return NULL
            raise ExecError("constant of type " + ti)
        if i == "symbol":
            o, off = self.place(e); return self.load(o, off, nsub(e, "type"))
        if i in ("index", "dereference", "member"):
            o, off = self.place(e); return self.load(o, off, nsub(e, "type"))
        if i == "address_of":
            o, off = self.place(e["sub"][0]); return Ptr(o, off)
        if i == "typecast": return self.cast(self.eval(e["sub"][0]), nsub(e["sub"][0], "type"), nsub(e, "type"))
        if i in ("+", "-", "*", "/", "mod", "shl", "ashr", "lshr", "bitand", "bitor", "bitxor"):
            return self.arith(i, e)
        if i == "unary-":
            v = self.eval(e["sub"][0]); t = nsub(e, "type")
            if isinstance(v, FV): return FV(self.dom.neg(v.sym), None if v.num is None else -v.num)
            if isinstance(v, tuple): return tuple(FV(self.dom.neg(x.sym), None if x.num is None else -x.num) for x in v)
            return self.wrap(-v, t)
        if i in ("=", "notequal", "<", "<=", ">", ">="): return self.compare(i, e)
        if i == "ieee_float_equal": return self.compare("=", e)
        if i == "ieee_float_notequal": return self.compare("notequal", e)
        if i == "not": return not self.truth(self.eval(e["sub"][0]))
        if i == "and":
            for s in e["sub"]:
                if not self.truth(self.eval(s)): return False
            return True
        if i == "or":
            for s in e["sub"]:
                if self.truth(self.eval(s)): return True
            return False
        if i == "if":
            return self.eval(e["sub"][1]) if self.truth(self.eval(e["sub"][0])) else self.eval(e["sub"][2])
        if i in ("vector", "array"):
            return tuple(self.eval(s) for s in e["sub"])
        if i == "string_constant":
            val = nsub(e, "value")["id"]; n = self.cells(nsub(e, "type"))
            return tuple(([ord(ch) for ch in val] + [0] * n)[:n])
        if i == "side_effect":
            raise ExecError("side effect expression: " + nsub(e, "statement")["id"])
        raise ExecError("unsupported expression " + i)
    def truth(self, v):
        if isinstance(v, bool): return v
        if isinstance(v, int): return v != 0
        if isinstance(v, Ptr): return v.obj is not None
        raise ExecError("truth value of %r" % (v,))
    def float_const(self, bits, t):
        w = twidth(t); f = int(nsub(t, "f")["id"]); ebits = w - f - 1
        sign = bits >> (w - 1); exp = (bits >> f) & ((1 << ebits) - 1); man = bits & ((1 << f) - 1)
        bias = (1 << (ebits - 1)) - 1
        if exp == (1 << ebits) - 1: raise ExecError("non-finite float constant")
        q = Fraction(man, 1 << f) * Fraction(2) ** (1 - bias) if exp == 0 else (1 + Fraction(man, 1 << f)) * Fraction(2) ** (exp - bias)
        return self.fconst(-q if sign else q)
    def cast(self, v, tfrom, tto):
        a, b = tid(tfrom), tid(tto)
        if b in ("signedbv", "unsignedbv"):
            if isinstance(v, bool): return int(v)
            if isinstance(v, int): return self.wrap(v, tto)
            if isinstance(v, FV) and v.num is not None:
                q = v.num; return self.wrap(int(q) if q >= 0 else -int(-q), tto)        # conversion of a floating value to an integer truncates towards zero
            if isinstance(v, Ptr) and v.obj is None: return 0
            raise ExecError("cast %s -> %s" % (a, b))
        if b in ("bool", "c_bool"): return self.truth(v)
        if b == "floatbv":
            if isinstance(v, FV):
                if a == "floatbv" and twidth(tto) < twidth(tfrom): return FV(self.dom.narrow(v.sym), v.num)
                return v
            if isinstance(v, (int, bool)): return self.fconst(int(v))
        if b == "pointer":
            if isinstance(v, Ptr): return v
            if isinstance(v, int) and v == 0: return NULL
        if b == "vector":
            if isinstance(v, tuple): return v
            n = self.cells(tto)
            return (self.cast(v, tfrom, tto["sub"][0]),) * n       # scalar -> vector broadcast
        if b == "empty": return None
        raise ExecError("unsupported cast %s -> %s of %r" % (a, b, v))
    def fop(self, op, x, y):
        d = self.dom
        if op == "+": return FV(d.add(x.sym, y.sym), None if x.num is None or y.num is None else x.num + y.num)
        if op == "-": return FV(d.sub(x.sym, y.sym), None if x.num is None or y.num is None else x.num - y.num)
        if op == "*": return FV(d.mul(x.sym, y.sym), None if x.num is None or y.num is None else x.num * y.num)
        if op == "/":
            num = None if x.num is None or y.num is None or y.num == 0 else x.num / y.num
            return FV(d.div(x.sym, y.sym), num)
        raise ExecError("float op " + op)
    def arith(self, op, e):
        t = nsub(e, "type"); ti = tid(t)
        vs = [self.eval(s) for s in e["sub"]]
        if ti == "pointer":
            p = vs[0]; k = vs[1] if len(vs) > 1 else 0
            if isinstance(k, Ptr): p, k = k, p
            if not isinstance(p, Ptr): raise ExecError("pointer arithmetic on %r" % (p,))
            n = self.cells(t["sub"][0]) if tid(t["sub"][0]) != "empty" else 1
            k = self.int_of(k)
            return Ptr(p.obj, p.off + (k if op == "+" else -k) * n)
        if ti == "floatbv":
            acc = vs[0]
            for v in vs[1:]: acc = self.fop(op, acc, v)
            return acc
        if ti == "vector":
            n = self.cells(t)
            def lanes(v): return v if isinstance(v, tuple) else (v,) * n
            acc = lanes(vs[0])
            for v in vs[1:]:
                w = lanes(v); acc = tuple(self.fop(op, a, b) for a, b in zip(acc, w))
            return acc
        if ti in ("signedbv", "unsignedbv"):
            if isinstance(vs[0], Ptr) and isinstance(vs[1], Ptr) and op == "-":
                if vs[0].obj is not vs[1].obj: raise ExecError("difference of pointers into different objects")
                return vs[0].off - vs[1].off
            a = [self.int_of(v) for v in vs]
            acc = a[0]
            for b in a[1:]:
                if op == "+": acc += b
                elif op == "-": acc -= b
                elif op == "*": acc *= b
                elif op == "/":
                    if b == 0: raise ExecError("integer division by zero")
                    acc = abs(acc) // abs(b) * (1 if (acc >= 0) == (b >= 0) else -1)
                elif op == "mod":
                    if b == 0: raise ExecError("integer modulo by zero")
                    acc = acc - b * (abs(acc) // abs(b) * (1 if (acc >= 0) == (b >= 0) else -1))
                elif op == "shl": acc <<= b
                elif op in ("ashr", "lshr"): acc >>= b
                elif op == "bitand": acc &= b
                elif op == "bitor": acc |= b
                elif op == "bitxor": acc ^= b
            return self.wrap(acc, t)
        raise ExecError("arith on type " + ti)
    def compare(self, op, e):
        a = self.eval(e["sub"][0]); b = self.eval(e["sub"][1])
        if isinstance(a, FV) or isinstance(b, FV):
            if not (isinstance(a, FV) and isinstance(b, FV)): raise ExecError("mixed comparison")
            if a.num is None or b.num is None:
                # IEEE special values injected by a caller as ("special", name): ordered comparisons as the hardware does them
                sp = {"nan": float("nan"), "inf": float("inf"), "-inf": float("-inf"), "-0": 0.0}
                def fl(v):
                    if v.num is not None: return v.num
                    if isinstance(v.sym, tuple) and len(v.sym) == 2 and v.sym[0] == "special" and v.sym[1] in sp: return sp[v.sym[1]]
                    raise ExecError("comparison on a non-finite witness value")
                x, y = fl(a), fl(b)
                return {"=": x == y, "notequal": x != y, "<": x < y, "<=": x <= y, ">": x > y, ">=": x >= y}[op]
            r = {"=": a.num == b.num, "notequal": a.num != b.num, "<": a.num < b.num, "<=": a.num <= b.num, ">": a.num > b.num, ">=": a.num >= b.num}[op]
            self.comparisons.append((op, a.sym, b.sym, a.num, b.num, r))
            return r
        if isinstance(a, Ptr) or isinstance(b, Ptr):
            if not isinstance(a, Ptr): a = NULL if a == 0 else a
            if not isinstance(b, Ptr): b = NULL if b == 0 else b
            same = (a.obj is b.obj and a.off == b.off)
            if op == "=": return same
            if op == "notequal": return not same
            raise ExecError("pointer ordering")
        a = self.int_of(a); b = self.int_of(b)
        return {"=": a == b, "notequal": a != b, "<": a < b, "<=": a <= b, ">": a > b, ">=": a >= b}[op]
    # ---- execution
    def call(self, fname, args):
        if fname in self.hooks:
            return self.hooks[fname](self, args)
        body = self.prog.functions.get(fname)
        if body is None: raise ExecError("call of undefined function " + fname)
        params = self.param_names(fname, len(args))
        fr = {}
        for n, v in zip(params, args):
            o = Obj(n, 1); o.cells[0] = v; fr[n] = o
        self.frames.append(fr)
        try:
            return self.run(fname, body)
        except ExecError as ex:
            if not getattr(ex, "where", None):                    # innermost function and source line, once
                ex.where = fname; ins = getattr(self, "_cur", None)
                line = ((ins or {}).get("sourceLocation") or {}).get("line", "?") if isinstance(ins, dict) else "?"
                ex.loc = " [in %s, line %s of the extracted text]" % (fname, line)      # kept beside the message: obligation names built from messages stay stable
            raise
        finally:
            self.frames.pop()
    def param_names(self, fname, n):
        pn = self.prog_params.get(fname)
        if pn is None or len(pn) != n: raise ExecError("parameter names of %s unknown (%r)" % (fname, pn))
        return pn
    prog_params = {}
    def run(self, fname, body):
        idx = self.prog.locidx[fname]; pc = 0; retval = None; fr = self.frames[-1]
        while True:
            self.steps += 1
            if self.steps > self.max_steps: raise ExecError("step limit")
            ins = body[pc]; k = ins["instructionId"]; self._cur = ins
            if k == "ASSIGN":
                lhs, rhs = ins["code"]["sub"]
                if tid(rhs) == "side_effect" and nsub(rhs, "statement")["id"] == "nondet":
                    raise ExecError("nondet assignment")
                v = self.eval(rhs)
                o, off = self.place(lhs); self.store(o, off, nsub(lhs, "type"), v)
            elif k == "DECL":
                s = ins["code"]["sub"][0]; t = nsub(s, "type"); n = nsub(s, "identifier")["id"]
                fr[n] = Obj(n, self.cells(t))
            elif k == "DEAD":
                n = nsub(ins["code"]["sub"][0], "identifier")["id"]
                if n in fr: fr[n].live = False
            elif k == "GOTO":
                if self.truth(self.eval(ins["guard"])):
                    pc = idx[ins["targets"][0]]; continue
            elif k == "FUNCTION_CALL":
                sub = ins["code"]["sub"]
                lhs, fn, args = sub[0], sub[1], sub[2]
                callee = nsub(fn, "identifier")["id"]
                vals = [self.eval(a) for a in args.get("sub", [])]
                r = self.call(callee, vals)
                if tid(lhs) != "nil":
                    o, off = self.place(lhs); self.store(o, off, nsub(lhs, "type"), r)
            elif k == "SET_RETURN_VALUE":
                retval = self.eval(ins["code"]["sub"][0])
            elif k == "ASSERT":
                if not self.truth(self.eval(ins["guard"])): raise ExecError("assertion violated: " + ins["instruction"].strip().splitlines()[-1])
            elif k == "ASSUME":
                if not self.truth(self.eval(ins["guard"])): raise ExecError("assumption violated")
            elif k == "END_FUNCTION":
                return retval
            elif k in ("SKIP", "LOCATION", "OTHER"):
                if k == "OTHER":
                    st = nsub(ins["code"], "statement")["id"] if "code" in ins else ""
                    if st not in ("expression", "skip", ""): raise ExecError("unsupported OTHER " + st)
            else:
                raise ExecError("unsupported instruction " + k)
            pc += 1
