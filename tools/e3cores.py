"""E3-term obligations for the N-D block walkers: the result term of a core on
opaque inputs is compared with the tensor-product sum written from the property."""
import itertools
from . import gotoexec as G, units, vlib, e3lib as E
from specs import table as T

def core_program(name, Float, tag="", **kw):
    e = units.scalar_core(name, **kw)
    text = T.PRELUDE + "#define Float %s\n" % Float + e.full_text
    prog = G.Program.compile(text, vlib.workdir(), "core_%s_%s%s" % (e.name, Float, tag))
    return prog, {e.name: E.param_names(e.header, e.name)}, e

def strides_of(naxes):
    nd = len(naxes); s = [1] * nd
    for d in range(nd - 2, -1, -1): s[d] = s[d + 1] * naxes[d + 1]
    return s

def setup_table(it, orders, naxes, coef_sym=True):
    nd = len(orders); strides = strides_of(naxes); ncoef = strides[0] * naxes[0]
    it.set_global("ndim", nd)
    it.set_global("order", G.Ptr(it.array("order", list(orders)), 0))
    it.set_global("strides", G.Ptr(it.array("strides", strides), 0))
    it.set_global("naxes", G.Ptr(it.array("naxes", list(naxes)), 0))
    coefs = [it.fsym("c%d" % i, i + 1) for i in range(ncoef)]
    it.set_global("coefficients", G.Ptr(it.array("coefficients", coefs), 0))
    return strides

def run_core(prog, params, fname, dom, orders, naxes, centers):
    it = G.Interp(prog, dom); it.prog_params = params
    it.hooks["__builtin_expect"] = lambda it, a: a[0]
    nd = len(orders); maxdeg = max(orders) + 1
    strides = setup_table(it, orders, naxes)
    lb = [None] * (nd * maxdeg)
    for d in range(nd):
        for i in range(orders[d] + 1): lb[d * maxdeg + i] = it.fsym("b%d_%d" % (d, i), 1)
    lbo = it.array("localbasis", lb)
    co = it.array("centers", list(centers))
    r = it.call(fname, [G.Ptr(co, 0), maxdeg, G.Ptr(lbo, 0), maxdeg])
    return r, strides

def spec_term(dom, orders, centers, strides, lbname=None):
    """value = sum over the whole (order+1)^ndim block, row-major, of
       (((1*b0[k0])*b1[k1])...*b[D-1][k]) * coefficient   -- written from the property"""
    nd = len(orders); lbname = lbname or (lambda d, i: "b%d_%d" % (d, i))
    res = dom.const(0)
    for ks in itertools.product(*[range(o + 1) for o in orders]):
        P = dom.const(1)
        for d in range(nd - 1): P = dom.mul(P, dom.symbol(lbname(d, ks[d])))
        pos = sum((centers[d] - orders[d] + ks[d]) * strides[d] for d in range(nd))
        res = dom.add(res, dom.mul(dom.mul(P, dom.symbol(lbname(nd - 1, ks[nd - 1]))), dom.symbol("c%d" % pos)))
    return res

def shapes_for(orders, seed=0):
    """(naxes, centers) choices: minimal axes with the only admissible center, and
    longer unequal axes with centers at the low end / high end / middle"""
    nd = len(orders)
    out = []
    out.append(([o + 1 for o in orders], [o for o in orders]))
    na = [o + 2 + (d % 3) for d, o in enumerate(orders)]
    out.append((na, [o for o in orders]))                                   # lowest admissible centers
    out.append((na, [n - 1 for n in na]))                                   # highest admissible centers
    out.append((na, [o + ((n - 1 - o) + (d % 2)) // 2 for d, (o, n) in enumerate(zip(orders, na))]))
    return out
