"""Interpreter hooks for the extracted FITS code: allocator with byte accounting, the std:: algorithms the rewrite rules
name, libc strings, and cfitsio answered by specs/fitsmodel.py (assumed contract, cross-checked natively)."""
from fractions import Fraction as Fr
from . import gotoexec as G
from specs import fitsmodel as M

def fv(v):
    if isinstance(v, str): return G.FV(("special", v), None)
    return G.FV(Fr(v), Fr(v))
def unfv(c):
    if c is None: return None
    if isinstance(c, G.FV): return c.sym[1] if c.num is None else c.num
    return c

def cstring(p):
    out = []; k = p.off
    while True:
        if not p.obj.live: raise G.MemError("read of a freed string")
        if k < 0 or k >= len(p.obj.cells): raise G.MemError("string read past its storage (%s)" % p.obj.name)
        c = p.obj.cells[k]
        if c is None: raise G.ExecError("uninitialised byte in a string (%s[%d])" % (p.obj.name, k))
        if c == 0: return "".join(out)
        out.append(chr(c)); k += 1
def put_string(p, s, room=None):
    if room is not None and len(s) + 1 > room: raise G.MemError("string of %d characters written into %d bytes" % (len(s), room))
    if p.off < 0 or p.off + len(s) + 1 > len(p.obj.cells): raise G.MemError("string write past storage of %s" % p.obj.name)
    for k, ch in enumerate(s): p.obj.cells[p.off + k] = ord(ch)
    p.obj.cells[p.off + len(s)] = 0
def rd(p):
    if p.obj is None: raise G.MemError("read through a null pointer")
    if not p.obj.live: raise G.MemError("access to dead object " + p.obj.name)
    if p.off < 0 or p.off >= len(p.obj.cells): raise G.MemError("out-of-bounds read %s[%d]" % (p.obj.name, p.off))
    v = p.obj.cells[p.off]
    if v is None: raise G.ExecError("read of uninitialised %s[%d]" % (p.obj.name, p.off))
    return v
def wr(p, v, k=0):
    if p.obj is None: raise G.MemError("write through a null pointer")
    if not p.obj.live: raise G.MemError("access to dead object " + p.obj.name)
    if p.off + k < 0 or p.off + k >= len(p.obj.cells): raise G.MemError("out-of-bounds write %s[%d] (size %d)" % (p.obj.name, p.off + k, len(p.obj.cells)))
    p.obj.cells[p.off + k] = v

class Alloc:
    """byte accounting of the table's allocator (allocate<T>(n) / deallocate(p, n))"""
    def __init__(self, limit_elems=1 << 22, faults=None):
        self.live = {}; self.cur = 0; self.peak = 0; self.log = []; self.limit = limit_elems; self.news = []; self.null_deallocs = 0
        self.faults = faults          # shared AllocFaults: injection of one std::bad_alloc (only in functions extracted with R31)
    def install(self, it):
        def h_alloc(it_, a):
            es, n = a
            if n > self.limit: raise AllocTooLarge("allocate of %d elements of %d bytes" % (n, es))
            f = self.faults
            if f is not None and f.enabled:
                k = f.count; f.count += 1
                if k == f.fail_at:
                    it_.globals["vp_thrown"].cells[0] = 1; f.fired = True; return G.NULL      # std::bad_alloc
            o = it_.new_obj("alloc", n); self.live[id(o)] = (o, es * n); self.cur += es * n; self.peak = max(self.peak, self.cur); self.log.append(("allocate", es, n)); return G.Ptr(o, 0)
        def h_dealloc(it_, a):
            p, n = a
            if isinstance(p, G.Ptr) and p.obj is None and n == 0:
                self.null_deallocs += 1; return None       # deallocate(nullptr, 0): tolerated (observation only; harmless with std::allocator)
            if not isinstance(p, G.Ptr) or p.obj is None: raise G.MemError("deallocate of a null / non-pointer value %r" % (p,))
            if id(p.obj) not in self.live:
                raise G.MemError("deallocate of %r: %s" % (p, "double deallocate" if not p.obj.live else "not a block of the allocator"))
            if p.off != 0 or len(p.obj.cells) != n: raise G.MemError("deallocate(%r, %d): not the start / not the size of the allocation (%d elements)" % (p, n, len(p.obj.cells)))
            o, b = self.live.pop(id(p.obj)); o.live = False; self.cur -= b; self.log.append(("deallocate", b, n))
        def h_new(it_, a):
            if a[1] > self.limit: raise AllocTooLarge("new[] of %d elements" % a[1])
            o = it_.new_obj("new", a[1]); self.news.append(o); return G.Ptr(o, 0)
        it.hooks.update(vp_allocate=h_alloc, vp_deallocate=h_dealloc, vp_new=h_new)

class AllocTooLarge(G.ExecError): pass
class AllocFaults:
    def __init__(self, fail_at=None): self.fail_at = fail_at; self.count = 0; self.enabled = False; self.fired = False

def install_algorithms(it):
    def span(f, l):
        if f.obj is not l.obj or l.off < f.off: raise G.MemError("iterator range spans objects / is reversed")
        if not f.obj.live: raise G.MemError("range in a dead object")
        if f.off < 0 or l.off > len(f.obj.cells): raise G.MemError("range [%d,%d) outside %s of size %d" % (f.off, l.off, f.obj.name, len(f.obj.cells)))
        return f.obj, f.off, l.off
    def h_copy(it_, a):
        o, lo, hi = span(a[0], a[1]); d = a[2]; n = hi - lo
        if n and (d.obj is None or not d.obj.live or d.off < 0 or d.off + n > len(d.obj.cells)): raise G.MemError("std::copy of %d elements out of bounds of the destination" % n)
        seg = o.cells[lo:hi]
        if any(c is None for c in seg): raise G.ExecError("std::copy of uninitialised data from %s" % o.name)
        if n: d.obj.cells[d.off:d.off + n] = seg
        return G.Ptr(d.obj, d.off + n)
    def h_fill(it_, a):
        o, lo, hi = span(a[0], a[1])
        for k in range(lo, hi): o.cells[k] = a[2]
    def h_fill_null(it_, a):
        o, lo, hi = span(a[0], a[1])
        for k in range(lo, hi): o.cells[k] = G.NULL
    def h_fill_n(it_, a):
        p, n, v = a
        if p.off < 0 or p.off + n > len(p.obj.cells): raise G.MemError("fill_n out of bounds")
        for k in range(n): p.obj.cells[p.off + k] = v
    def h_key_name(it_, a): put_string(a[0], cstring(a[1]) + str(a[2]), 32)
    def h_copy_rev(it_, a):
        src, n, dst = a
        for k in range(n): wr(dst, rd(G.Ptr(src.obj, src.off + n - 1 - k)) & (2**64 - 1), k)
    def h_partial(it_, a):
        o, lo, hi = span(a[0], a[1]); dst = a[2]; acc = None
        for k in range(lo, hi):
            v = rd(G.Ptr(o, k)) & (2**64 - 1)
            acc = v if acc is None else (acc * v) & (2**64 - 1)
            wr(dst, acc, k - lo)
    def h_reverse(it_, a):
        o, lo, hi = span(a[0], a[1]); seg = o.cells[lo:hi]
        if any(c is None for c in seg): raise G.ExecError("std::reverse of uninitialised data")
        o.cells[lo:hi] = seg[::-1]
    def h_product(it_, a):
        o, lo, hi = span(a[0], a[1]); acc = 1
        for k in range(lo, hi): acc = acc * rd(G.Ptr(o, k))
        acc &= 2**64 - 1
        return acc - 2**64 if acc >> 63 else acc
    def cmp(x, y, n):
        for k in range(n):
            cx = rd(G.Ptr(x.obj, x.off + k)); cy = rd(G.Ptr(y.obj, y.off + k))
            if cx != cy: return -1 if cx < cy else 1
            if cx == 0: return 0
        return 0
    def h_snprintf(it_, a):
        buf, size, fmt = a[0], a[1], cstring(a[2]); rest = list(a[3:]); out = ""; k = 0
        while k < len(fmt):
            if fmt[k] == "%" and k + 1 < len(fmt) and fmt[k + 1] in "du": out += str(rest.pop(0)); k += 2
            elif fmt[k] == "%": raise G.ExecError("snprintf format " + fmt)
            else: out += fmt[k]; k += 1
        put_string(buf, out[:max(size - 1, 0)])
        return len(out)
    it.hooks["vp_isfinite"] = lambda it_, a: int(a[0].num is not None)
    it.hooks.update(vp_copy=h_copy, vp_fill=h_fill, vp_fill_null=h_fill_null, vp_fill_n_long=h_fill_n, vp_key_name=h_key_name, vp_copy_reverse_long_u64=h_copy_rev,
                    vp_partial_product_long_u64=h_partial, vp_reverse=h_reverse, vp_product_long_i64=h_product,
                    strlen=lambda it_, a: len(cstring(a[0])), strncmp=lambda it_, a: cmp(a[0], a[1], a[2]), snprintf=h_snprintf)

def install_cfitsio(it, session, consts):
    """cfitsio convention: every routine returns immediately if *status > 0 on entry"""
    S = session
    def status(p): return rd(p)
    def guard(fn):
        def h(it_, a):
            stp = a[-1]; st = status(stp)
            S.calls.append(fn.__name__)
            if st > 0: return st
            new = fn(it_, a)
            wr(stp, new); return new
        return h
    def open_file(it_, a):
        wr(a[0], G.Ptr(it_.array('fitsfile', [0]), 0)); return 0 if S.f is not None else 104
    def get_num_hdus(it_, a): wr(a[1], S.get_num_hdus()); return 0
    def movabs_hdu(it_, a):
        st, typ = S.movabs_hdu(a[1])
        if not st and a[2].obj is not None: wr(a[2], typ)
        return st
    def get_img_dim(it_, a):
        st, n = S.get_img_dim()
        if not st: wr(a[1], n)
        return st
    def get_img_size(it_, a):
        st, ax = S.get_img_size(a[1])
        if not st:
            for k, v in enumerate(ax): wr(a[2], v, k)
        return st
    def get_hdrspace(it_, a):
        st, n = S.get_hdrspace()
        if not st:
            wr(a[1], n)
            if a[2].obj is not None: wr(a[2], 0)
        return st
    def read_keyn(it_, a):
        st, k, v = S.read_keyn(a[1])
        if not st: put_string(a[2], k, consts["FLEN_KEYWORD"]); put_string(a[3], v, consts["FLEN_VALUE"])
        return st
    def read_key(it_, a):
        typ, name, dst = a[1], cstring(a[2]), a[3]
        if typ == consts["TINT"]:
            st, v = S.read_key_long(name)
            if not st and not (-2**31 <= v <= 2**31 - 1): st = M.NUM_OVERFLOW
            if not st: wr(dst, v & 0xffffffff)          # the caller passes the address of a uint32_t
        elif typ == consts["TUINT"]:
            st, v = S.read_key_long(name)
            if not st and not (0 <= v <= 2**32 - 1): st = M.NUM_OVERFLOW
            if not st: wr(dst, v)
        elif typ == consts["TDOUBLE"]:
            st, v = S.read_key_double(name)
            if not st: wr(dst, fv(v))
        else: raise G.ExecError("fits_read_key with datatype %d is not modelled" % typ)
        return st
    def read_pix(it_, a):
        typ, fpix, nelem, dst = a[1], a[2], a[3], a[5]
        nax = len(S.hdu().axes); first = 1; mult = 1
        for k in range(nax):
            first += (rd(G.Ptr(fpix.obj, fpix.off + k)) - 1) * mult; mult *= S.hdu().axes[k]
        st, vals = S.read_pix(first, nelem)
        if not st:
            for k, v in enumerate(vals): wr(dst, fv(v), k)
        return st
    def movnam_hdu(it_, a): return S.movnam_hdu(cstring(a[2]))
    for n, f in (("fits_open_file", open_file), ("fits_get_num_hdus", get_num_hdus), ("fits_movabs_hdu", movabs_hdu), ("fits_get_img_dim", get_img_dim), ("fits_get_img_size", get_img_size),
                 ("fits_get_hdrspace", get_hdrspace), ("fits_read_keyn", read_keyn), ("fits_read_key", read_key), ("fits_read_pix", read_pix), ("fits_movnam_hdu", movnam_hdu)):
        f.__name__ = n; it.hooks[n] = guard(f)

def io_fault(it):
    """fault injection for the writer side: the k-th attempted cfitsio call (it.fail_at) fails without doing anything"""
    k = getattr(it, "io_calls", 0); it.io_calls = k + 1
    return getattr(it, "fail_at", None) == k

def install_cfitsio_writer(it, writer, consts):
    W = writer
    def guard(fn):
        def h(it_, a):
            stp = a[-1]; st = rd(stp)
            if st > 0: return st
            if io_fault(it_): wr(stp, 106); return 106        # WRITE_ERROR
            new = fn(it_, a); wr(stp, new); return new
        return h
    def create_img(it_, a):
        bitpix, naxis, ax = a[1], a[2], a[3]
        return W.create_img(bitpix, [rd(G.Ptr(ax.obj, ax.off + k)) for k in range(naxis)])
    def write_pix(it_, a):
        typ, fpix, nelem, src = a[1], a[2], a[3], a[4]
        h = W.hdu(); first = 1; mult = 1
        for k in range(len(h.axes)):
            first += (rd(G.Ptr(fpix.obj, fpix.off + k)) - 1) * mult; mult *= h.axes[k]
        want = {consts["TFLOAT"]: -32, consts["TDOUBLE"]: -64}[typ]
        if want != h.bitpix: raise G.ExecError("fits_write_pix with a datatype that differs from the image type is not modelled")
        return W.write_pix(first, [unfv(rd(G.Ptr(src.obj, src.off + k))) for k in range(nelem)])
    def write_key_any(update):
        def f(it_, a):
            typ, name, val, comm = a[1], cstring(a[2]), a[3], (cstring(a[4]) if a[4].obj is not None else None)
            if typ == consts["TSTRING"]: return W.write_key(name, M.quote_string(cstring(val)), comm, True, update)
            if typ == consts["TINT"]:
                v = rd(val) & 0xffffffff
                if v >> 31: v -= 1 << 32                    # the callee reads an int
                return W.write_key(name, str(v), comm, False, update)
            if typ == consts["TDOUBLE"]:
                v = unfv(rd(val))
                if isinstance(v, str): raise G.ExecError("fits_write_key(TDOUBLE) of a non-finite value is not modelled")
                return W.write_key(name, M.fmt_double(float(v)), comm, False, update)
            raise G.ExecError("fits_write_key with datatype %d is not modelled" % typ)
        return f
    for n, f in (("fits_create_img", create_img), ("fits_write_pix", write_pix), ("fits_write_key", write_key_any(False)), ("fits_update_key", write_key_any(True))):
        it.hooks[n] = guard(f)
