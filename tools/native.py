"""Native replay drivers: compiled on demand against /repo's current sources."""
import os, subprocess, hashlib
from . import vlib

def build_driver(name, extra_src=(), sanitize=True, defines=()):
    """compile tools/replay/<name>.cpp (+ repo sources) into the run's workdir"""
    out = os.path.join(vlib.workdir(), "replay_" + name)
    if os.path.exists(out): return out
    src = os.path.join(vlib.VERIF, "tools", "replay", name + ".cpp")
    srcs = [src] + [os.path.join(vlib.REPO, s) for s in extra_src]
    san = "-fsanitize=address,undefined -fno-sanitize-recover=undefined" if sanitize else ""
    cmd = ("g++ -std=c++11 -g -O1 %s -fno-access-control %s -I%s/include -I%s/tools/replay %s -lcfitsio -o %s"
           % (san, " ".join("-D" + d for d in defines), vlib.REPO, vlib.VERIF, " ".join(srcs), out))
    rc, o, w = vlib.sh(cmd, timeout=600)
    if rc != 0:
        raise RuntimeError("replay driver does not build: " + o[-1500:])
    return out

def run_driver(exe, input_text, tag, timeout=120, env=None):
    path = os.path.join(vlib.workdir(), "replay_input_%s.txt" % tag)
    with open(path, "w") as f: f.write(input_text)
    e = dict(os.environ); e["ASAN_OPTIONS"] = "detect_leaks=0"
    if env: e.update(env)
    rc, out, w = vlib.sh("%s %s" % (exe, path), timeout=timeout, env=e)
    return rc, out
