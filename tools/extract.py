#!/usr/bin/env python3
"""Mechanical extraction of C-like functions from photospline's C++ sources.

Every run re-reads /repo.  A function is located by a regular expression on
its (template-stripped) signature; its body is the balanced-brace text taken
*verbatim*; a fixed list of syntactic rewrite rules (DESIGN.md section 3.2) is
applied.  Rules that are marked must-fire and do not fire, or a signature that
cannot be found, raise ExtractionError (=> exit 2 "extraction out of date",
never a violation).

Loop contracts are inserted by ordinal (n-th loop keyword in the function).
"""
import re, hashlib

REPO = "/repo"

class ExtractionError(Exception):
    pass

def read(path):
    with open(path, encoding="utf-8", errors="replace") as f:
        return f.read()

def blank_comments_and_strings(s):
    """Return s with comments and string/char literals replaced by spaces
    (same length, newlines kept) so that brace matching is reliable."""
    out = list(s)
    i, n = 0, len(s)
    while i < n:
        c = s[i]
        if s.startswith("//", i):
            j = s.find("\n", i)
            j = n if j < 0 else j
            for k in range(i, j): out[k] = " "
            i = j
        elif s.startswith("/*", i):
            j = s.find("*/", i + 2)
            j = n if j < 0 else j + 2
            for k in range(i, j):
                if out[k] != "\n": out[k] = " "
            i = j
        elif c == '"' or c == "'":
            q = c; j = i + 1
            while j < n and s[j] != q:
                if s[j] == "\\": j += 1
                j += 1
            for k in range(i + 1, min(j, n)): 
                if out[k] != "\n": out[k] = " "
            i = j + 1
        else:
            i += 1
    return "".join(out)

def match_close(blank, i, open_ch, close_ch):
    """blank[i] == open_ch; return index of the matching close_ch."""
    assert blank[i] == open_ch, (blank[i-20:i+20])
    depth = 0
    for j in range(i, len(blank)):
        if blank[j] == open_ch: depth += 1
        elif blank[j] == close_ch:
            depth -= 1
            if depth == 0: return j
    raise ExtractionError("unbalanced %s at %d" % (open_ch, i))

def strip_comments(s):
    """Remove comments but keep strings (used for the emitted text)."""
    b = blank_comments_and_strings(s)
    out = []
    i = 0
    # rebuild: where b has spaces but s has non-space inside a comment -> space
    # strings are restored from s
    res = list(b)
    # restore string literal contents
    i, n = 0, len(s)
    while i < n:
        if b[i] in "\"'":
            q = b[i]; j = i + 1
            while j < n and b[j] != q: j += 1
            for k in range(i, min(j + 1, n)): res[k] = s[k]
            i = j + 1
        else:
            i += 1
    return "".join(res)

def find_function(src, sig_regex, occurrence=0):
    """Locate a function definition.  sig_regex must match text that ends
    before the parameter list's '('.  Returns (start_of_match, header_text,
    body_text_including_braces, end_index)."""
    blank = blank_comments_and_strings(src)
    ms = list(re.finditer(sig_regex, blank))
    # keep only matches that are definitions: after ')' [const] comes '{'
    defs = []
    for m in ms:
        p = blank.find("(", m.end() - 1)
        if p < 0: continue
        q = match_close(blank, p, "(", ")")
        r = q + 1
        mm = re.match(r"\s*(const)?\s*(__attribute__\s*\(\(.*?\)\))?\s*\{", blank[r:], re.S)
        if not mm: continue
        b0 = r + mm.end() - 1
        b1 = match_close(blank, b0, "{", "}")
        defs.append((m.start(), src[m.start():q + 1], src[b0:b1 + 1], b1 + 1))
    if len(defs) <= occurrence:
        raise ExtractionError("signature not found: %s (occurrence %d)" % (sig_regex, occurrence))
    return defs[occurrence]

class Rules:
    """Ordered rewrite rules with fire counts."""
    def __init__(self):
        self.counts = {}
    def sub(self, name, pattern, repl, text, must_fire=False, flags=0):
        new, n = re.subn(pattern, repl, text, flags=flags)
        self.counts[name] = self.counts.get(name, 0) + n
        if must_fire and n == 0:
            raise ExtractionError("must-fire rule %s did not fire" % name)
        return new

def functional_casts(rules, text):
    # R3: int(e) / unsigned(e) -> ((int)(e)) ; only when preceded by a non-identifier char
    def fix(kind, text):
        out = []; i = 0
        blank = blank_comments_and_strings(text)
        pat = re.compile(r"(?<![A-Za-z0-9_])%s\s*\(" % kind)
        n = 0
        while True:
            m = pat.search(blank, i)
            if not m: out.append(text[i:]); break
            # skip declarations like "unsigned (" ... not present; skip casts "(int)(" handled by lookbehind on ')'
            p = m.end() - 1
            q = match_close(blank, p, "(", ")")
            out.append(text[i:m.start()])
            out.append("((%s)(%s))" % (kind, text[p + 1:q]))
            i = q + 1; n += 1
        rules.counts["R3_cast_" + kind] = rules.counts.get("R3_cast_" + kind, 0) + n
        return "".join(out)
    # avoid touching C-style casts "(int)(x)": the lookbehind excludes identifiers only,
    # a C cast "(int)(" has ')' between -> 'int' followed by ')' not '(' so pattern does not match
    text = fix("int", text)
    text = fix("unsigned", text)
    return text

def find_loops(body):
    """Return list of dicts {kind, kw_pos, insert_pos, header} for each loop in
    body, ordered by keyword position."""
    blank = blank_comments_and_strings(body)
    loops = []
    consumed_while = set()
    for m in re.finditer(r"(?<![A-Za-z0-9_])(for|while|do)(?![A-Za-z0-9_])", blank):
        kw = m.group(1)
        if kw == "while" and m.start() in consumed_while:
            continue
        if kw in ("for", "while"):
            p = blank.find("(", m.end())
            if blank[m.end():p].strip() != "":
                raise ExtractionError("odd loop header near %r" % body[m.start():m.start()+30])
            q = match_close(blank, p, "(", ")")
            loops.append(dict(kind=kw, kw_pos=m.start(), insert_pos=q + 1,
                              header=" ".join(body[m.start():q + 1].split())))
        else:
            # do-while: body must be a brace block
            mm = re.match(r"\s*\{", blank[m.end():])
            if not mm:
                raise ExtractionError("do without brace block")
            b0 = m.end() + mm.end() - 1
            b1 = match_close(blank, b0, "{", "}")
            mw = re.match(r"\s*while\s*\(", blank[b1 + 1:])
            if not mw:
                raise ExtractionError("do without while")
            wpos = b1 + 1 + mw.start() + (len(mw.group(0)) - len(mw.group(0).lstrip()))
            p = b1 + 1 + mw.end() - 1
            q = match_close(blank, p, "(", ")")
            consumed_while.add(blank.find("while", b1 + 1))
            loops.append(dict(kind="do", kw_pos=m.start(), insert_pos=m.end(),
                              header="do-while " + " ".join(body[p:q + 1].split())))
    loops.sort(key=lambda d: d["kw_pos"])
    return loops

def insert_loop_contracts(body, contracts, fname="?"):
    """contracts: list (by ordinal) of (kind, clause_text) or None.  kind must
    match the loop keyword found; the number of loops must match."""
    loops = find_loops(body)
    if contracts is None:
        return body, loops
    if len(loops) != len(contracts):
        raise ExtractionError("%s: %d loops found, %d loop contracts given" % (fname, len(loops), len(contracts)))
    out = body
    for lp, ct in sorted(zip(loops, contracts), key=lambda t: -t[0]["insert_pos"]):
        if ct is None: continue
        kind, text = ct
        if kind != lp["kind"]:
            raise ExtractionError("%s: loop kind changed (%s expected, %s found: %s)" % (fname, kind, lp["kind"], lp["header"]))
        out = out[:lp["insert_pos"]] + "\n" + text + "\n" + out[lp["insert_pos"]:]
    return out, loops

def sha(s):
    return hashlib.sha256(s.encode()).hexdigest()[:16]
