"""E3 obligations for the 1-D basis routines (C01a, C02a): execute the code that
CBMC's front end compiled from the extracted text over the fraction field
Q(x, knots, padding) and compare with the Cox-de Boor definition."""
import os, re, sys, time
from fractions import Fraction
from . import gotoexec as G, units, vlib
from specs import table as T, basis1d as B

def param_names(header, fname):
    """C header text -> ['fname::p1', ...]"""
    p0 = header.index("("); depth = 0; cur = ""; out = []
    for ch in header[p0 + 1:]:
        if ch == "(": depth += 1
        if ch == ")":
            if depth == 0: break
            depth -= 1
        if ch == "," and depth == 0: out.append(cur); cur = ""
        else: cur += ch
    out.append(cur)
    names = []
    for p in out:
        p = re.sub(r"__attribute__\s*\(\(.*?\)\)", "", p).strip()
        if not p or p == "void": continue
        names.append("%s::%s" % (fname, re.findall(r"[A-Za-z_]\w*", p)[-1]))
    return names

def build_1d_program(Float="float"):
    """one translation unit: searchcenters + the 1-D routines, as extracted"""
    fs = [units.member_function(units.EVAL_H, "searchcenters", "bool"),
          units.free_function(units.BSPLINE_H, "bsplvb_simple"),
          units.free_function(units.BSPLINE_H, "bsplvb"),
          units.free_function(units.BSPLINE_H, "bspline_nonzero"),
          units.free_function(units.BSPLINE_H, "bspline_deriv_nonzero"),
          units.free_function(units.BSPLINE_CPP, "bspline"),
          units.free_function(units.BSPLINE_CPP, "bspline_deriv")]
    order = ["bsplvb", "bsplvb_simple", "bspline_nonzero", "bspline_deriv_nonzero", "bspline", "bspline_deriv", "searchcenters"]
    byname = {f.name: f for f in fs}
    text = T.PRELUDE + "#define Float %s\n" % Float + "".join(byname[n].text(None) for n in order)
    prog = G.Program.compile(text, vlib.workdir(), "e3_1d_" + Float)
    params = {f.name: param_names(f.header, f.name) for f in fs}
    return prog, params, fs

# ---------------------------------------------------------------- shapes and cells
def knot_witness(n, pattern):
    """rational witness knot values: irregular, increasing; pattern = set of m with t_m == t_{m+1}"""
    vals = []; v = Fraction(-3, 2)
    for m in range(n):
        if m > 0 and (m - 1) not in pattern:
            v += Fraction(1 + (m * m) % 3, 1 + m % 2) / 2
        vals.append(v)
    return vals

def cells(n, k, pattern=frozenset()):
    """evaluation cells of a knot vector with n knots: ('open', m) = x in (t_m, t_{m+1}),
    ('knot', m) = x == t_m (m >= 1).  Empty open cells (repeated knots) are skipped."""
    out = []
    for m in range(n - 1):
        if m not in pattern: out.append(("open", m))
    tw = knot_witness(n, pattern)
    for m in range(1, n):
        if tw[m] == tw[0]: continue          # a knot equal to the first knot is outside (first knot, last knot]
        out.append(("knot", m))
    return out

class Shape:
    def __init__(self, k, n, pattern=frozenset()):
        self.k = k; self.n = n; self.pattern = frozenset(pattern)
        # symbol names: identified knots share a name
        names = []
        for m in range(n):
            names.append(names[m - 1] if (m > 0 and (m - 1) in self.pattern) else "t%d" % m)
        self.tnames = names
        self.pads_lo = ["pl%d" % i for i in range(k)]       # knots[-k..-1]
        self.pads_hi = ["ph%d" % i for i in range(k)]       # knots[n..n+k-1]
        self.tw = knot_witness(n, self.pattern)
    def symbols(self):
        seen = []
        for s in ["x"] + self.tnames + self.pads_lo + self.pads_hi:
            if s not in seen: seen.append(s)
        return seen
    def x_witness(self, cell):
        kind, m = cell
        return (self.tw[m] + self.tw[m + 1]) / 2 if kind == "open" else self.tw[m]
    def piece(self, cell):
        """index s of the knot interval [t_s, t_{s+1}] whose polynomial piece the property prescribes"""
        kind, m = cell
        naxes = self.n - self.k - 1
        if kind == "open": return m
        # on a knot: right piece below the upper end of the fully supported range, left piece from there upwards
        if self.tw[m] < self.tw[naxes]:
            s = m
            while s + 1 < self.n and self.tw[s + 1] == self.tw[m]: s += 1     # right piece of a repeated knot
            return s
        s = m - 1
        while s > 0 and self.tw[s] == self.tw[m]: s -= 1                        # left piece
        return s

def cox_de_boor(dom_field, tsym, tw, s, x, order):
    """B_{i,order} restricted to the piece [t_s,t_{s+1}], i = 0..n-order-2, as field
    elements; textbook recursion with the 0/0 := 0 convention for coincident knots."""
    n = len(tsym)
    B = [dom_field.K(1) if i == s else dom_field.K(0) for i in range(n - 1)]
    for j in range(1, order + 1):
        nb = []
        for i in range(n - j - 1):
            acc = dom_field.K(0)
            if tw[i + j] != tw[i] and B[i] != 0:
                acc = acc + (x - tsym[i]) / (tsym[i + j] - tsym[i]) * B[i]
            if tw[i + j + 1] != tw[i + 1] and B[i + 1] != 0:
                acc = acc + (tsym[i + j + 1] - x) / (tsym[i + j + 1] - tsym[i + 1]) * B[i + 1]
            nb.append(acc)
        B = nb
    return B

class Table1D:
    """sets up the interpreter's globals for a 1-D table of the shape with symbolic knots"""
    def __init__(self, prog, params, dom, shape, xw, xname="x"):
        self.it = G.Interp(prog, dom); self.it.prog_params = params
        it = self.it; sh = shape; k, n = sh.k, sh.n
        base = [it.fsym(p, Fraction(977 + 13 * i, 7) * (-1) ** i) for i, p in enumerate(sh.pads_lo)] + \
               [it.fsym(sh.tnames[m], sh.tw[m]) for m in range(n)] + \
               [it.fsym(p, Fraction(-555 + 29 * i, 3) * (-1) ** i) for i, p in enumerate(sh.pads_hi)]
        self.kobj = it.array("knots_storage", base)
        self.kptr = G.Ptr(self.kobj, k)
        it.set_global("ndim", 1)
        it.set_global("order", G.Ptr(it.array("order", [k]), 0))
        it.set_global("nknots", G.Ptr(it.array("nknots", [n]), 0))
        it.set_global("naxes", G.Ptr(it.array("naxes", [n - k - 1]), 0))
        it.set_global("knots", G.Ptr(it.array("knots", [self.kptr]), 0))
        self.x = it.fsym(xname, xw)
    def lookup(self):
        it = self.it
        xo = it.array("x", [self.x]); co = it.array("centers", [None])
        ok = it.call("searchcenters", [G.Ptr(xo, 0), G.Ptr(co, 0)])
        return bool(ok), co.cells[0]

def x_symbol_for(shape, cell):
    """open cell: x is a free symbol; knot cell: x IS the knot (its symbol), so that the obligation
    compares values at the point, not polynomial pieces as functions"""
    kind, m = cell
    return "x" if kind == "open" else shape.tnames[m]

def subs_x(dom, elem, xname, target):
    """elem with generator xname replaced by generator target (field element)"""
    if xname == target: return elem
    xg = dom.symbol(xname).numer; tg = dom.symbol(target).numer
    num = elem.numer.compose(xg, tg); den = elem.denom.compose(xg, tg)
    if den == 0: raise G.ExecError("specification undefined at the knot (0 denominator)")
    return dom.K(num) / dom.K(den)
