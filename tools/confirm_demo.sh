#!/bin/bash
# usage: confirm_demo.sh <prop> <k> <mutant dir> <patch>  -- demo passes on HEAD and fails with the change (scratch copy of /repo HEAD)
prop=$1; k=$2; mdir=$3; patch=$4
work=/tmp/cdemo_${prop}_m$k; rm -rf $work; mkdir -p $work
git -C /repo archive HEAD | tar -x -C $work
wt=/tmp/mut_$prop
runline=$(grep -v "^#" $mdir/run.txt | grep -m1 "g++\|gcc")
cmdline=$(echo "$runline" | sed "s#$wt/include#$work/include#g; s#$wt/src#$work/src#g; s#$wt/test#$work/test#g")
cd $mdir
( eval "$cmdline" ) > $work/base.out 2>&1; rb=$?
( cd $work && git init -q . 2>/dev/null; git apply $patch ) || { echo "$prop m$k: patch does not apply"; rm -rf $work; exit 1; }
( eval "$cmdline" ) > $work/mut.out 2>&1; rm_=$?
echo "$prop m$k: demo on HEAD exit=$rb ($(tail -1 $work/base.out | cut -c1-60)) ; with change exit=$rm_ ($(tail -1 $work/mut.out | cut -c1-60))"
rm -rf $work
