#!/bin/bash
# usage: try_mutant.sh <worktree> <patch.diff> <property> [tier]   -- applies the patch in the scratch worktree, runs the check against it, reverts
wt=$1; patch=$2; prop=$3; tier=${4:-quick}
git -C $wt checkout -q -- . && git -C $wt apply $patch || { echo "patch does not apply"; exit 2; }
mkdir -p /tmp/mutant_evidence /tmp/mutant_replays; VERIF_EVIDENCE_DIR=/tmp/mutant_evidence VERIF_REPLAY_DIR=/tmp/mutant_replays VP_REPO=$wt /verif/checks/run.sh $prop $tier > /tmp/try_$$.log 2>&1; rc=$?
git -C $wt checkout -q -- .
grep -c "^VIOLATION" /tmp/try_$$.log | sed "s/^/violations: /"; grep "^VIOLATION" /tmp/try_$$.log | head -3 | cut -c1-260; grep "^KNOWN\|^UNDECIDED" /tmp/try_$$.log | head -3 | cut -c1-200; tail -1 /tmp/try_$$.log | cut -c1-200; echo "rc=$rc"; rm -f /tmp/try_$$.log
exit $rc
