"""C13 (C half): weakest safety preconditions of the penalty construction in
src/fitter/glam.c, and "a penalty order above the spline order is harmless"
as a contract on add_penalty_term (the entry point called from fit.h)."""
W = "__CPROVER_object_whole"

PRELUDE = r'''
#include <stdio.h>
#include <stdint.h>
#include <stdlib.h>
#include <string.h>
#include <math.h>
#include <assert.h>
#define VP_MAX_NZ %d
#include "%s/stubs/cholmod_stubs.h"
'''

def divided_diffs_contract(OMAX):
    s = "static void divided_diffs(int order, int porder, int j, double* knots, double* out)\n"
    s += "__CPROVER_requires(order >= 0 && order <= %d && porder >= 0 && porder <= order && j >= 0)\n" % OMAX
    # deepest read of the recursion is knots[j+order+porder]
    s += "__CPROVER_requires(porder == 0 || __CPROVER_r_ok(knots, ((size_t)j + (size_t)order + (size_t)porder + 1)*sizeof(double)))\n"
    s += "__CPROVER_requires(__CPROVER_w_ok(out, ((size_t)porder + 1)*sizeof(double)))\n"
    s += "__CPROVER_assigns(%s(out))\n__CPROVER_ensures(1)\n;\n" % W
    return s

def divided_diffs_loops():
    return [("for", "__CPROVER_assigns(i, %s(out))\n__CPROVER_loop_invariant(i >= 1 && i <= porder)\n__CPROVER_decreases(porder - i)" % W)]

def calc_penalty_contract(OMAX, NSMAX, NDMAX):
    s = "cholmod_sparse* calc_penalty(uint64_t* nsplines, double* knots, uint32_t ndim, uint32_t dim, uint32_t order, uint32_t porder, int mono, cholmod_common* c)\n"
    s += "__CPROVER_requires(ndim >= 1 && ndim <= %d && dim < ndim && order <= %d && porder <= order)\n" % (NDMAX, OMAX)
    s += "__CPROVER_requires(__CPROVER_r_ok(nsplines, (size_t)ndim*sizeof(uint64_t)))\n"
    # well-formed table: nsplines = nknots-order-1 >= order+1  (fit()'s duty: 'too few knots')
    s += "__CPROVER_requires(nsplines[dim] >= (uint64_t)order + 1 && nsplines[dim] <= %d)\n" % NSMAX
    s += "__CPROVER_requires(__CPROVER_r_ok(knots, (nsplines[dim] + (size_t)order + 1)*sizeof(double)))\n"
    s += "__CPROVER_assigns(%s(vp_sparse_pool))\n" % W
    s += "__CPROVER_ensures(__CPROVER_return_value != NULL)\n;\n"
    return s

def calc_penalty_loops():
    return [
      ("for", "__CPROVER_assigns(row, col, trip->nnz, %s(divd), %s(trip->i), %s(trip->j), %s(trip->x))\n"
              "__CPROVER_loop_invariant(row >= 0 && (uint64_t)row <= nsplines[dim] - porder && trip->nnz == (size_t)row*((size_t)porder+1) && trip->nzmax == (nsplines[dim]-porder)*(porder+1))\n"
              "__CPROVER_decreases(nsplines[dim] - porder - (uint64_t)row)" % (W, W, W, W)),
      ("for", "__CPROVER_assigns(col, trip->nnz, %s(trip->i), %s(trip->j), %s(trip->x))\n"
              "__CPROVER_loop_invariant(col >= row && col <= row + (long)porder + 1 && trip->nnz == (size_t)row*((size_t)porder+1) + (size_t)(col-row) && (uint64_t)row < nsplines[dim] - porder)\n"
              "__CPROVER_decreases(row + (long)porder + 1 - col)" % (W, W, W)),
      ("for", "__CPROVER_assigns(i, tmp, tmp2, result, %s(vp_sparse_pool))\n"
              "__CPROVER_loop_invariant(i >= 0 && i <= (long)ndim && ((i > 0) == (result != NULL)) && (result == NULL || __CPROVER_same_object(result, vp_sparse_pool)) && __CPROVER_same_object(DtD, vp_sparse_pool))\n__CPROVER_decreases((long)ndim - i)" % W),
    ]

def add_penalty_term_contract(OMAX, NSMAX, NDMAX, PMAX):
    s = "cholmod_sparse* add_penalty_term(uint64_t* nsplines, double* knots, uint32_t ndim, uint32_t dim, uint32_t order, uint32_t porder, double scale, int mono, cholmod_sparse* penalty, cholmod_common* c)\n"
    # NO precondition relating porder to order: the property says a larger penalty order must be harmless
    s += "__CPROVER_requires(ndim >= 1 && ndim <= %d && dim < ndim && order <= %d && porder <= %d)\n" % (NDMAX, OMAX, PMAX)
    s += "__CPROVER_requires(__CPROVER_is_fresh(nsplines, (size_t)ndim*sizeof(uint64_t)))\n"
    s += "__CPROVER_requires(nsplines[dim] >= (uint64_t)order + 1 && nsplines[dim] <= %d)\n" % NSMAX
    s += "__CPROVER_requires(__CPROVER_is_fresh(knots, (nsplines[dim] + (size_t)order + 1)*sizeof(double)))\n"
    s += "__CPROVER_requires(__CPROVER_is_fresh(penalty, sizeof(cholmod_sparse)))\n"
    s += "__CPROVER_assigns(%s(vp_sparse_pool))\n" % W
    s += "__CPROVER_ensures(porder > order ==> __CPROVER_return_value == __CPROVER_old(penalty))\n"
    s += "__CPROVER_ensures(scale == 0.0 ==> __CPROVER_return_value == __CPROVER_old(penalty))\n"
    s += "__CPROVER_ensures(porder == order + 1) /* canary: porder > order reachable */\n"
    s += "__CPROVER_ensures(!(porder <= order && scale != 0.0)) /* canary: regular path reachable */\n"
    s += ";\n"
    return s
