"""Shared vocabulary: the splinetable members as C file-scope variables
(extraction rule R1) and the well_formed predicate pieces."""

PRELUDE = r'''
#include <stdint.h>
#include <stdbool.h>
#include <stddef.h>
#include <assert.h>
/* R1: members of splinetable<Alloc> as file-scope variables (fancy pointers == raw pointers) */
uint32_t ndim; uint32_t* order; double** knots; uint64_t* nknots;
uint64_t* naxes; uint64_t* strides; float* coefficients;
'''

_qn = [0]
def fresh(prefix="q"):
    """quantified-variable names must be unique within one contract"""
    _qn[0] += 1
    return "%s%d" % (prefix, _qn[0])

def forall(N, body_fmt):
    """single constant-range forall; body_fmt uses {q} for the bound variable"""
    q = fresh()
    return "__CPROVER_forall { unsigned %s; (%s < %d) ==> (%s) }" % (q, q, N, body_fmt.format(q=q))

def lg2(n):
    l = n.bit_length() - 1
    assert 1 << l == n, "N must be a power of two"
    return l

def sorted_forall(d, N):
    """knots[d][0..nknots[d]) non-decreasing, as ONE constant-range forall over
    packed index pairs (nested foralls are ignored by the SAT back end)."""
    L = lg2(N)
    return forall(N * N, "((({q}>>%d) < ({q}&%d)) && (({q}&%d) < nknots[%d])) ==> (knots[%d][{q}>>%d] <= knots[%d][{q}&%d])" % (L, N - 1, N - 1, d, d, L, d, N - 1))

def finite_forall(d, N):
    return forall(N, "({q} < nknots[%d]) ==> (knots[%d][{q}] == knots[%d][{q}] && knots[%d][{q}] - knots[%d][{q}] == 0.0)" % (d, d, d, d, d))

def sorted_consequences(d, N):
    """Consequences of 'knots[d][0..nknots[d]) is non-decreasing' that the
    lookup proof needs, each a single linear-size forall (N instances instead
    of N*N).  Every clause is implied by sortedness, so a contract that
    requires only these holds a fortiori for every sorted knot vector."""
    k = "knots[%d]" % d
    return [
      # adjacent pairs
      forall(N - 1, "({q} + 1 < nknots[%d]) ==> (%s[{q}] <= %s[{q}+1])" % (d, k, k)),
      # everything from the upper end of full support upwards is >= knots[naxes]
      forall(N, "(naxes[%d] <= {q} && {q} < nknots[%d]) ==> (%s[naxes[%d]] <= %s[{q}])" % (d, d, k, d, k)),
      # everything up to the lower end of full support is <= knots[order]
      forall(N, "({q} <= order[%d]) ==> (%s[{q}] <= %s[order[%d]])" % (d, k, k, d)),
      "%s[order[%d]] <= %s[naxes[%d]]" % (k, d, k, d),
      "%s[0] <= %s[order[%d]]" % (k, k, d),
    ]
