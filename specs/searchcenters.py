"""Contract of splinetable::searchcenters (properties C04, C05).

Top-level postconditions are the clauses of the property statement, not a
description of the code.  NDMAX dimensions are written out (no quantifier
over dimensions); knot arrays have at most N entries (single packed forall
for sortedness, see DESIGN.md section 2)."""
from .table import PRELUDE, sorted_forall, sorted_consequences

def conj(xs): return " && ".join("(%s)" % x for x in xs) if xs else "1"

def inrange(d):   return "(x[%d] > knots[%d][0] && x[%d] <= knots[%d][nknots[%d]-1])" % (d, d, d, d, d)
def notnan(d):    return "(x[%d] == x[%d])" % (d, d)
def c_bounds(d):  return "(centers[%d] >= 0 && (uint64_t)centers[%d] >= (uint64_t)order[%d] && (uint64_t)centers[%d] + order[%d] + 2 <= nknots[%d])" % (d, d, d, d, d, d)
def interior(d):  return "(x[%d] >= knots[%d][order[%d]] && x[%d] < knots[%d][naxes[%d]])" % (d, d, d, d, d, d)
def bracket(d):   return "(knots[%d][centers[%d]] <= x[%d] && x[%d] < knots[%d][centers[%d]+1])" % (d, d, d, d, d, d)
def himargin(d):  return "(x[%d] >= knots[%d][naxes[%d]])" % (d, d, d)
def lomargin(d):  return "(x[%d] < knots[%d][order[%d]])" % (d, d, d)

def center_post(d, nan_ok):
    """what the property promises about centers[d] once lookup succeeded"""
    cl = [c_bounds(d)]
    if not nan_ok:
        cl += ["%s ==> %s" % (interior(d), bracket(d)),
               "%s ==> centers[%d] == (int)(naxes[%d]-1)" % (himargin(d), d, d),
               "%s ==> centers[%d] == (int)order[%d]" % (lomargin(d), d, d)]
    return conj(cl)

def well_formed_dim(d, N, full_sorted=False):
    """list of requires clauses (is_fresh and each forall in a clause of its
    own: mixing them in one conjunction makes symbolic execution explode)"""
    cl = [conj(["order[%d] <= %d" % (d, N),
                 "nknots[%d] <= %d" % (d, N),
                 "nknots[%d] >= 2*(uint64_t)order[%d] + 2" % (d, d),
                 "naxes[%d] == nknots[%d] - order[%d] - 1" % (d, d, d)]),
          "__CPROVER_is_fresh(knots[%d], %d*sizeof(double))" % (d, N)]
    cl += [sorted_forall(d, N)] if full_sorted else sorted_consequences(d, N)
    return cl

def canaries(NDMAX):
    """extra ensures clauses that MUST FAIL: each shows that a scenario is
    reachable under the preconditions (vacuity guard).  (label, clause)"""
    r = "__CPROVER_return_value"
    return [("lookup can succeed", "!%s" % r),
            ("lookup can fail", r),
            ("low margin reachable", "!(%s && %s)" % (r, lomargin(0))),
            ("high margin reachable", "!(%s && %s)" % (r, himargin(0))),
            ("interior reached through >= 2 bisection steps", "!(%s && %s && order[0] == 1 && nknots[0] >= 8 && centers[0] == 2)" % (r, interior(0))),
            ("x == last knot accepted", "!(%s && x[0] == knots[0][nknots[0]-1])" % r),
            ("repeated knots allowed", "!(%s && knots[0][order[0]+1] == knots[0][order[0]+2])" % r),
            ("last dimension decides", "!(!%s && %s)" % (r, inrange(0)) if NDMAX > 1 else "!(%s && order[0] == 0)" % r)]

def contract(N, NDMAX, nan_ok, full_sorted=False):
    """returns (contract text, number of real ensures clauses, canary labels)"""
    req = ["ndim == %d" % NDMAX,
           "__CPROVER_is_fresh(order, %d*sizeof(uint32_t))" % NDMAX,
           "__CPROVER_is_fresh(nknots, %d*sizeof(uint64_t))" % NDMAX,
           "__CPROVER_is_fresh(naxes, %d*sizeof(uint64_t))" % NDMAX,
           "__CPROVER_is_fresh(knots, %d*sizeof(double*))" % NDMAX,
           "__CPROVER_is_fresh(x, %d*sizeof(double))" % NDMAX,
           "__CPROVER_is_fresh(centers, %d*sizeof(int))" % NDMAX]
    for d in range(NDMAX):
        req += well_formed_dim(d, N, full_sorted)
        if not nan_ok:
            req.append(notnan(d))
    ens = []
    allin = conj(["(ndim > %d) ==> %s" % (d, inrange(d)) for d in range(NDMAX)])
    if nan_ok:
        # C05: NaN allowed.  Success only for points that really are in range
        # (a NaN is in no range), and then every center is a valid interval index.
        # (C05 promises memory safety only: a NaN for which lookup "succeeds" with valid
        #  centers would not violate it, so nothing is demanded about the return value)
        ens.append("__CPROVER_return_value ==> 1")
    else:
        ens.append("__CPROVER_return_value == (%s)" % allin)
    for d in range(NDMAX):
        ens.append("(__CPROVER_return_value && ndim > %d) ==> %s" % (d, center_post(d, nan_ok)))
    can = canaries(NDMAX)
    s = "bool searchcenters(const double* x, int* centers)\n"
    s += "".join("__CPROVER_requires(%s)\n" % r for r in req)
    s += "__CPROVER_assigns(__CPROVER_object_whole(centers))\n"
    s += "".join("__CPROVER_ensures(%s)\n" % e for e in ens)
    s += "".join("__CPROVER_ensures(%s) /* canary: %s */\n" % (c, l) for (l, c) in can)
    return s + ";\n", len(ens), [l for (l, c) in can]

def canary_patterns(n_real, labels):
    return [r"^searchcenters\.postcondition\.%d$" % (n_real + 1 + k) for k in range(len(labels))] + [r"^h_searchcenters\.assertion\.1$"]

def loop_contracts(N, NDMAX, nan_ok):
    # loop 0: for over dimensions.  Invariant: the postcondition for every
    # finished dimension (written out for the NDMAX constant dimensions).
    inv0 = ["i <= ndim"]
    for d in range(NDMAX):
        inv0.append("(i > %d) ==> (%s && %s)" % (d, "1" if nan_ok else inrange(d), center_post(d, nan_ok)))
    l0 = ("__CPROVER_assigns(i, __CPROVER_object_whole(centers))\n"
          "__CPROVER_loop_invariant(%s)\n__CPROVER_decreases(ndim - i)" % conj(inv0))
    # loop 1: do-while binary search.  One clause, range facts first.
    inv1 = ["i < ndim",
            "order[i] <= min", "min <= max", "(uint64_t)max + 2 <= nknots[i]",
            "knots[i][min] <= x[i]", "x[i] < knots[i][max+1]"]
    for d in range(NDMAX):
        inv1.append("(i > %d) ==> (%s && %s)" % (d, "1" if nan_ok else inrange(d), center_post(d, nan_ok)))
    l1 = ("__CPROVER_assigns(min, max, __CPROVER_object_whole(centers))\n"
          "__CPROVER_loop_invariant(%s)\n__CPROVER_decreases(max - min)" % conj(inv1))
    return [("for", l0), ("do", l1)]

def harness():
    return ("void h_searchcenters(void){ const double* x; int* centers; searchcenters(x, centers);\n"
            " __CPROVER_assert(0, \"canary: reachable after call\"); }\n")

def replay_harness(NB, nan_ok):
    """Explicit bounded harness (ndim == 1, nknots <= NB) used ONLY to obtain a
    concrete failing input once a contract obligation has failed: no loop
    contracts, loops unwound, so every trace is a real execution."""
    post = center_post(0, nan_ok)
    allin = inrange(0)
    top = "1" if nan_ok else ("r == (%s)" % allin)
    return r'''
double nondet_double(void); uint32_t nondet_u32(void); uint64_t nondet_u64(void);
void h_replay(void) {
  static uint32_t ord[1]; static uint64_t nk[1], na[1]; static double kn[%(NB)d]; static double* kp[1];
  double x[1]; int centers[1];
  ndim = 1; order = ord; nknots = nk; naxes = na; knots = kp; kp[0] = kn;
  ord[0] = nondet_u32(); nk[0] = nondet_u64();
  __CPROVER_assume(nk[0] <= %(NB)d && ord[0] <= %(NB)d && nk[0] >= 2*(uint64_t)ord[0] + 2);
  na[0] = nk[0] - ord[0] - 1;
  for (unsigned q = 0; q < %(NB)d; q++) { kn[q] = nondet_double(); if (q > 0 && q < nk[0]) __CPROVER_assume(kn[q-1] <= kn[q]); }
  __CPROVER_assume(kn[0] == kn[0] && kn[0] - kn[0] == 0.0);
  x[0] = nondet_double(); centers[0] = -12345;
  %(nan)s
  bool r = searchcenters(x, centers);
  __CPROVER_assert(%(top)s, "replay: lookup succeeds exactly in range");
  __CPROVER_assert(!r || (%(post)s), "replay: center clauses");
}
''' % dict(NB=NB, top=top, post=post, nan="" if nan_ok else "__CPROVER_assume(x[0] == x[0]);")

def replay_input_from_trace(trace):
    """turn the trace of h_replay into the text input of tools/replay/replay_lookup"""
    import re
    def last(name):
        ms = re.findall(r"^\s*%s=(\S+).*?\(([01 ]+)\)\s*$" % re.escape(name), trace, re.M)
        return ms[-1] if ms else None
    o = last("ord[0l]"); n = last("nk[0l]"); xv = last("x[0l]")
    if not (o and n and xv): return None
    order = int(o[1].replace(" ", ""), 2); nk = int(n[1].replace(" ", ""), 2)
    ks = []
    for q in range(nk):
        v = last("kn[%dl]" % q)
        if v is None:
            # sizeof-like pretty printing of an index, e.g. kn[(signed long int)sizeof(uint32_t) /*4l*/ ]
            m = re.findall(r"^\s*kn\[[^\]]*/\*%dl\*/\s*\]=(\S+).*?\(([01 ]+)\)\s*$" % q, trace, re.M)
            v = m[-1] if m else None
        if v is None: return None
        ks.append("%016x" % int(v[1].replace(" ", ""), 2))
    return "ndim 1\ndim %d %d %s\nx %016x\n" % (order, nk, " ".join(ks), int(xv[1].replace(" ", ""), 2))
