"""C14 (partial): factorial, the normalisation slice of splinetable::convolve,
memory safety of divdiff / convoluted_blossom (src/core/convolve.cpp)."""
W = "__CPROVER_object_whole"
FACT = [1, 1, 2, 6, 24, 120, 720, 5040, 40320, 362880, 3628800, 39916800, 479001600]

PRELUDE = r'''
#include <stdint.h>
#include <stddef.h>
#include <stdbool.h>
/* spec table: n! for the whole domain on which it fits an unsigned int */
static const unsigned vp_fact[13] = {%s};
''' % ", ".join("%du" % f for f in FACT)

def factorial_contract(canaries):
    """canary clauses (must-fail ensures) only when the contract is ENFORCED; in a
    contract that REPLACES a call they would be assumed"""
    return ("unsigned int factorial(unsigned int n)\n"
            "__CPROVER_requires(n <= 12)\n__CPROVER_assigns()\n"
            "__CPROVER_ensures(__CPROVER_return_value == vp_fact[n])\n" +
            ("__CPROVER_ensures(n != 0) /* canary: n == 0 is in the domain */\n"
             "__CPROVER_ensures(n != 12) /* canary: n == 12 is in the domain */\n" if canaries else "") + ";\n")

def norm_slice(src):
    """verbatim text of convolve.h between the two anchors, wrapped in a function whose
    parameters are the block's free variables"""
    import re
    a = src.find("const uint32_t k = order[dim] + 1;")
    m = re.search(r"std::unique_ptr<float\[\]>\s+coefficients\(new float\[\w+\]\);", src[a:]) if a >= 0 else None
    if a < 0 or not m:
        from tools.extract import ExtractionError
        raise ExtractionError("normalisation slice anchors not found in convolve.h")
    body = src[a:a + m.start()]
    from tools.extract import strip_comments
    return body, ("double vp_norm_slice(const uint32_t* order, uint32_t dim, size_t n_conv_knots)\n{\n" + strip_comments(body) + "\n\treturn norm;\n}\n")

def norm_contract(KMAX, QMAX):
    k = "(order[dim] + 1)"; q = "(n_conv_knots - 1)"
    # q!(k-1)!/(k+q-1)!, positive: a non-negative table convolved with a non-negative unit-area kernel stays non-negative
    # (the sign and the value are tied to the definition of convolution by the exact-oracle obligations of checks/c14_exact.py)
    spec = "(((double)(vp_fact[%s]*vp_fact[%s-1])) / ((double)vp_fact[%s+%s-1]))" % (q, k, k, q)
    return ("double vp_norm_slice(const uint32_t* order, uint32_t dim, size_t n_conv_knots)\n"
            "__CPROVER_requires(dim < 8)\n"
            "__CPROVER_requires(__CPROVER_is_fresh(order, 8*sizeof(uint32_t)))\n"
            "__CPROVER_requires(order[dim] <= %d - 1 && n_conv_knots >= 2 && n_conv_knots - 1 <= %d)\n"
            "__CPROVER_assigns()\n"
            "__CPROVER_ensures(__CPROVER_return_value == %s)\n"
            "__CPROVER_ensures(!(order[dim] == 0)) /* canary: order-0 dimension reachable */\n"
            "__CPROVER_ensures(!(order[dim] == 2 && n_conv_knots == 3)) /* canary */\n;\n" % (KMAX, QMAX, spec))

def divdiff_contract(NMAX):
    return ("double divdiff(const double* x, const double* y, size_t n)\n"
            "__CPROVER_requires(n >= 1 && n <= %d)\n"
            "__CPROVER_requires(__CPROVER_r_ok(x, n*sizeof(double)) && __CPROVER_r_ok(y, n*sizeof(double)))\n"
            "__CPROVER_assigns()\n__CPROVER_ensures(1)\n;\n" % NMAX)

def blossom_contract(NMAX):
    return ("double convoluted_blossom(const double* x, size_t nx, const double* y, size_t ny, double z, const double* bags, size_t nbags)\n"
            "__CPROVER_requires(nx >= 1 && nx <= %d && ny >= 1 && ny <= %d && nbags >= 1 && nbags <= %d)\n"
            "__CPROVER_requires(__CPROVER_is_fresh(x, nx*sizeof(double)))\n"
            "__CPROVER_requires(__CPROVER_is_fresh(y, ny*sizeof(double)))\n"
            "__CPROVER_requires(__CPROVER_is_fresh(bags, nbags*sizeof(double)))\n"
            "__CPROVER_assigns()\n__CPROVER_ensures(1)\n;\n" % (NMAX, NMAX, 2 * NMAX))

def blossom_loops():
    return [
      ("for", "__CPROVER_assigns(i, j, k, %s(fun_x), %s(fun_y))\n__CPROVER_loop_invariant(i <= nx)\n__CPROVER_decreases(nx - i)" % (W, W)),
      ("for", "__CPROVER_assigns(j, k, %s(fun_y))\n__CPROVER_loop_invariant(j <= ny && i < nx)\n__CPROVER_decreases(ny - j)" % W),
      ("for", "__CPROVER_assigns(k, det)\n__CPROVER_loop_invariant(k <= nbags && i < nx && j < ny)\n__CPROVER_decreases(nbags - k)"),
    ]
