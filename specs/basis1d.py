"""Memory-safety / termination contracts of the 1-D basis routines of
include/photospline/bspline.h (property C05, chain link 2).

Padding discipline (DESIGN.md section 5): knots points `pad` doubles into an
object of nknots+2*pad doubles; the padding contents are unconstrained.
`left` must be a fully supported interval index: n <= left <= nknots-n-2.
x is ANY IEEE double (NaN, +-inf, ...)."""

PRELUDE = r'''
#include <stdint.h>
#include <stdbool.h>
#include <stddef.h>
#include <assert.h>
#ifndef Float
#define Float float
#endif
double* vp_knots_base;   /* ghost: start of the padded knot allocation */
'''

def knots_mem(pad, NK):
    """requires clauses: padded knot storage. pad is a C expression (the spline order)."""
    return ["__CPROVER_is_fresh(vp_knots_base, ((size_t)nknots + 2*(size_t)(%s))*sizeof(double))" % pad,
            "__CPROVER_pointer_equals(knots, vp_knots_base + (%s))" % pad]

def bsplvb_simple_contract(MAXDEG, MAXNK):
    n = "(degree-1)"
    req = ["degree >= 1 && degree <= %d" % MAXDEG,
           "nknots <= %d && nknots >= 2*(unsigned)%s + 2" % (MAXNK, n),
           "left >= %s && (unsigned)left + (unsigned)%s + 2 <= nknots" % (n, n)] + knots_mem(n, MAXNK) + [
           "__CPROVER_is_fresh(biatx, (size_t)degree*sizeof(Float))"]
    s = "void bsplvb_simple(const double* knots, const unsigned nknots, double x, int left, int degree, Float* biatx)\n"
    s += "".join("__CPROVER_requires(%s)\n" % r for r in req)
    s += "__CPROVER_assigns(__CPROVER_object_whole(biatx))\n"
    s += "__CPROVER_ensures(1)\n;\n"
    return s

def bsplvb_simple_loops():
    W = "__CPROVER_object_whole"
    all_loc = "i, j, saved, term, %s(delta_l), %s(delta_r), %s(biatx)" % (W, W, W)
    leftrng = "left >= -1 && left <= (int)nknots - 1 && degree >= 1 && (int)nknots >= 2*degree"
    return [
      ("while", "__CPROVER_assigns(left)\n__CPROVER_loop_invariant(left >= -1 && left <= degree-1)\n__CPROVER_decreases(left + 1)"),
      ("while", "__CPROVER_assigns(left)\n__CPROVER_loop_invariant(left >= (int)nknots-degree-1 && left <= (int)nknots-1)\n__CPROVER_decreases((int)nknots - 1 - left)"),
      ("for", "__CPROVER_assigns(%s)\n__CPROVER_loop_invariant(j >= 0 && j <= degree-1 && %s)\n__CPROVER_decreases(degree - 1 - j)" % (all_loc, leftrng)),
      ("for", "__CPROVER_assigns(i, saved, term, %s(biatx))\n__CPROVER_loop_invariant(i >= 0 && i <= j+1 && j >= 0 && j < degree-1)\n__CPROVER_decreases(j + 1 - i)" % W),
      ("for", "__CPROVER_assigns(j, %s(biatx))\n__CPROVER_loop_invariant(j >= 0 && j <= left+1 && i == degree-1-left && i > 0 && left >= -1)\n__CPROVER_decreases(left + 1 - j)" % W),
      ("for", "__CPROVER_assigns(j, %s(biatx))\n__CPROVER_loop_invariant(j >= 0 && j <= degree)\n__CPROVER_decreases(degree - j)" % W),
      ("for", "__CPROVER_assigns(j, %s(biatx))\n__CPROVER_loop_invariant(j >= i-1 && j <= degree-1 && i > 0 && i <= degree)\n__CPROVER_decreases(j + 1)" % W),
      ("for", "__CPROVER_assigns(j, %s(biatx))\n__CPROVER_loop_invariant(j >= -1 && j <= degree-1)\n__CPROVER_decreases(j + 1)" % W),
    ]

def harness(fn, args):
    decl = "; ".join(a for a in args)
    call = ", ".join(a.split()[-1].lstrip("*") for a in args)
    return "void h_%s(void){ %s; %s(%s); __CPROVER_assert(0, \"canary: reachable after call\"); }\n" % (fn, decl, fn, call)

W = "__CPROVER_object_whole"

def bsplvb_loops():
    """bsplvb has no nknots parameter: it is analysed inside its two callers
    (calls are not replaced), its loops closed by these invariants."""
    return [
      ("for", "__CPROVER_assigns(i, j, saved, term, %s(delta_l), %s(delta_r), %s(biatx))\n"
              "__CPROVER_loop_invariant(j >= jlow && (j <= jhigh-1 || j == jlow))\n__CPROVER_decreases(jhigh - 1 - j)" % (W, W, W)),
      ("for", "__CPROVER_assigns(i, saved, term, %s(biatx))\n"
              "__CPROVER_loop_invariant(i >= 0 && i <= j+1 && j >= jlow && j < jhigh-1)\n__CPROVER_decreases(j + 1 - i)" % W),
    ]

def nonzero_requires(MAXN, MAXNK):
    return ["n >= 0 && n <= %d" % MAXN,
            "nknots <= %d && nknots >= 2*(unsigned)n + 2" % MAXNK,
            "left >= n && (unsigned)left + (unsigned)n + 2 <= nknots"] + knots_mem("n", MAXNK)

def bspline_nonzero_contract(MAXN, MAXNK):
    req = nonzero_requires(MAXN, MAXNK) + ["__CPROVER_is_fresh(values, ((size_t)n+1)*sizeof(Float))",
                                           "__CPROVER_is_fresh(derivs, ((size_t)n+1)*sizeof(Float))"]
    s = "void bspline_nonzero(const double* knots, const unsigned nknots, const double x, int left, const int n, Float* values, Float* derivs)\n"
    s += "".join("__CPROVER_requires(%s)\n" % r for r in req)
    s += "__CPROVER_assigns(%s(values), %s(derivs))\n__CPROVER_ensures(1)\n;\n" % (W, W)
    return s

def margin_loops():
    return [
      ("while", "__CPROVER_assigns(left)\n__CPROVER_loop_invariant(left >= -1 && left <= n)\n__CPROVER_decreases(left + 1)"),
      ("while", "__CPROVER_assigns(left)\n__CPROVER_loop_invariant(left >= (int)nknots-n-2 && left <= (int)nknots-1)\n__CPROVER_decreases((int)nknots - 1 - left)"),
    ]

def bspline_nonzero_loops():
    both = "%s(values), %s(derivs)" % (W, W)
    return margin_loops() + [
      ("for", "__CPROVER_assigns(i, temp, %s(derivs))\n__CPROVER_loop_invariant(i >= 1 && i <= n && n >= 1)\n__CPROVER_decreases(n - i)" % W),
      ("for", "__CPROVER_assigns(j, %s)\n__CPROVER_loop_invariant(j >= 0 && j <= left+1 && i == n-left && i > 0 && left >= -1)\n__CPROVER_decreases(left + 1 - j)" % both),
      ("for", "__CPROVER_assigns(j, %s)\n__CPROVER_loop_invariant(j >= 0 && j <= n+1)\n__CPROVER_decreases(n + 1 - j)" % both),
      ("for", "__CPROVER_assigns(j, %s)\n__CPROVER_loop_invariant(j >= i-1 && j <= n && i > 0 && i <= n+1)\n__CPROVER_decreases(j + 1)" % both),
      ("for", "__CPROVER_assigns(j, %s)\n__CPROVER_loop_invariant(j >= -1 && j <= n)\n__CPROVER_decreases(j + 1)" % both),
    ]

def bspline_deriv_nonzero_contract(MAXN, MAXNK):
    req = nonzero_requires(MAXN, MAXNK) + ["__CPROVER_is_fresh(biatx, ((size_t)n+1)*sizeof(Float))"]
    s = "void bspline_deriv_nonzero(const double* knots, const unsigned nknots, const double x, int left, const int n, Float* biatx)\n"
    s += "".join("__CPROVER_requires(%s)\n" % r for r in req)
    s += "__CPROVER_assigns(%s(biatx))\n__CPROVER_ensures(1)\n;\n" % W
    return s

def bspline_deriv_nonzero_loops():
    b = "%s(biatx)" % W
    return margin_loops() + [
      ("for", "__CPROVER_assigns(i, a, temp, %s)\n__CPROVER_loop_invariant(i >= 1 && i <= n && n >= 1)\n__CPROVER_decreases(n - i)" % b),
      ("for", "__CPROVER_assigns(j, %s)\n__CPROVER_loop_invariant(j >= 0 && j <= left+1 && i == n-left && i > 0 && left >= -1)\n__CPROVER_decreases(left + 1 - j)" % b),
      ("for", "__CPROVER_assigns(j, %s)\n__CPROVER_loop_invariant(j >= 0 && j <= n+1)\n__CPROVER_decreases(n + 1 - j)" % b),
      ("for", "__CPROVER_assigns(j, %s)\n__CPROVER_loop_invariant(j >= i-1 && j <= n && i > 0 && i <= n+1)\n__CPROVER_decreases(j + 1)" % b),
      ("for", "__CPROVER_assigns(j, %s)\n__CPROVER_loop_invariant(j >= -1 && j <= n)\n__CPROVER_decreases(j + 1)" % b),
    ]

def recursive_contract(name, MAXN):
    """bspline / bspline_deriv (src/core/bspline.cpp): Cox-de Boor recursion reading
    knots[i .. i+n+1].  Verified with --enforce-contract-rec (recursive calls are
    replaced by this same contract): no unwinding, any n <= MAXN."""
    extra = ", unsigned order" if name == "bspline_deriv" else ""
    s = "double %s(const double* knots, double x, int i, int n%s)\n" % (name, extra)
    s += "__CPROVER_requires(n >= 0 && n <= %d && i >= 0)\n" % MAXN
    # r_ok (not is_fresh): the recursive call sites pass the same array again
    s += "__CPROVER_requires(__CPROVER_r_ok(knots, ((size_t)i + (size_t)n + 2)*sizeof(double)))\n"
    s += "__CPROVER_assigns()\n__CPROVER_ensures(1)\n;\n"
    return s

def recursive_harness(name):
    extra = ", order" if name == "bspline_deriv" else ""
    return ('''void* malloc(size_t);
void h_%s(void){ size_t sz; __CPROVER_assume(sz <= (1u<<21)); double* knots = malloc(sz*sizeof(double)); double x; int i, n; unsigned order;
  %s(knots, x, i, n%s); __CPROVER_assert(0, "canary: reachable after call"); }
''' % (name, name, extra))
