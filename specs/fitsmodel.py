"""Model of the part of cfitsio that photospline's FITS reader / writer / size model call (ASSUMED CONTRACT).

A file is a list of image HDUs; an HDU is a list of 80-column header cards (text, exactly as they would stand in the
file) plus a flat list of pixel values.  The query functions below answer from the card text the way cfitsio does
(keyword name / value-string parsing, numeric conversion of value strings, EXTNAME search, pixel reads with bounds).
Everything the model claims is compared with the installed cfitsio on every file a check explores (the files are
serialised with to_bytes() and read back through a native probe), so a disagreement shows up as a failed
"model conformance" obligation instead of a wrong verdict.

Values: Fraction for finite numbers, or the strings "nan", "inf", "-inf", "-0" for the special IEEE values.
"""
import struct, math, re
from fractions import Fraction as Fr

KEY_NO_EXIST, KEY_OUT_BOUNDS, VALUE_UNDEFINED, BAD_HDU_NUM, NOT_IMAGE, END_OF_FILE = 202, 203, 204, 301, 233, 107
BAD_INTKEY, BAD_DOUBLEKEY, NUM_OVERFLOW, BAD_ROW_NUM, BAD_C2I, BAD_C2D, BAD_ELEM_NUM = 403, 406, 412, 307, 407, 409, 308
INT_MAX, UINT_MAX, LONG_MAX = 2**31 - 1, 2**32 - 1, 2**63 - 1

def card(key, value=None, comment=None, hierarch=None):
    """standard fixed-format card; value: int / float / str (quoted) / bool / ('raw', text)"""
    if value is None:
        c = "%-8s%s" % (key, (" " + comment) if comment else "")
        return c[:80].ljust(80)
    if isinstance(value, tuple): v = value[1]
    elif isinstance(value, bool): v = "%20s" % ("T" if value else "F")
    elif isinstance(value, int): v = "%20d" % value
    elif isinstance(value, float): v = "%20s" % fmt_double(value)
    else: v = "'%-8s'" % str(value).replace("'", "''")
    if len(key) > 8 or " " in key or hierarch:
        c = "HIERARCH %s = %s" % (key, v.strip() if not v.startswith("'") else v)
        if len(c) > 80: c = "HIERARCH %s= %s" % (key, v.strip() if not v.startswith("'") else v)
    else:
        c = "%-8s= %s" % (key, v)
    if comment: c += " / " + comment
    return c[:80].ljust(80)

def fmt_double(x):
    s = "%.15G" % x
    if "." not in s and "E" not in s and "N" not in s and "I" not in s: s += "."
    elif "E" in s and "." not in s: s = s.replace("E", ".E")
    return s

class HDU:
    def __init__(self, cards, data, bitpix, axes, primary):
        self.cards = list(cards); self.data = list(data); self.bitpix = bitpix; self.axes = list(axes); self.primary = primary
    def npix(self):
        n = 1
        for a in self.axes: n *= a
        return n if self.axes else 0

def image_hdu(primary, bitpix, axes, extra_cards=(), data=None, extname=None):
    cs = [card("SIMPLE", True, "file does conform to FITS standard") if primary else card("XTENSION", "IMAGE", "IMAGE extension"),
          card("BITPIX", bitpix, "number of bits per data pixel"), card("NAXIS", len(axes), "number of data axes")]
    cs += [card("NAXIS%d" % (k + 1), a, "length of data axis %d" % (k + 1)) for k, a in enumerate(axes)]
    cs += [card("EXTEND", True, "FITS dataset may contain extensions")] if primary else [card("PCOUNT", 0, "required keyword; must = 0"), card("GCOUNT", 1, "required keyword; must = 1")]
    if extname is not None: cs.append(card("EXTNAME", extname))
    cs += list(extra_cards)
    h = HDU(cs, data if data is not None else [Fr(0)] * 0, bitpix, axes, primary)
    return h

class Fits:
    def __init__(self, hdus): self.hdus = list(hdus); self.cur = 0
    # ------------------------------------------------------------ serialisation (for the native probe / replays)
    def to_bytes(self):
        out = b""
        for h in self.hdus:
            hdr = "".join(h.cards) + "END".ljust(80)
            hdr += " " * ((-len(hdr)) % 2880)
            out += hdr.encode("ascii")
            fmt = {-32: ">f", -64: ">d", 16: ">h", 32: ">i", 8: "B", 64: ">q"}[h.bitpix]
            d = b"".join(struct.pack(fmt, pyval(v, h.bitpix)) for v in h.data)
            d += b"\0" * ((-len(d)) % 2880)
            out += d
        return out

def pyval(v, bitpix):
    if isinstance(v, str): return {"nan": float("nan"), "inf": float("inf"), "-inf": float("-inf"), "-0": -0.0}[v]
    return float(v) if bitpix < 0 else int(v)

# ------------------------------------------------------------------ card parsing (cfitsio: ffgknm / ffpsvc)
def card_name(c):
    """keyword name of a card as fits_read_keyn reports it"""
    if c.startswith("HIERARCH "):
        eq = c.find("=")
        if eq < 0: return "HIERARCH"
        return c[9:eq].strip()
    return c[:8].rstrip()

def card_value(c):
    """raw value string of a card ('' for commentary cards / cards without a value indicator)"""
    name8 = c[:8]
    if c.startswith("HIERARCH ") and "=" in c:
        rest = c[c.find("=") + 1:]
    elif name8.rstrip() in ("COMMENT", "HISTORY", "") or c[8:10] != "= ":
        return ""
    else:
        rest = c[10:]
    rest = rest.lstrip(" ")
    if not rest: return ""
    if rest[0] == "'":
        k = 1; out = "'"
        while k < len(rest):
            if rest[k] == "'":
                if k + 1 < len(rest) and rest[k + 1] == "'":
                    out += "''"; k += 2; continue
                out += "'"; return out
            out += rest[k]; k += 1
        return out.rstrip(" ") + "'"           # no closing quote: cfitsio closes the string at the end of the card
    if rest[0] == "/": return ""
    m = re.match(r"[^ /]*", rest)
    return m.group(0)

def string_value(raw):
    """ffc2s: strip quotes, undouble, strip trailing blanks"""
    if not raw.startswith("'"): return raw
    body = raw[1:-1] if raw.endswith("'") and len(raw) >= 2 else raw[1:]
    return body.replace("''", "'").rstrip(" ")

def value_type(raw):
    if raw == "": return None
    if raw[0] == "'": return "C"
    if raw in ("T", "F"): return "L"
    if raw[0] == "(": return "X"
    if any(ch in raw for ch in ".EeDd") : return "F"
    return "I"

def to_double(raw):
    """ffc2d: (status, value)"""
    t = value_type(raw)
    if t is None: return VALUE_UNDEFINED, None
    if t == "L": return 0, Fr(1 if raw == "T" else 0)
    s = string_value(raw) if t == "C" else raw
    s2 = s.strip().replace("D", "E").replace("d", "e")
    if not re.fullmatch(r"[+-]?(\d+\.?\d*|\.\d+)([Ee][+-]?\d+)?", s2): return (BAD_C2D, None)
    return 0, Fr(s2.replace("E", "e")) if "e" not in s2.lower() else Fr(float(s2))

def to_long(raw):
    """ffc2i / ffc2j: (status, value)"""
    t = value_type(raw)
    if t is None: return VALUE_UNDEFINED, None
    if t == "L": return 0, (1 if raw == "T" else 0)
    if t == "I":
        if not re.fullmatch(r"[+-]?\d+", raw): return BAD_C2I, None
        v = int(raw)
        if abs(v) > LONG_MAX: return NUM_OVERFLOW, None
        return 0, v
    st, d = to_double(raw)
    if st: return (BAD_INTKEY if t == "C" else st), None
    if abs(d) > LONG_MAX: return NUM_OVERFLOW, None
    return 0, int(d)                      # truncation towards zero

# ------------------------------------------------------------------ queries (each returns the new status)
class Session:
    """one open fitsfile*"""
    def __init__(self, fits): self.f = fits; self.cur = 0; self.calls = []
    def hdu(self): return self.f.hdus[self.cur]
    def get_num_hdus(self): return len(self.f.hdus)
    def movabs_hdu(self, n):
        if n < 1: return BAD_HDU_NUM, None
        if n > len(self.f.hdus): return END_OF_FILE, None
        self.cur = n - 1; return 0, 0      # IMAGE_HDU
    def get_img_dim(self): return 0, len(self.hdu().axes)
    def get_img_size(self, maxdim): return 0, list(self.hdu().axes[:maxdim])
    def get_hdrspace(self): return 0, len(self.hdu().cards)
    def read_keyn(self, n):
        cs = self.hdu().cards
        if n < 1 or n > len(cs): return KEY_OUT_BOUNDS, None, None
        return 0, card_name(cs[n - 1]), card_value(cs[n - 1])
    def find(self, name):
        name = name.strip().upper()
        for c in self.hdu().cards:
            if card_name(c).upper() == name: return c
        return None
    def read_key_long(self, name):
        c = self.find(name)
        if c is None: return KEY_NO_EXIST, None
        return to_long(card_value(c))
    def read_key_double(self, name):
        c = self.find(name)
        if c is None: return KEY_NO_EXIST, None
        return to_double(card_value(c))
    def read_key_string(self, name):
        c = self.find(name)
        if c is None: return KEY_NO_EXIST, None
        raw = card_value(c)
        if raw == "": return VALUE_UNDEFINED, None
        return 0, string_value(raw)
    def movnam_hdu(self, name):
        want = name.strip().upper()
        for k, h in enumerate(self.f.hdus):
            for kw in ("EXTNAME", "HDUNAME"):
                c = next((c for c in h.cards if card_name(c) == kw), None)
                if c is not None and value_type(card_value(c)) == "C" and string_value(card_value(c)).upper() == want:
                    self.cur = k; return 0
        return BAD_HDU_NUM
    def read_pix(self, first, nelem):
        """first: 1-based element; (status, values)"""
        h = self.hdu()
        if nelem <= 0: return 0, []
        if first < 1 or first + nelem - 1 > h.npix(): return BAD_ROW_NUM, None
        return 0, h.data[first - 1:first - 1 + nelem]

# ------------------------------------------------------------------ spline files in the documented layout
def spline_file(orders, knots, coeffs, extents=None, periods=None, aux=(), single_order=False, coeff_bitpix=-32, knot_bitpix=-64):
    """orders[d], knots[d][...], coeffs flat in C order over naxes[d] = len(knots[d]) - orders[d] - 1;
    layout: float coefficient image with reversed axis order, ORDERn keys, KNOTSn double extensions, EXTENTS extension"""
    nd = len(orders); naxes = [len(knots[d]) - orders[d] - 1 for d in range(nd)]
    cards = [card("COMMENT", None, " FITS (Flexible Image Transport System) format is defined in 'Astronomy"),
             card("COMMENT", None, " and Astrophysics', volume 376, page 359; bibcode: 2001A&A...376..359H"),
             card("TYPE", "Spline Coefficient Table")]
    if single_order: cards.append(card("ORDER", orders[0], "B-Spline Order"))
    else: cards += [card("ORDER%d" % d, orders[d], "B-Spline Order") for d in range(nd)]
    if periods is not None: cards += [card("PERIOD%d" % d, float(periods[d])) for d in range(nd)]
    cards += [c if isinstance(c, str) else card(c[0], c[1]) for c in aux]
    hdus = [image_hdu(True, coeff_bitpix, list(reversed(naxes)), cards, list(coeffs))]
    for d in range(nd): hdus.append(image_hdu(False, knot_bitpix, [len(knots[d])], (), list(knots[d]), extname="KNOTS%d" % d))
    if extents is not None: hdus.append(image_hdu(False, -64, [2 * nd], (), [v for e in extents for v in e], extname="EXTENTS"))
    return Fits(hdus)

def clone(f):
    return Fits([HDU(h.cards, h.data, h.bitpix, h.axes, h.primary) for h in f.hdus])

def set_axes(h, axes, data=None):
    """rewrite the NAXIS / NAXISn cards of an HDU (and optionally its data) consistently"""
    keep = [c for c in h.cards if not re.match(r"NAXIS\d* ", c)]
    pos = next(k for k, c in enumerate(keep) if c.startswith("BITPIX")) + 1
    new = [card("NAXIS", len(axes))] + [card("NAXIS%d" % (k + 1), a) for k, a in enumerate(axes)]
    h.cards = keep[:pos] + new + keep[pos:]; h.axes = list(axes)
    if data is not None: h.data = list(data)

def set_bitpix(h, bitpix):
    h.cards = [card("BITPIX", bitpix) if c.startswith("BITPIX") else c for c in h.cards]; h.bitpix = bitpix

def replace_card(h, key, new):
    """new: card text, or None to delete"""
    out = []
    for c in h.cards:
        if card_name(c) == key:
            if new is not None: out.append(new)
        else: out.append(c)
    h.cards = out

# ------------------------------------------------------------------ writing (cfitsio: ffcrim / ffppx / ffpky / ffuky)
def quote_string(s):
    """ffs2c: opening quote, then the characters of the value (at most 68) with every quote doubled while the output
    stays within 69 columns, padded to at least 8 characters, closing quote if there is room for it"""
    out = "'"; s = s[:68]
    for ch in s:
        if len(out) >= 69: break
        out += ch
        if ch == "'": out += "'"
    while len(out) < 9: out += " "
    if len(out) >= 70: return out[:69]
    return out + "'"

def key_card(key, valuestr, comment, is_string):
    """ffmkky: fixed-format card from a keyword name, a formatted value string and an optional comment"""
    key = key.strip()
    if len(key) <= 8 and " " not in key:
        c = "%-8s= " % key.upper()
        c += valuestr if is_string else "%20s" % valuestr
    else:
        c = "HIERARCH " + key + " = " + valuestr
        if len(c) > 80: c = "HIERARCH " + key + "= " + valuestr
        # (the installed cfitsio has no further step "KEY=value": native probe, k=15: a 52-character string survives as "KEY= 'v'", 53 is truncated)
    if comment:
        if len(c) < 30: c = c.ljust(30)
        c += " / " + comment
    return c[:80].ljust(80)

class Writer:
    """a fitsfile* opened for writing; builds a Fits"""
    def __init__(self): self.f = Fits([]); self.cur = -1
    def create_img(self, bitpix, axes):
        if any(a < 0 for a in axes): return 213       # BAD_NAXES
        primary = not self.f.hdus
        comments = (["file does conform to FITS standard", "number of bits per data pixel", "number of data axes"] if primary else ["IMAGE extension", "number of bits per data pixel", "number of data axes"])
        cs = [key_card("SIMPLE", "T", comments[0], False) if primary else key_card("XTENSION", quote_string("IMAGE"), comments[0], True),
              key_card("BITPIX", str(bitpix), comments[1], False), key_card("NAXIS", str(len(axes)), comments[2], False)]
        cs += [key_card("NAXIS%d" % (k + 1), str(a), "length of data axis %d" % (k + 1), False) for k, a in enumerate(axes)]
        if primary:
            cs += [key_card("EXTEND", "T", "FITS dataset may contain extensions", False),
                   card("COMMENT", None, " FITS (Flexible Image Transport System) format is defined in 'Astronomy"),
                   card("COMMENT", None, " and Astrophysics', volume 376, page 359; bibcode: 2001A&A...376..359H")]
        else:
            cs += [key_card("PCOUNT", "0", "required keyword; must = 0", False), key_card("GCOUNT", "1", "required keyword; must = 1", False)]
        h = HDU(cs, [], bitpix, axes, primary); h.data = [Fr(0)] * h.npix()
        self.f.hdus.append(h); self.cur = len(self.f.hdus) - 1
        return 0
    def hdu(self): return self.f.hdus[self.cur]
    def write_pix(self, first, values):
        h = self.hdu()
        if not values: return 0
        if first < 1 or first + len(values) - 1 > h.npix(): return BAD_ROW_NUM
        h.data[first - 1:first - 1 + len(values)] = list(values); return 0
    def write_key(self, name, valuestr, comment, is_string, update=False):
        c = key_card(name, valuestr, comment, is_string); h = self.hdu()
        if update:
            for k, old in enumerate(h.cards):
                if card_name(old).upper() == name.strip().upper(): h.cards[k] = c; return 0
        h.cards.append(c); return 0

# ------------------------------------------------------------------ parsing real FITS bytes into the model (image HDUs only)
def from_bytes(b):
    """inverse of Fits.to_bytes for files made of image HDUs; raises ValueError on anything else"""
    hdus = []; pos = 0
    while pos < len(b):
        cards = []; bitpix = None; axes = {}; naxis = None; done = False
        while not done:
            block = b[pos:pos + 2880]; pos += 2880
            if len(block) < 2880: raise ValueError("truncated header block")
            for k in range(36):
                c = block[80 * k:80 * k + 80].decode("ascii", errors="replace")
                if c.startswith("END") and c[3:].strip() == "": done = True; break
                cards.append(c)
        while cards and cards[-1].strip() == "": cards.pop()
        for c in cards:
            n = card_name(c)
            if n == "BITPIX": bitpix = int(card_value(c))
            elif n == "NAXIS": naxis = int(card_value(c))
            elif re.fullmatch(r"NAXIS\d+", n): axes[int(n[5:])] = int(card_value(c))
            elif n == "XTENSION" and string_value(card_value(c)) != "IMAGE": raise ValueError("non-image extension")
        if bitpix is None or naxis is None: raise ValueError("header without BITPIX / NAXIS")
        ax = [axes[k + 1] for k in range(naxis)]; h = HDU(cards, [], bitpix, ax, not hdus)
        n = h.npix(); size = abs(bitpix) // 8; fmt = {-32: ">f", -64: ">d", 16: ">h", 32: ">i", 8: "B", 64: ">q"}[bitpix]
        raw = b[pos:pos + n * size]
        if len(raw) < n * size: raise ValueError("truncated data unit")
        vals = []
        for k in range(n):
            v = struct.unpack(fmt, raw[k * size:(k + 1) * size])[0]
            if isinstance(v, float):
                if v != v: vals.append("nan")
                elif v in (float("inf"), float("-inf")): vals.append("inf" if v > 0 else "-inf")
                elif v == 0 and math.copysign(1, v) < 0: vals.append("-0")
                else: vals.append(Fr(v))
            else: vals.append(Fr(v))
        h.data = vals; hdus.append(h); pos += n * size; pos += (-pos) % 2880
    return Fits(hdus)
