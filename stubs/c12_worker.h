/* ---- worker side: evaluate_descent runs for real; the coordinator is represented by the RELY:
 * while the worker does not hold the mutex the coordinator may set state WAIT->RUN (with a step length)
 * or ->TERMINATE.  Obligations = the GUARANTEE the coordinator-side proof assumed. ---- */
static descent_trial* vp_t;
static int vp_held, vp_state_at_unlock, vp_broadcast_in_cs, vp_state_at_lock, vp_rounds, vp_exited, vp_residual_round = -1;
static double vp_alpha_storage[1]; static int vp_spurious;
int sched_setaffinity(pid_t pid, size_t sz, const cpu_set_t* m) { return 0; }
double calc_residual(cholmod_sparse* AtA, cholmod_dense* Atb, cholmod_dense* x, cholmod_common* c) {
	__CPROVER_assert(!vp_held, "residual is computed outside the critical section");
	vp_residual_round = vp_rounds; return nondet_double();
}
static void vp_coordinator_rely(void) {
	/* coordinator acts only on a worker that is WAITing (it has waited for the previous round to finish) */
	if (vp_t->state == WAIT) {
		int choice = nondet_int();
		if (vp_rounds >= VP_MAXROUNDS || choice == 2) vp_t->state = TERMINATE;
		else if (choice == 1) { vp_alpha_storage[0] = nondet_double(); __CPROVER_assume(vp_alpha_storage[0] >= 0.0 && vp_alpha_storage[0] <= 1.0); vp_t->alpha = vp_alpha_storage; vp_t->state = RUN; vp_rounds++; }
	}
}
int pthread_mutex_lock(pthread_mutex_t* m) {
	__CPROVER_assert(!vp_held, "lock discipline: no double lock");
	__CPROVER_assert(vp_t->state == vp_state_at_unlock, "the worker writes its state only while holding the mutex");
	vp_coordinator_rely(); vp_held = 1; vp_broadcast_in_cs = 0; vp_state_at_lock = vp_t->state; return 0;
}
int pthread_cond_wait(pthread_cond_t* c, pthread_mutex_t* m) {
	__CPROVER_assert(vp_held, "lock discipline: cond_wait with the mutex held");
	__CPROVER_assert(vp_t->state == WAIT, "the worker only sleeps while it has nothing to do");
	vp_coordinator_rely();              /* may also return spuriously with the state unchanged ... */
	if (vp_t->state == WAIT) { vp_spurious++; __CPROVER_assume(vp_spurious <= 2); }   /* ... but not forever (fairness; bounds the unwinding) */
	vp_state_at_lock = vp_t->state; return 0;
}
int pthread_cond_broadcast(pthread_cond_t* c) { __CPROVER_assert(vp_held, "broadcast under the mutex"); vp_broadcast_in_cs = 1; return 0; }
int pthread_mutex_unlock(pthread_mutex_t* m) {
	__CPROVER_assert(vp_held, "lock discipline: unlock only while holding the mutex");
	if (vp_state_at_lock == RUN && vp_t->state == WAIT) {
		/* the worker reports: everything the coordinator will read must be complete, and it must be woken */
		__CPROVER_assert(vp_broadcast_in_cs, "a report (state = WAIT) is followed by a broadcast before the mutex is released");
		__CPROVER_assert(vp_t->x_c != NULL && vp_t->H1 != NULL && vp_t->nH1 >= 0 && vp_t->nH1 <= vp_t->nF, "outputs are complete when the worker reports");
		__CPROVER_assert(vp_residual_round == vp_rounds, "the residual of THIS round has been computed when the worker reports");
		for (long i = 0; i < vp_t->nF; i++) __CPROVER_assert(!(((double*)vp_t->x_c->x)[i] < 0.0), "trial solution is projected into the feasible region (no negative entry)");
	} else {
		__CPROVER_assert(vp_t->state == vp_state_at_lock, "the only state change a worker makes is RUN -> WAIT");
		__CPROVER_assert(vp_t->state != WAIT, "the worker leaves the waiting section only with work to do or to terminate (predicate re-tested after every wake-up)");
	}
	vp_held = 0; vp_state_at_unlock = vp_t->state; return 0;
}
void pthread_exit(void* r) {
	__CPROVER_assert(!vp_held, "the worker does not exit holding the mutex");
	__CPROVER_assert(vp_t->state == TERMINATE, "the worker exits only when told to terminate");
	vp_exited = 1;
	__CPROVER_assert(0, "canary: worker reaches pthread_exit");
	__CPROVER_assume(0);
}
