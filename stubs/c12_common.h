/* C12: thread-modular verification of the monotonic-fit line search (cholesky_solve.c).
 * CBMC cannot interleave the real threads (pointer handling for concurrency is unsound), so the
 * property is decomposed into SEQUENTIAL obligations on the real walk_descents (coordinator) and
 * evaluate_descent (worker), with the pthread primitives replaced by contracts that carry ghost
 * state and apply the RELY (what the other threads may do) as a nondeterministic havoc. */
#define _GNU_SOURCE 1
#include <stdio.h>
#include <unistd.h>
#include <math.h>
#include <time.h>
#include <float.h>
#include <stdbool.h>
#include <assert.h>
#include <string.h>
#include <stdlib.h>
#include <pthread.h>
#include <sched.h>
#include <cholmod.h>
#include "photospline/detail/splineutil.h"
#include "cholesky_solve.h"

_Bool nondet_bool(void); double nondet_double(void); long nondet_long(void); int nondet_int(void); unsigned nondet_unsigned(void);

/* cholmod dense vectors: real layout, contents nondeterministic (assumed contract) */
cholmod_dense* cholmod_l_allocate_dense(size_t nrow, size_t ncol, size_t d, int xtype, cholmod_common* c) {
	cholmod_dense* m = malloc(sizeof(cholmod_dense)); __CPROVER_assume(m != NULL);
	m->nrow = nrow; m->ncol = ncol; m->nzmax = nrow*ncol; m->d = d; m->xtype = xtype; m->z = NULL;
	m->x = malloc(nrow*ncol*sizeof(double)); __CPROVER_assume(m->x != NULL);
	return m;
}
int cholmod_l_free_dense(cholmod_dense** X, cholmod_common* c) { if (*X) { free((*X)->x); free(*X); } *X = NULL; return 1; }
clock_t clock(void) { return 0; }
