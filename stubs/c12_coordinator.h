/* ---- coordinator side: walk_descents runs for real, the workers are represented by the RELY ---- */
#ifndef VP_MAXT
#define VP_MAXT 8
#endif
#ifndef VP_MAXA
#define VP_MAXA 8
#endif
#ifndef VP_MAXF
#define VP_MAXF 4
#endif
static descent_trial* vp_trial[VP_MAXT]; static int vp_ncreated;
static int vp_held;            /* ghost: the coordinator holds the mutex */
static int vp_snap[VP_MAXT];   /* ghost: worker state at the last synchronisation point */
static int vp_joined[VP_MAXT];
int vp_nthreads;               /* what get_nthreads() returns in this instance */
/* worker results as functions of the trial step (alpha index) only: the same step gives the same
 * result whichever worker evaluates it and whenever it completes */
double vp_res[VP_MAXA]; double vp_xc[VP_MAXA][VP_MAXF]; long vp_h1n[VP_MAXA]; long vp_h1[VP_MAXA][VP_MAXF];

int get_nthreads(void) { return vp_nthreads; }
/* libc memcpy, specialised: walk_descents only copies whole descent_trial records; a typed struct copy has the
 * same effect and keeps CBMC's memory model typed (the byte-wise builtin makes every later access byte-level) */
void* memcpy(void* dst, const void* src, size_t n) {
	__CPROVER_assert(n == sizeof(descent_trial), "memcpy model: only whole descent_trial records are copied");
	*(descent_trial*)dst = *(const descent_trial*)src; return dst;
}
double calc_residual(cholmod_sparse* AtA, cholmod_dense* Atb, cholmod_dense* x, cholmod_common* c) { return nondet_double(); }
void qsort(void* base, size_t n, size_t size, int (*cmp)(const void*, const void*)) {
	/* insertion sort with the caller's comparison (n is tiny in every instance) */
	double* a = base;
	for (size_t i = 1; i < n; i++) for (size_t j = i; j > 0 && cmp(&a[j-1], &a[j]) > 0; j--) { double t = a[j]; a[j] = a[j-1]; a[j-1] = t; }
}
/* GUARANTEE of a worker (proved separately on evaluate_descent): when its state is RUN it eventually
 * writes its outputs, then sets WAIT under the mutex and broadcasts */
static void vp_complete(descent_trial* t) {
	long idx = (long)(__CPROVER_POINTER_OFFSET(t->alpha) / sizeof(double));
	__CPROVER_assert(idx >= 0 && idx < VP_MAXA, "trial step index in range");
	if (!t->H1) { t->H1 = malloc(t->nF*sizeof(long)); __CPROVER_assume(t->H1 != NULL); }
	if (!t->x_c) t->x_c = cholmod_l_allocate_dense(t->nF, 1, t->nF, CHOLMOD_REAL, t->c);
	t->nH1 = vp_h1n[idx];
	for (long k = 0; k < t->nF; k++) { ((double*)t->x_c->x)[k] = vp_xc[idx][k]; if (k < t->nH1) t->H1[k] = vp_h1[idx][k]; }
	t->residual = vp_res[idx];
	t->state = WAIT;
}
static void vp_rely(void) {   /* any running worker may have finished in the meantime */
	for (int j = 0; j < vp_ncreated; j++) if (vp_trial[j]->state == RUN && nondet_bool()) vp_complete(vp_trial[j]);
}
static void vp_snapshot(void) { for (int j = 0; j < vp_ncreated; j++) vp_snap[j] = vp_trial[j]->state; }

int pthread_mutex_init(pthread_mutex_t* m, const pthread_mutexattr_t* a) { return 0; }
int pthread_cond_init(pthread_cond_t* c, const pthread_condattr_t* a) { return 0; }
int pthread_mutex_destroy(pthread_mutex_t* m) { __CPROVER_assert(!vp_held, "mutex destroyed while held"); return 0; }
int pthread_cond_destroy(pthread_cond_t* c) { return 0; }
int pthread_attr_init(pthread_attr_t* a) { return 0; }
int pthread_attr_destroy(pthread_attr_t* a) { return 0; }
int pthread_attr_setdetachstate(pthread_attr_t* a, int s) { return 0; }
int pthread_create(pthread_t* th, const pthread_attr_t* a, void* (*fn)(void*), void* arg) {
	__CPROVER_assert(vp_ncreated < VP_MAXT, "thread table"); vp_trial[vp_ncreated] = (descent_trial*)arg; *th = (pthread_t)vp_ncreated; vp_ncreated++; return 0;
}
int pthread_mutex_lock(pthread_mutex_t* m) {
	__CPROVER_assert(!vp_held, "lock discipline: mutex is not locked twice by the coordinator");
	vp_rely(); vp_held = 1; vp_snapshot(); return 0;
}
int pthread_mutex_unlock(pthread_mutex_t* m) {
	__CPROVER_assert(vp_held, "lock discipline: unlock only while holding the mutex");
	/* no premature use: the coordinator never leaves a critical section while a worker that was running
	 * at the last synchronisation point is still running (its results would be read unfinished) */
	for (int j = 0; j < vp_ncreated; j++)
		__CPROVER_assert(!(vp_trial[j]->state == RUN && vp_snap[j] == RUN), "no premature use: every started worker has reported before the coordinator proceeds");
	vp_held = 0; return 0;
}
int pthread_cond_broadcast(pthread_cond_t* c) { __CPROVER_assert(vp_held, "broadcast under the mutex"); return 0; }
int pthread_cond_wait(pthread_cond_t* c, pthread_mutex_t* m) {
	__CPROVER_assert(vp_held, "lock discipline: cond_wait with the mutex held");
	_Bool any = 0; for (int j = 0; j < vp_ncreated; j++) if (vp_trial[j]->state == RUN) any = 1;
	/* no lost wake-up: when the coordinator blocks, some worker must still be going to broadcast */
	__CPROVER_assert(any, "no lost wake-up: a worker that will still broadcast exists whenever the coordinator waits");
	__CPROVER_assume(any);
	/* the wait returns after at least one running worker has reported (fairness), possibly more */
	int k = nondet_int(); __CPROVER_assume(k >= 0 && k < vp_ncreated && vp_trial[k]->state == RUN);
	vp_complete(vp_trial[k]); vp_rely(); vp_snapshot(); return 0;
}
int pthread_join(pthread_t th, void** r) {
	int k = (int)th;
	__CPROVER_assert(!vp_held, "join without holding the mutex");
	__CPROVER_assert(k >= 0 && k < vp_ncreated && vp_trial[k]->state == TERMINATE, "termination: every joined worker has been told to terminate");
	vp_joined[k] = 1; return 0;
}
