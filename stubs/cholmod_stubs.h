/* Assumed contracts of the cholmod / SuiteSparse functions used by glam.c,
 * written as nondeterministic stub bodies (every one is listed as an
 * assumption in the evidence).  Only shapes matter here: numerical content of
 * every returned matrix is unconstrained. */
#include <cholmod.h>
#include <stdlib.h>
long nondet_long(void);
/* results come from a static pool (the contract instrumentation forbids malloc inside
 * loops under contract); which pool entry is returned is nondeterministic, so results
 * may alias - an over-approximation */
cholmod_sparse vp_sparse_pool[4];
unsigned nondet_unsigned(void);
static cholmod_sparse* vp_any_sparse(void) {
	unsigned k = nondet_unsigned();
	__CPROVER_assume(k < 4);
	return &vp_sparse_pool[k];
}
cholmod_triplet* cholmod_l_allocate_triplet(size_t nrow, size_t ncol, size_t nzmax, int stype, int xtype, cholmod_common* c) {
	cholmod_triplet* t = malloc(sizeof(cholmod_triplet));
	__CPROVER_assume(t != NULL);
	__CPROVER_assume(nzmax <= VP_MAX_NZ);
	t->nrow = nrow; t->ncol = ncol; t->nzmax = nzmax; t->nnz = 0; t->stype = stype; t->xtype = xtype;
	t->i = malloc(nzmax * sizeof(long)); t->j = malloc(nzmax * sizeof(long)); t->x = malloc(nzmax * sizeof(double));
	__CPROVER_assume(t->i != NULL && t->j != NULL && t->x != NULL);
	return t;
}
cholmod_sparse* cholmod_l_triplet_to_sparse(cholmod_triplet* T, size_t nzmax, cholmod_common* c) {
	__CPROVER_assert(T->nnz <= T->nzmax, "stub: triplet not over-filled");
	return vp_any_sparse();
}
int cholmod_l_free_triplet(cholmod_triplet** T, cholmod_common* c) { *T = NULL; return 1; }
int cholmod_l_free_sparse(cholmod_sparse** A, cholmod_common* c) { *A = NULL; return 1; }
cholmod_sparse* cholmod_l_ssmult(cholmod_sparse* A, cholmod_sparse* B, int stype, int values, int sorted, cholmod_common* c) { return vp_any_sparse(); }
cholmod_sparse* cholmod_l_transpose(cholmod_sparse* A, int values, cholmod_common* c) { return vp_any_sparse(); }
cholmod_sparse* cholmod_l_speye(size_t nrow, size_t ncol, int xtype, cholmod_common* c) { return vp_any_sparse(); }
cholmod_sparse* cholmod_l_add(cholmod_sparse* A, cholmod_sparse* B, double alpha[2], double beta[2], int values, int sorted, cholmod_common* c) { return vp_any_sparse(); }
cholmod_sparse* cholmod_tril(int dim, cholmod_common* c) { return vp_any_sparse(); }
cholmod_sparse* kronecker_product(cholmod_sparse* a, cholmod_sparse* b, cholmod_common* c) { return vp_any_sparse(); }
